(* C14: model of the arithmetic term constructors of src/logics/ArithLogic.cc on linear polynomials.
   Definitions only; the proofs are in LinNormProofs.v.

   A linear term in the normal form kept by ArithLogic is a constant, a "var-like" atom (anything numeric
   that is not +, * or a constant: variables, ite, uninterpreted applications, div, mod, select), a
   product [c * a] of a constant and an atom, or a sum of such factors.  [linearize] reads such a term as
   a polynomial  (list (atom * Q), Q);  every constructor is "compute on polynomials, write the
   polynomial back with [to_term]".  [None] = an exception (non-linear, division by zero, sort error).

   [leb] is the order of PTRefs of atoms (ArithLogic::termSort orders factors by the PTRef of their
   variable: LessThan_deepPTRef, ArithLogic.cc:485); it selects the *leading* factor used for scaling
   Real (in)equalities and for the sign of equalities.  It is an arbitrary relation here. *)
From Coq Require Import ZArith QArith Qround Qreduction Qabs List Bool Arith.
From OsmtV.IntArith Require Import DivModModel.
From OsmtV.Terms Require Import TermSem BoolCtors.
Import ListNotations.

Definition mono := (term * Q)%type.
Definition poly := (list mono * Q)%type.

Definition is_num_const (t : term) : bool := match t with TNum _ _ _ => true | _ => false end.
Definition num_val (t : term) : Q := match t with TNum _ q _ => q | _ => 0 end.
Definition is_plus (t : term) : bool := match t with TApp OPlus _ => true | _ => false end.
Definition is_times (t : term) : bool := match t with TApp OTimes _ => true | _ => false end.
(* ArithLogic::isNumVarLike, ArithLogic.h:218 *)
Definition is_atom (t : term) : bool :=
  is_num_sort (sort_of t) && negb (is_plus t) && negb (is_times t) && negb (is_num_const t).

(* ArithLogic::splitTermToVarAndConst, ArithLogic.cc:223 *)
Definition lin_factor (t : term) : option poly :=
  match t with
  | TNum _ q _ => Some ([], q)
  | TApp OTimes [a; b] =>
      if is_num_const a && is_atom b then Some ([(b, num_val a)], 0)
      else if is_num_const b && is_atom a then Some ([(a, num_val b)], 0)
      else None
  | _ => if is_atom t then Some ([(t, 1)], 0) else None
  end.

Definition padd (p q : poly) : poly := (fst p ++ fst q, snd p + snd q).
Definition pscale (k : Q) (p : poly) : poly := (map (fun m => (fst m, k * snd m)) (fst p), k * snd p).
Definition pzero : poly := ([], 0).

Fixpoint psum (l : list (option poly)) : option poly :=
  match l with
  | [] => Some pzero
  | Some p :: r => option_map (padd p) (psum r)
  | None :: _ => None
  end.

Definition linearize (t : term) : option poly :=
  match t with
  | TApp OPlus args => psum (map lin_factor args)
  | _ => lin_factor t
  end.

(* merge equal atoms, first occurrence keeps its place (the varIndices map of mkPlus, ArithLogic.cc:600-624) *)
Fixpoint madd (a : term) (k : Q) (ms : list mono) : list mono :=
  match ms with
  | [] => [(a, k)]
  | (b, k') :: r => if term_eqb a b then (b, k' + k) :: r else (b, k') :: madd a k r
  end.
Definition merge (ms : list mono) : list mono := fold_left (fun acc m => madd (fst m) (snd m) acc) ms [].
Definition nonzero (m : mono) : bool := negb (Qeq_bool (snd m) 0).
Definition pnorm (p : poly) : poly := (filter nonzero (merge (fst p)), snd p).

Definition num (s : sort) (q : Q) : term := TNum s (Qred q) 0.

Section Norm.
  Variable leb : term -> term -> bool.      (* order of PTRefs as seen by ArithLogic::termSort *)

Definition mono_term (s : sort) (m : mono) : term :=
  if Qeq_bool (snd m) 1 then fst m else TApp OTimes (tsort leb [num s (snd m); fst m]).

(* polynomial -> term (the tail of mkPlus, ArithLogic.cc:625-646) *)
Definition to_term (s : sort) (p : poly) : term :=
  let fs := map (mono_term s) (filter nonzero (fst p)) in
  let all := fs ++ (if Qeq_bool (snd p) 0 then [] else [num s (snd p)]) in
  match all with
  | [] => num s 0
  | [t] => t
  | _ => TApp OPlus (tsort leb all)      (* mkFun sorts the arguments of commutative symbols *)
  end.

Definition same_num_sort (args : list term) : option sort :=
  match args with
  | [] => None
  | a :: r => let s := sort_of a in
              if is_num_sort s && forallb (fun t => sort_eqb (sort_of t) s) r then Some s else None
  end.

(* ArithLogic::mkPlus, ArithLogic.cc:573 *)
Definition mkPlus (args : list term) : option term :=
  match same_num_sort args with
  | None => None
  | Some s => match psum (map linearize args) with
              | Some p => Some (to_term s (pnorm p))
              | None => None
              end
  end.

(* ArithLogic::mkNeg, ArithLogic.cc:512 *)
Definition mkNeg (t : term) : option term :=
  if negb (is_num_sort (sort_of t)) then None
  else match linearize t with
       | Some p => Some (to_term (sort_of t) (pnorm (pscale (-1) p)))
       | None => None
       end.

(* ArithLogic::mkMinus, ArithLogic.cc:564:  mkPlus (a :: map mkNeg r).  The negated arguments are again in normal
   form, and mkPlus linearises them; the model computes the same polynomial  a - (sum r)  directly. *)
Definition mkMinus (args : list term) : option term :=
  match args with
  | [] => None
  | [a] => mkNeg a
  | a :: r => match same_num_sort args, linearize a, psum (map linearize r) with
              | Some s, Some pa, Some pr => Some (to_term s (pnorm (padd pa (pscale (-1) pr))))
              | _, _, _ => None
              end
  end.

Definition flatten_times (args : list term) : list term :=
  flat_map (fun t => match t with TApp OTimes l => l | _ => [t] end) args.

Definition last_only {A} (l : list A) : list A := match rev l with [] => [] | x :: _ => [x] end.

(* ArithLogic::mkTimes, ArithLogic.cc:649 with SimplifyConst::simplify (945) and
   SimplifyConstTimes::constSimplify (1009).
   [fixed = false] is the code as it stands: constSimplify remembers only the *last* sum among the
   factors ("plus = tr"), so with a constant present every earlier sum is silently dropped.
   [fixed = true] keeps every sum (then two non-constant factors make the product non-linear). *)
Definition mkTimes (fixed : bool) (args : list term) : option term :=
  match same_num_sort args with
  | None => None
  | Some s =>
      let fl := flatten_times args in
      let consts := filter is_num_const fl in
      let others := filter (fun t => negb (is_num_const t)) fl in
      match consts with
      | [] => match others with [t] => Some t | _ => None end
      | _ =>
          let k := Qprod (map num_val consts) in
          if Qeq_bool k 0 then Some (num s 0)
          else
            let pluses := filter is_plus others in
            let atoms := filter (fun t => negb (is_plus t)) others in
            match atoms ++ (if fixed then pluses else last_only pluses) with
            | [] => Some (num s k)
            | [e] => match linearize e with
                     | Some p => Some (to_term s (pnorm (pscale k p)))
                     | None => None
                     end
            | _ => None
            end
      end
  end.

(* ArithLogic::mkRealDiv, ArithLogic.cc:840 *)
Definition mkRealDiv (args : list term) : option term :=
  match args with
  | [a; b] =>
      if negb (sort_eqb (sort_of a) SReal && sort_eqb (sort_of b) SReal) then None
      else if negb (is_num_const b) then None
      else if Qeq_bool (num_val b) 0 then None
      else match linearize a with
           | Some p => Some (to_term SReal (pnorm (pscale (/ num_val b) p)))
           | None => None
           end
  | _ => None
  end.

Definition int_of (t : term) : Z := Qfloor (num_val t).

(* ArithLogic::mkIntDiv, ArithLogic.cc:818 *)
Definition mkIntDiv (args : list term) : option term :=
  match args with
  | [a; b] =>
      if negb (sort_eqb (sort_of a) SInt && sort_eqb (sort_of b) SInt) then None
      else if negb (is_num_const b) then None
      else if Qeq_bool (num_val b) 0 then None
      else if Qeq_bool (num_val b) 1 then Some a
      else if Qeq_bool (num_val b) (-1) then mkNeg a
      else if is_num_const a
           then option_map (fun z => num SInt (inject_Z z)) (fold_div (int_of a) (int_of b))
           else Some (TApp OIDiv [a; b])
  | _ => None
  end.

(* ArithLogic::mkMod, ArithLogic.cc:795 *)
Definition mkMod (args : list term) : option term :=
  match args with
  | [a; b] =>
      if negb (sort_eqb (sort_of a) SInt && sort_eqb (sort_of b) SInt) then None
      else if negb (is_num_const b) then None
      else if Qeq_bool (num_val b) 0 then None
      else if Qeq_bool (num_val b) 1 || Qeq_bool (num_val b) (-1) then Some (num SInt 0)
      else if is_num_const a
           then option_map (fun z => num SInt (inject_Z z)) (fold_mod (int_of a) (int_of b))
           else Some (TApp OMod [a; b])
  | _ => None
  end.

  (* the factor whose atom has the least PTRef: first element of the sorted factor list *)
  Fixpoint lead_of (m : mono) (ms : list mono) : mono :=
    match ms with
    | [] => m
    | m' :: r => if leb (fst m) (fst m') then lead_of m r else lead_of m' r
    end.

  Definition Zgcd_list (l : list Z) : Z := fold_right Z.gcd 0%Z l.
  Definition all_int (ms : list mono) : bool := forallb (fun m => Q_is_int (snd m)) ms.

  (* ArithLogic::sumToNormalizedRealPair (1277) / sumToNormalizedIntPair (1196): the positive factor the
     sum is divided by.  Int: the gcd of the (integer) coefficients; Int with a non-integer coefficient
     (lcm branch) cannot arise from well-sorted terms and is not modelled: None. *)
  Definition norm_div (s : sort) (ms : list mono) : option Q :=
    match ms with
    | [] => None
    | m :: r =>
        match s with
        | SReal => Some (Qabs (snd (lead_of m r)))
        | SInt => if all_int ms then Some (inject_Z (Zgcd_list (map (fun m => Qfloor (snd m)) ms))) else None
        | _ => None
        end
    end.

  Definition scale_monos (d : Q) (ms : list mono) : list mono := map (fun m => (fst m, snd m / d)) ms.

  (* ArithLogic::mkBinaryLeq tail (702-719) + sumToNormalizedInequality (1303):  0 <= p  as a term *)
  Definition leq_of_poly (s : sort) (p : poly) : option term :=
    let (ms, c) := p in
    match ms with
    | [] => Some (TBool (Qle_bool 0 c))
    | m :: r =>
        match r, Qeq_bool c 0 with
        | [], true =>
            (* c*v: scale to v or -v (normalizeMul, 245) *)
            Some (TApp OLeq [num s 0; if Qle_bool 0 (snd m) then fst m else TApp OTimes (tsort leb [num s (-1); fst m])])
        | _, _ =>
            match norm_div s ms with
            | None => None
            | Some d =>
                let bound := - c / d in
                let bound := match s with SInt => inject_Z (Qceiling bound) | _ => bound end in
                Some (TApp OLeq [num s bound; to_term s (scale_monos d ms, 0)])
            end
        end
    end.

  Definition diff_poly (lhs rhs : term) : option poly :=
    match linearize rhs, linearize lhs with
    | Some pr, Some pl => Some (pnorm (padd pr (pscale (-1) pl)))
    | _, _ => None
    end.

  (* ArithLogic::mkBinaryLeq, ArithLogic.cc:693 *)
  Definition mkBinaryLeq (lhs rhs : term) : option term :=
    match same_num_sort [lhs; rhs] with
    | None => None
    | Some s =>
        if is_num_const lhs && is_num_const rhs then Some (TBool (Qle_bool (num_val lhs) (num_val rhs)))
        else match diff_poly lhs rhs with
             | Some p => leq_of_poly s p
             | None => None
             end
    end.

  Definition mkBinaryGeq (lhs rhs : term) := mkBinaryLeq rhs lhs.
  Definition mkBinaryLt (lhs rhs : term) := match mkBinaryGeq lhs rhs with Some t => mkNot t | None => None end.
  Definition mkBinaryGt (lhs rhs : term) := match mkBinaryLeq lhs rhs with Some t => mkNot t | None => None end.

  (* ArithLogic::mkLeq/mkGeq/mkLt/mkGt, ArithLogic.cc:722-764: chain + mkAnd *)
  Definition mkCmp (bin : term -> term -> option term) (args : list term) : option term :=
    match args with
    | [] | [_] => None
    | [a; b] => bin a b
    | _ => match eq_chain bin args with Some es => mkAnd leb es | None => None end
    end.
  Definition mkLeq := mkCmp mkBinaryLeq.
  Definition mkGeq := mkCmp mkBinaryGeq.
  Definition mkLt := mkCmp mkBinaryLt.
  Definition mkGt := mkCmp mkBinaryGt.

  (* ArithLogic::sumToNormalizedEquality, ArithLogic.cc:1310:  0 = p  as a term *)
  Definition eq_of_poly (s : sort) (p : poly) : option term :=
    let (ms, c) := p in
    match ms with
    | [] => Some (TBool (Qeq_bool c 0))
    | m :: r =>
        match r, Qeq_bool c 0 with
        | [], true => core_mkBinaryEq leb (num s 0) (fst m)
        | _, _ =>
            match norm_div s ms with
            | None => None
            | Some d =>
                let lhs := - c / d in
                if sort_eqb s SInt && negb (Q_is_int lhs) then Some (TBool false)
                else
                  let ms' := scale_monos d ms in
                  let neg := negb (Qle_bool 0 (snd (lead_of m r))) in    (* hasNegativeLeadingVariable, 1344 *)
                  let ms'' := if neg then map (fun m => (fst m, - snd m)) ms' else ms' in
                  let lhs' := if neg then - lhs else lhs in
                  core_mkBinaryEq leb (num s lhs') (to_term s (ms'', 0))
            end
        end
    end.

  (* ArithLogic::mkBinaryEq, ArithLogic.cc:766.  [uf] = hasUFs() or hasArrays(): no arithmetic
     normalisation, Logic::mkBinaryEq is used. *)
  Definition arith_mkBinaryEq (uf : bool) (lhs rhs : term) : option term :=
    if negb (sort_eqb (sort_of lhs) (sort_of rhs)) then None
    else if uf || negb (is_num_sort (sort_of lhs)) then core_mkBinaryEq leb lhs rhs
    else if is_num_const lhs && is_num_const rhs then Some (TBool (Qeq_bool (num_val lhs) (num_val rhs)))
    else match diff_poly lhs rhs with
         | Some p => eq_of_poly (sort_of lhs) p
         | None => None
         end.

  Definition mkEq (uf : bool) := mkEq_gen leb (arith_mkBinaryEq uf).
  Definition mkDistinct (uf : bool) := mkDistinct_gen leb (arith_mkBinaryEq uf).
End Norm.
