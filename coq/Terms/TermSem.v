(* C14: a small self-contained deep embedding of the Bool / Int / Real / uninterpreted terms the term
   constructors of src/logics/Logic.cc and src/logics/ArithLogic.cc work on, with SMT-LIB semantics
   [eval].  Used only by the C14 package (Terms/BoolCtors*.v, Terms/LinNorm*.v).

   A term is a tree; the raw node [TApp o args] is "the operator o applied to args" and [eval] gives it
   the SMT-LIB meaning.  The constructors (mkAnd, mkPlus, ...) return normal forms that use a subset of
   the nodes; every C14 theorem has the shape  eval I (mkX args) = eval I (TApp OX args).

   Numbers: one numeric value domain Q for Int and Real (as in the code, where both use FastRational);
   numeric values are kept canonical ([Qred]) so that values compare with Leibniz equality.  Int-sorted
   variables and uninterpreted functions are coerced to integers ([coerce]), so "for all interpretations
   I" means "for all integer assignments" on the Int sort.
   Arrays: [select]/[store] are not simplified by the constructors (Logic::mkSelect / mkStore call mkFun
   directly); they are uninterpreted symbols here, so pass-through holds for every interpretation, in
   particular the array ones. *)
From Coq Require Import ZArith QArith Qround Qreduction List Bool Arith Lia.
From OsmtV.IntArith Require Import DivModModel.
Import ListNotations.

Inductive sort := SBool | SInt | SReal | SU (n : nat).

Inductive op :=
| OAnd | OOr | ONot | OXor | OImpl | OIte | OEq | ODistinct
| OPlus | OMinus | OTimes | ORDiv | OIDiv | OMod
| OLeq | OLt | OGeq | OGt
| OUF (f : nat) (rs : sort).

(* [TNum s q sp]: numeric literal of sort s with value q; [sp] is the spelling variant of the literal
   (0 = the canonical spelling; e.g. the API literal "007" is TNum SInt 7 4, "-0" is TNum SInt 0 1):
   terms are hash-consed by symbol *name*, so differently spelled literals are different terms.
   [TUc s c]: the constant number c of the uninterpreted sort s (Logic::mkConst on such a sort); distinct
   constants denote distinct elements. *)
Inductive term :=
| TVar (s : sort) (x : nat)
| TBool (b : bool)
| TNum (s : sort) (q : Q) (sp : nat)
| TUc (s : sort) (c : nat)
| TApp (o : op) (args : list term).

Section TermInd.
  Variable P : term -> Prop.
  Hypothesis Hvar : forall s x, P (TVar s x).
  Hypothesis Hbool : forall b, P (TBool b).
  Hypothesis Hnum : forall s q sp, P (TNum s q sp).
  Hypothesis Huc : forall s c, P (TUc s c).
  Hypothesis Happ : forall o args, Forall P args -> P (TApp o args).
  Fixpoint term_ind' (t : term) : P t :=
    match t with
    | TVar s x => Hvar s x
    | TBool b => Hbool b
    | TNum s q sp => Hnum s q sp
    | TUc s c => Huc s c
    | TApp o args =>
        Happ o args ((fix go (l : list term) : Forall P l :=
                        match l with [] => Forall_nil P | a :: r => Forall_cons a (term_ind' a) (go r) end) args)
    end.
End TermInd.

(* ---------- decidable (structural) equality: the model of PTRef identity of hash-consed terms ---------- *)
Definition sort_eqb (a b : sort) : bool :=
  match a, b with
  | SBool, SBool | SInt, SInt | SReal, SReal => true
  | SU n, SU m => Nat.eqb n m
  | _, _ => false
  end.

Definition op_eqb (a b : op) : bool :=
  match a, b with
  | OAnd, OAnd | OOr, OOr | ONot, ONot | OXor, OXor | OImpl, OImpl | OIte, OIte | OEq, OEq
  | ODistinct, ODistinct | OPlus, OPlus | OMinus, OMinus | OTimes, OTimes | ORDiv, ORDiv
  | OIDiv, OIDiv | OMod, OMod | OLeq, OLeq | OLt, OLt | OGeq, OGeq | OGt, OGt => true
  | OUF f s, OUF g s' => Nat.eqb f g && sort_eqb s s'
  | _, _ => false
  end.

Definition Q_eqb (a b : Q) : bool := Z.eqb (Qnum a) (Qnum b) && Pos.eqb (Qden a) (Qden b).

Fixpoint term_eqb (a b : term) {struct a} : bool :=
  match a, b with
  | TVar s x, TVar s' x' => sort_eqb s s' && Nat.eqb x x'
  | TBool b1, TBool b2 => Bool.eqb b1 b2
  | TNum s q sp, TNum s' q' sp' => sort_eqb s s' && Q_eqb q q' && Nat.eqb sp sp'
  | TUc s c, TUc s' c' => sort_eqb s s' && Nat.eqb c c'
  | TApp o l, TApp o' l' =>
      op_eqb o o' &&
      (fix go (l l' : list term) {struct l} : bool :=
         match l, l' with
         | [], [] => true
         | x :: r, y :: r' => term_eqb x y && go r r'
         | _, _ => false
         end) l l'
  | _, _ => false
  end.

(* ---------- values and interpretations ---------- *)
Inductive value := VB (b : bool) | VN (q : Q) | VU (n : nat).

Definition asB (v : value) : bool := match v with VB b => b | _ => false end.
Definition asN (v : value) : Q := match v with VN q => q | _ => 0 end.
Definition asU (v : value) : nat := match v with VU n => n | _ => O end.

Definition veqb (a b : value) : bool :=
  match a, b with
  | VB x, VB y => Bool.eqb x y
  | VN x, VN y => Qeq_bool x y
  | VU x, VU y => Nat.eqb x y
  | _, _ => false
  end.

Record interp := { vi : sort -> nat -> value; fi : nat -> list value -> value }.

(* Every interpretation is read through [coerce], which makes it well sorted: Int symbols denote
   integers, Real symbols canonical rationals. *)
Definition coerce (s : sort) (v : value) : value :=
  match s with
  | SBool => VB (asB v)
  | SInt => VN (inject_Z (Qfloor (asN v)))
  | SReal => VN (Qred (asN v))
  | SU _ => VU (asU v)
  end.

Fixpoint chainb {A} (r : A -> A -> bool) (l : list A) : bool :=
  match l with
  | a :: t => match t with b :: _ => r a b && chainb r t | [] => true end
  | [] => true
  end.

Fixpoint pairwiseb {A} (r : A -> A -> bool) (l : list A) : bool :=
  match l with [] => true | a :: t => forallb (r a) t && pairwiseb r t end.

Definition Qsum (l : list Q) : Q := fold_right Qplus 0 l.
Definition Qprod (l : list Q) : Q := fold_right Qmult 1 l.
Definition Qltb (a b : Q) : bool := negb (Qle_bool b a).

Definition eval_op (I : interp) (o : op) (vs : list value) : value :=
  match o with
  | OAnd => VB (forallb asB vs)
  | OOr => VB (existsb asB vs)
  | ONot => match vs with [v] => VB (negb (asB v)) | _ => VB false end
  | OXor => VB (fold_left xorb (map asB vs) false)                       (* left associative *)
  | OImpl => match rev (map asB vs) with                                  (* right associative *)
             | [] => VB true
             | c :: hyps => VB (fold_left (fun acc h => implb h acc) hyps c)
             end
  | OIte => match vs with [c; a; b] => if asB c then a else b | _ => VB false end
  | OEq => VB (chainb veqb vs)                                            (* chainable *)
  | ODistinct => VB (pairwiseb (fun a b => negb (veqb a b)) vs)           (* pairwise *)
  | OPlus => VN (Qred (Qsum (map asN vs)))
  | OMinus => match vs with
              | [] => VN 0
              | [a] => VN (Qred (- asN a))
              | a :: r => VN (Qred (asN a - Qsum (map asN r)))
              end
  | OTimes => VN (Qred (Qprod (map asN vs)))
  | ORDiv => match vs with [a; b] => VN (Qred (asN a / asN b)) | _ => VN 0 end
  | OIDiv => match vs with [a; b] => VN (inject_Z (smt_div (Qfloor (asN a)) (Qfloor (asN b)))) | _ => VN 0 end
  | OMod => match vs with [a; b] => VN (inject_Z (smt_mod (Qfloor (asN a)) (Qfloor (asN b)))) | _ => VN 0 end
  | OLeq => VB (chainb Qle_bool (map asN vs))
  | OLt => VB (chainb Qltb (map asN vs))
  | OGeq => VB (chainb (fun a b => Qle_bool b a) (map asN vs))
  | OGt => VB (chainb (fun a b => Qltb b a) (map asN vs))
  | OUF f rs => coerce rs (fi I f vs)
  end.

Fixpoint eval (I : interp) (t : term) : value :=
  match t with
  | TVar s x => coerce s (vi I s x)
  | TBool b => VB b
  | TNum _ q _ => VN (Qred q)
  | TUc _ c => VU c
  | TApp o args => eval_op I o (map (eval I) args)
  end.

(* ---------- sorts ---------- *)
Fixpoint sort_of (t : term) : sort :=
  match t with
  | TVar s _ => s
  | TBool _ => SBool
  | TNum s _ _ => s
  | TUc s _ => s
  | TApp o args =>
      match o with
      | OAnd | OOr | ONot | OXor | OImpl | OEq | ODistinct | OLeq | OLt | OGeq | OGt => SBool
      | OIte => match args with [_; a; _] => sort_of a | _ => SBool end
      | OPlus | OMinus | OTimes => match args with a :: _ => sort_of a | [] => SInt end
      | ORDiv => SReal
      | OIDiv | OMod => SInt
      | OUF _ rs => rs
      end
  end.

Definition is_num_sort (s : sort) : bool := match s with SInt | SReal => true | _ => false end.
Definition Q_is_int (q : Q) : bool := Qeq_bool q (inject_Z (Qfloor q)).

Definition all_sort (s : sort) (l : list sort) : bool := forallb (sort_eqb s) l.

Definition op_ok (o : op) (ss : list sort) : bool :=
  match o with
  | OAnd | OOr | OXor | OImpl => all_sort SBool ss
  | ONot => match ss with [SBool] => true | _ => false end
  | OIte => match ss with [SBool; a; b] => sort_eqb a b | _ => false end
  | OEq | ODistinct => match ss with s :: r => all_sort s r | [] => false end
  | OPlus | OMinus | OTimes | OLeq | OLt | OGeq | OGt =>
      match ss with s :: r => is_num_sort s && all_sort s r | [] => false end
  | ORDiv => match ss with [SReal; SReal] => true | _ => false end
  | OIDiv | OMod => match ss with [SInt; SInt] => true | _ => false end
  | OUF _ _ => true
  end.

(* well sorted *)
Fixpoint wsort (t : term) : bool :=
  match t with
  | TVar _ _ | TBool _ => true
  | TNum s q _ => match s with SInt => Q_is_int q | SReal => true | _ => false end
  | TUc s _ => match s with SU _ => true | _ => false end
  | TApp o args => forallb wsort args && op_ok o (map sort_of args)
  end.

(* the invariant of Logic::mkNot: a negation is never applied to a negation or to true/false *)
Fixpoint nfb (t : term) : bool :=
  match t with
  | TApp o args =>
      forallb nfb args &&
      match o, args with
      | ONot, [TApp ONot _] | ONot, [TBool _] => false
      | _, _ => true
      end
  | _ => true
  end.

(* numeric literals are canonically spelled: one term per value *)
Fixpoint canonb (t : term) : bool :=
  match t with
  | TNum _ q sp => Nat.eqb sp 0 && Q_eqb (Qred q) q
  | TApp _ args => forallb canonb args
  | _ => true
  end.

(* wf_nc: everything the API guarantees by construction; wf: additionally literals canonically spelled *)
Definition wf_nc (t : term) : bool := wsort t && nfb t.
Definition wf (t : term) : bool := wsort t && nfb t && canonb t.

Definition has_sort (v : value) (s : sort) : Prop :=
  match s, v with
  | SBool, VB _ => True
  | SInt, VN q => q = inject_Z (Qfloor q)
  | SReal, VN q => Qred q = q
  | SU _, VU _ => True
  | _, _ => False
  end.

Definition is_const (t : term) : bool :=
  match t with TBool _ | TNum _ _ _ | TUc _ _ => true | _ => false end.
