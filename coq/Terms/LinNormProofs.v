(* C14: the arithmetic constructors of LinNorm.v return terms with the value of the operator applied to the
   arguments (sums, negation, difference, product, real division, div, mod). *)
From Coq Require Import ZArith QArith Qround Qreduction Qabs List Bool Arith Lia Lqa Permutation.
From OsmtV.IntArith Require Import DivModModel DivModProofs.
From OsmtV.Terms Require Import TermSem BoolCtors BoolCtorsBase BoolCtorsProofs LinNorm LinNormBase.
Import ListNotations.

Lemma wf_wsort t : wf t = true -> wsort t = true.
Proof. intros H. now destruct (wf_parts t H). Qed.
Lemma wf_wsort_all args : forallb wf args = true -> forallb wsort args = true.
Proof. rewrite !forallb_forall. intros H x Hx. apply wf_wsort. now apply H. Qed.

Lemma eval_plus_args I args : eval I (TApp OPlus args) = VN (Qred (Qsum (map (aval I) args))).
Proof. simpl. now rewrite map_map. Qed.
Lemma eval_times_args I args : eval I (TApp OTimes args) = VN (Qred (Qprod (map (aval I) args))).
Proof. simpl. now rewrite map_map. Qed.

Lemma same_num_sort_spec args s : same_num_sort args = Some s ->
  is_num_sort s = true /\ Forall (fun t => sort_of t = s) args.
Proof.
  unfold same_num_sort. destruct args as [|a r]; [discriminate|].
  destruct (is_num_sort (sort_of a)) eqn:E1; [|discriminate]. simpl.
  destruct (forallb (fun t => sort_eqb (sort_of t) (sort_of a)) r) eqn:E2; [|discriminate].
  intros E. inversion E; subst. split; [exact E1|]. constructor; [reflexivity|].
  apply Forall_forall. intros x Hx. rewrite forallb_forall in E2. apply sort_eqb_eq. now apply E2.
Qed.

Section Arith.
  Variable leb : term -> term -> bool.
  Variable I : interp.

  Theorem mkPlus_equiv args t : forallb wf args = true -> mkPlus leb args = Some t ->
    eval I t = eval I (TApp OPlus args).
  Proof.
    intros Hwf E. unfold mkPlus in E. destruct (same_num_sort args) as [s|]; [|discriminate].
    destruct (psum (map linearize args)) as [p|] eqn:Ep; [|discriminate]. inversion E; subst t.
    rewrite eval_plus_args. apply eval_to_term.
    - apply pnorm_atoms. apply (linearize_list_atoms args p); [now apply wf_wsort_all | exact Ep].
    - rewrite peval_pnorm. symmetry. now apply linearize_list_sound.
  Qed.

  Lemma mkNeg_value t r : wsort t = true -> mkNeg leb t = Some r -> eval I r = VN (Qred (- aval I t)).
  Proof.
    intros Hw E. unfold mkNeg in E. destruct (negb (is_num_sort (sort_of t))); [discriminate|].
    destruct (linearize t) as [p|] eqn:Ep; [|discriminate]. inversion E; subst r.
    apply eval_to_term.
    - apply pnorm_atoms, pscale_atoms. now apply (linearize_atoms t).
    - rewrite peval_pnorm, peval_pscale, <- (linearize_sound I t p Ep). ring.
  Qed.

  Theorem mkNeg_equiv t r : wf t = true -> mkNeg leb t = Some r -> eval I r = eval I (TApp OMinus [t]).
  Proof. intros Hwf E. rewrite (mkNeg_value t r (wf_wsort t Hwf) E). reflexivity. Qed.

  Theorem mkMinus_equiv args t : forallb wf args = true -> mkMinus leb args = Some t ->
    eval I t = eval I (TApp OMinus args).
  Proof.
    intros Hwf E. destruct args as [|a [|b r]]; [discriminate | |].
    - simpl in Hwf. rewrite andb_true_r in Hwf. now apply mkNeg_equiv.
    - remember (b :: r) as rest eqn:Er. unfold mkMinus in E. rewrite Er in E. rewrite <- Er in E.
      destruct (same_num_sort (a :: rest)) as [s|]; [|discriminate].
      destruct (linearize a) as [pa|] eqn:Ea; [|discriminate].
      destruct (psum (map linearize rest)) as [pr|] eqn:Epr; [|discriminate]. inversion E; subst t.
      simpl in Hwf. apply andb_true_iff in Hwf. destruct Hwf as [Wa Wr].
      assert (Hv : eval I (TApp OMinus (a :: rest)) = VN (Qred (aval I a - Qsum (map (aval I) rest)))).
      { subst rest. simpl. now rewrite map_map. }
      rewrite Hv. apply eval_to_term.
      + apply pnorm_atoms, padd_atoms; [apply (linearize_atoms a); [now apply wf_wsort | exact Ea] | apply pscale_atoms].
        apply (linearize_list_atoms rest pr); [now apply wf_wsort_all | exact Epr].
      + rewrite peval_pnorm, peval_padd, peval_pscale, <- (linearize_sound I a pa Ea).
        rewrite <- (linearize_list_sound I rest pr Epr). ring.
  Qed.

  (* ---------- products ---------- *)
  Definition numok (t : term) : Prop := wsort t = true /\ is_num_sort (sort_of t) = true.

  Lemma flatten_prod args : Qprod (map (aval I) (flatten_times args)) == Qprod (map (aval I) args).
  Proof.
    induction args as [|t r IH]; [reflexivity|].
    unfold flatten_times in *. simpl. rewrite map_app, Qprod_app, IH.
    assert (Qprod (map (aval I) (match t with TApp OTimes l => l | _ => [t] end)) == aval I t) as ->; [|reflexivity].
    destruct t as [| | | |o l]; try (simpl; ring). destruct o; try (simpl; ring). now rewrite aval_times.
  Qed.

  Lemma all_sort_num s l : is_num_sort s = true -> all_sort s l = true -> Forall (fun x => is_num_sort x = true) l.
  Proof. intros Hs H. apply all_sort_Forall in H. eapply Forall_impl; [|exact H]. now intros x ->. Qed.

  Lemma flatten_numok args : Forall numok args -> Forall numok (flatten_times args).
  Proof.
    induction 1 as [|t r [Hw Hs] _ IH]; [constructor|].
    unfold flatten_times in *. simpl. apply Forall_app. split; [|exact IH].
    assert (Hself : Forall numok [t]) by (repeat constructor; assumption).
    destruct t as [| | | |o l]; try exact Hself. destruct o; try exact Hself.
    simpl in Hw. apply andb_true_iff in Hw. destruct Hw as [Hwl Hok].
    destruct l as [|x l']; [constructor|]. simpl in Hok. apply andb_true_iff in Hok. destruct Hok as [Hn Ha].
    assert (Hsorts : Forall (fun y => is_num_sort y = true) (map sort_of (x :: l'))).
    { simpl. constructor; [exact Hn | now apply (all_sort_num (sort_of x))]. }
    rewrite Forall_map in Hsorts. rewrite forallb_forall in Hwl.
    apply Forall_forall. intros y Hy. rewrite Forall_forall in Hsorts. split; [now apply Hwl | now apply Hsorts].
  Qed.

  Lemma filter_partition_perm {A} (f : A -> bool) l : Permutation l (filter f l ++ filter (fun x => negb (f x)) l).
  Proof.
    induction l as [|x r IH]; [reflexivity|]. simpl. destruct (f x); simpl.
    - now constructor.
    - rewrite <- Permutation_middle. now constructor.
  Qed.

  Lemma consts_prod l : Forall (fun t => is_num_const t = true) l ->
    Qprod (map (aval I) l) == Qprod (map num_val l).
  Proof. induction 1; simpl; [reflexivity|]. now rewrite IHForall, (is_num_const_val I x H). Qed.

  Lemma numok_natom t : numok t -> natom I t.
  Proof. intros [H1 H2]. now apply wsort_natom. Qed.

  Theorem mkTimes_equiv args t : forallb wf args = true -> mkTimes leb true args = Some t ->
    eval I t = eval I (TApp OTimes args).
  Proof.
    intros Hwf E. unfold mkTimes in E. destruct (same_num_sort args) as [s|] eqn:Es; [|discriminate].
    destruct (same_num_sort_spec args s Es) as [Hs Hsorts].
    assert (Hnok : Forall numok args).
    { apply Forall_forall. intros x Hx. rewrite forallb_forall in Hwf. rewrite Forall_forall in Hsorts.
      split; [apply wf_wsort; now apply Hwf | rewrite (Hsorts x Hx); exact Hs]. }
    apply flatten_numok in Hnok.
    rewrite eval_times_args. rewrite <- (Qred_complete _ _ (flatten_prod args)).
    set (fl := flatten_times args) in *.
    set (consts := filter is_num_const fl) in *.
    set (others := filter (fun t => negb (is_num_const t)) fl) in *.
    pose proof (filter_partition_perm is_num_const fl) as Hp. fold consts others in Hp.
    assert (Hprod : Qprod (map (aval I) fl) == Qprod (map num_val consts) * Qprod (map (aval I) others)).
    { rewrite (Qprod_perm _ _ (Permutation_map (aval I) Hp)), map_app, Qprod_app.
      rewrite consts_prod; [reflexivity|]. apply Forall_forall. intros x Hx. apply filter_In in Hx. tauto. }
    assert (Hoth : Forall numok others).
    { apply Forall_forall. intros x Hx. apply filter_In in Hx. rewrite Forall_forall in Hnok. now apply Hnok. }
    rewrite (Qred_complete _ _ Hprod).
    destruct consts as [|c0 cs] eqn:Ec.
    - (* no constant *)
      destruct others as [|e [|? ?]]; try discriminate. inversion E; subst t.
      apply Forall_cons_iff in Hoth. destruct Hoth as [He _].
      apply natom_eq; [now apply numok_natom | simpl; ring].
    - rewrite <- Ec in *. clear Ec.
      set (k := Qprod (map num_val consts)) in *.
      destruct (Qeq_bool k 0) eqn:Ek.
      { inversion E; subst t. apply Qeq_bool_eq in Ek. apply natom_eq; [apply natom_num|].
        rewrite aval_num, Ek. ring. }
      set (pluses := filter is_plus others) in *.
      set (atoms := filter (fun t => negb (is_plus t)) others) in *.
      assert (Hp2 : Permutation others (atoms ++ pluses)).
      { rewrite (filter_partition_perm is_plus others). apply Permutation_app_comm. }
      destruct (atoms ++ pluses) as [|e [|? ?]] eqn:Eels; try discriminate.
      + symmetry in Hp2. apply Permutation_nil in Hp2. rewrite Hp2. inversion E; subst t.
        apply natom_eq; [apply natom_num|]. rewrite aval_num. simpl. ring.
      + symmetry in Hp2. apply Permutation_length_1_inv in Hp2. rewrite Hp2 in *.
        destruct (linearize e) as [p|] eqn:Ep; [|discriminate]. inversion E; subst t.
        apply Forall_cons_iff in Hoth. destruct Hoth as [[We _] _].
        apply eval_to_term.
        * apply pnorm_atoms, pscale_atoms. now apply (linearize_atoms e).
        * rewrite peval_pnorm, peval_pscale, <- (linearize_sound I e p Ep). simpl. ring.
  Qed.

  (* ---------- division by a constant ---------- *)
  Theorem mkRealDiv_equiv args t : forallb wf args = true -> mkRealDiv leb args = Some t ->
    eval I t = eval I (TApp ORDiv args).
  Proof.
    intros Hwf E. unfold mkRealDiv in E. destruct args as [|a [|b [|? ?]]]; try discriminate.
    destruct (negb (sort_eqb (sort_of a) SReal && sort_eqb (sort_of b) SReal)); [discriminate|].
    destruct (negb (is_num_const b)) eqn:Hc; [discriminate|]. apply negb_false_true in Hc.
    destruct (Qeq_bool (num_val b) 0); [discriminate|].
    destruct (linearize a) as [p|] eqn:Ep; [|discriminate]. inversion E; subst t.
    simpl in Hwf. apply andb_true_iff in Hwf. destruct Hwf as [Wa _].
    assert (Hv : eval I (TApp ORDiv [a; b]) = VN (Qred (aval I a / aval I b))) by reflexivity.
    rewrite Hv. apply eval_to_term.
    - apply pnorm_atoms, pscale_atoms. apply (linearize_atoms a); [now apply wf_wsort | exact Ep].
    - rewrite peval_pnorm, peval_pscale, <- (linearize_sound I a p Ep), (is_num_const_val I b Hc).
      unfold Qdiv. ring.
  Qed.

  Lemma smt_div_1 n : smt_div n 1 = n.
  Proof. unfold smt_div. simpl. apply Z.div_1_r. Qed.
  Lemma smt_div_m1 n : smt_div n (-1) = (- n)%Z.
  Proof. unfold smt_div. simpl. now rewrite Z.div_1_r. Qed.
  Lemma smt_mod_1 n : smt_mod n 1 = 0%Z.
  Proof. unfold smt_mod. simpl. apply Z.mod_1_r. Qed.
  Lemma smt_mod_m1 n : smt_mod n (-1) = 0%Z.
  Proof. unfold smt_mod. simpl. apply Z.mod_1_r. Qed.

  Lemma int_term_value a : wsort a = true -> sort_of a = SInt ->
    eval I a = VN (inject_Z (Qfloor (aval I a))).
  Proof.
    intros Hw Hs. pose proof (eval_has_sort I a Hw) as H. rewrite Hs in H. unfold aval.
    destruct (eval I a); simpl in *; try tauto. now rewrite <- H.
  Qed.

  Lemma int_const_floor b : wsort b = true -> sort_of b = SInt -> is_num_const b = true ->
    num_val b == inject_Z (Qfloor (aval I b)) /\ Qfloor (aval I b) = int_of b.
  Proof.
    intros Hw Hs Hc. destruct b; try discriminate. simpl in Hs. subst s. simpl in Hw.
    apply Q_is_int_spec in Hw. destruct Hw as [z Hz]. unfold int_of, aval. simpl.
    rewrite (Qfloor_comp _ _ (Qred_correct q)). split; [|reflexivity].
    rewrite (Qfloor_comp _ _ Hz), Qfloor_Z. exact Hz.
  Qed.

  Lemma Qeq_bool_Z q z : Qeq_bool q (inject_Z z) = true -> forall y, q == inject_Z y -> y = z.
  Proof.
    intros H y Hy. apply Qeq_bool_eq in H. rewrite Hy in H. unfold Qeq in H. simpl in H. lia.
  Qed.

  Lemma sort_pair a b s : negb (sort_eqb (sort_of a) s && sort_eqb (sort_of b) s) = false ->
    sort_of a = s /\ sort_of b = s.
  Proof. intros H. apply negb_false_true in H. apply andb_true_iff in H. now rewrite !sort_eqb_eq in H. Qed.

  Theorem mkIntDiv_equiv args t : forallb wf args = true -> mkIntDiv leb args = Some t ->
    eval I t = eval I (TApp OIDiv args).
  Proof.
    intros Hwf E. unfold mkIntDiv in E. destruct args as [|a [|b [|? ?]]]; try discriminate.
    destruct (negb (sort_eqb (sort_of a) SInt && sort_eqb (sort_of b) SInt)) eqn:Hs; [discriminate|].
    destruct (sort_pair _ _ _ Hs) as [Sa Sb].
    destruct (negb (is_num_const b)) eqn:Hc; [discriminate|]. apply negb_false_true in Hc.
    simpl in Hwf. rewrite !andb_true_iff in Hwf. destruct Hwf as (Wa & Wb & _).
    apply wf_wsort in Wa, Wb.
    destruct (int_const_floor b Wb Sb Hc) as [Hb Hfb].
    assert (Hv : eval I (TApp OIDiv [a; b]) = VN (inject_Z (smt_div (Qfloor (aval I a)) (Qfloor (aval I b))))) by reflexivity.
    rewrite Hv.
    destruct (Qeq_bool (num_val b) 0) eqn:E0; [discriminate|].
    destruct (Qeq_bool (num_val b) 1) eqn:E1.
    { inversion E; subst t. rewrite (Qeq_bool_Z _ 1 E1 _ Hb), smt_div_1. now apply int_term_value. }
    destruct (Qeq_bool (num_val b) (-1)) eqn:Em1.
    { rewrite (Qeq_bool_Z _ (-1) Em1 _ Hb), smt_div_m1. rewrite (mkNeg_value a t Wa E).
      pose proof (int_term_value a Wa Sa) as Ha. unfold aval at 1. rewrite Ha. simpl asN. f_equal.
      rewrite (Qred_complete _ (inject_Z (- Qfloor (aval I a)))) by (now rewrite inject_Z_opp).
      apply Qred_inject_Z. }
    destruct (is_num_const a) eqn:Ca; [|inversion E; subst t; exact Hv].
    destruct (int_const_floor a Wa Sa Ca) as [_ Hfa].
    assert (Hd : int_of b <> 0%Z).
    { intros Hz. rewrite <- Hfb in Hz. rewrite Hz in Hb. apply Qeq_bool_neq in E0. now apply E0. }
    rewrite (fold_div_smtlib (int_of a) (int_of b) Hd) in E. simpl in E. inversion E; subst t.
    rewrite Hfa, Hfb. unfold num. cbn [eval]. now rewrite !Qred_inject_Z.
  Qed.

  Theorem mkMod_equiv args t : forallb wf args = true -> mkMod args = Some t ->
    eval I t = eval I (TApp OMod args).
  Proof.
    intros Hwf E. unfold mkMod in E. destruct args as [|a [|b [|? ?]]]; try discriminate.
    destruct (negb (sort_eqb (sort_of a) SInt && sort_eqb (sort_of b) SInt)) eqn:Hs; [discriminate|].
    destruct (sort_pair _ _ _ Hs) as [Sa Sb].
    destruct (negb (is_num_const b)) eqn:Hc; [discriminate|]. apply negb_false_true in Hc.
    simpl in Hwf. rewrite !andb_true_iff in Hwf. destruct Hwf as (Wa & Wb & _).
    apply wf_wsort in Wa, Wb.
    destruct (int_const_floor b Wb Sb Hc) as [Hb Hfb].
    assert (Hv : eval I (TApp OMod [a; b]) = VN (inject_Z (smt_mod (Qfloor (aval I a)) (Qfloor (aval I b))))) by reflexivity.
    rewrite Hv.
    destruct (Qeq_bool (num_val b) 0) eqn:E0; [discriminate|].
    destruct (Qeq_bool (num_val b) 1) eqn:E1.
    { simpl in E. inversion E; subst t. rewrite (Qeq_bool_Z _ 1 E1 _ Hb), smt_mod_1. reflexivity. }
    destruct (Qeq_bool (num_val b) (-1)) eqn:Em1.
    { simpl in E. inversion E; subst t. rewrite (Qeq_bool_Z _ (-1) Em1 _ Hb), smt_mod_m1. reflexivity. }
    simpl in E.
    destruct (is_num_const a) eqn:Ca; [|inversion E; subst t; exact Hv].
    destruct (int_const_floor a Wa Sa Ca) as [_ Hfa].
    assert (Hd : int_of b <> 0%Z).
    { intros Hz. rewrite <- Hfb in Hz. rewrite Hz in Hb. apply Qeq_bool_neq in E0. now apply E0. }
    rewrite (fold_mod_smtlib (int_of a) (int_of b) Hd) in E. simpl in E. inversion E; subst t.
    rewrite Hfa, Hfb. unfold num. cbn [eval]. now rewrite !Qred_inject_Z.
  Qed.
End Arith.

(* The code as it stands (fixed = false): a product with a constant and two sums drops the first sum. *)
Definition times_witness_args : list term :=
  [TNum SInt 2 0; TApp OPlus [TVar SInt 0; TNum SInt 1 0]; TApp OPlus [TVar SInt 1; TNum SInt 2 0]].
Definition times_witness_I : interp :=
  {| vi := fun s x => match x with O => VN 5 | _ => VN 0 end; fi := fun _ _ => VN 0 |}.

Theorem mkTimes_unfixed_refuted :
  exists leb args I t, forallb wf args = true /\ mkTimes leb false args = Some t /\
                       eval I t <> eval I (TApp OTimes args).
Proof.
  exists (fun _ _ => true), times_witness_args, times_witness_I.
  eexists. split; [reflexivity|]. split; [vm_compute; reflexivity|]. vm_compute. discriminate.
Qed.
