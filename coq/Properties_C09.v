(* C09 — sequence interpolants satisfy the path-interpolation property.  Theorems only; proofs in Itp/PathItpProofs.v,
   Itp/FarkasItp.v.  PARTIAL in the same way as C08 (EUF interpolator, proof reduction, frame literals: per run only);
   that each element of the sequence is a Craig interpolant for its cumulative split is C08's theorem. *)
From Coq Require Import QArith List Bool Arith.
From OsmtV.Itp Require Import Labelled LabelledProofs PathItp PathItpProofs FarkasItp.
Import ListNotations.
Local Open Scope nat_scope.

(* Two labelled interpolation systems on ONE refutation, nested A-masks A1 <= A2, leaf labelling for A1 below the one for A2
   in the order b <= ab <= a on the variables shared under both masks: I1 together with the clauses that moved from B to A
   implies I2. *)
Theorem path_itp :
  forall (Tcons : assignment -> Prop) (vmask : var -> mask) (A1 A2 : mask) (th : clause -> (var -> colour) -> form)
         (L1 L2 : nat -> var -> colour) (input : input_t) (P : proof) (I1 I2 : form),
    covers vmask input -> nested A1 A2 ->
    locality_preserving vmask A1 L1 -> locality_preserving vmask A2 L2 -> lab_le vmask A1 A2 L1 L2 ->
    th_path_contract Tcons th ->
    valid_refutation Tcons vmask A1 th L1 input P ->
    itp vmask A1 th L1 P = Some I1 -> itp vmask A2 th L2 P = Some I2 ->
    forall a, Tcons a -> satMoved A1 A2 input a -> feval a I1 = true -> feval a I2 = true.
Proof.
  intros Tcons vmask A1 A2 th L1 L2 input P I1 I2 Hc Hn H1 H2 Hle Ht.
  exact (path_step Tcons vmask A1 A2 th L1 L2 input Hc Hn H1 H2 Hle Ht P I1 I2).
Qed.
Print Assumptions path_itp.

(* Each of the six labelling functions of the implementation is monotone in the A-mask (the proof-sensitive ones because the
   occurrence counts of computePSFunction are), so the side condition of path_itp holds for nested masks ... *)
Theorem impl_labellings_monotone :
  forall (g : alg) (vmask : var -> mask) (A1 A2 : mask) (P : proof),
    nested A1 A2 -> lab_le vmask A1 A2 (impl_label g A1 P) (impl_label g A2 P).
Proof. exact impl_label_le. Qed.
Print Assumptions impl_labellings_monotone.

(* ... the cumulative masks of a request are nested ... *)
Theorem cumulative_masks_nested :
  forall (groups : list mask) (acc : mask) (i : nat) (A1 A2 : mask),
    nth_error (cumulative acc groups) i = Some A1 -> nth_error (cumulative acc groups) (S i) = Some A2 -> nested A1 A2.
Proof. exact cumulative_nested. Qed.
Print Assumptions cumulative_masks_nested.

(* ... hence the sequence returned by getPathInterpolants has the path property under every :interpolation-bool-algorithm. *)
Theorem path_itps_correct :
  forall (Tcons : assignment -> Prop) (vmask : var -> mask) (th : clause -> (var -> colour) -> form) (input : input_t)
         (g : alg) (groups : list mask) (P : proof) (i : nat) (I1 I2 : form),
    covers vmask input -> th_path_contract Tcons th ->
    (forall A, In A (cumulative [] groups) -> valid_refutation Tcons vmask A th (impl_label g A P) input P) ->
    nth_error (path_itps vmask th g (cumulative [] groups) P) i = Some (Some I1) ->
    nth_error (path_itps vmask th g (cumulative [] groups) P) (S i) = Some (Some I2) ->
    exists A1 A2, nth_error (cumulative [] groups) i = Some A1 /\ nth_error (cumulative [] groups) (S i) = Some A2 /\
      forall a, Tcons a -> satMoved A1 A2 input a -> feval a I1 = true -> feval a I2 = true.
Proof. exact path_itps_impl. Qed.
Print Assumptions path_itps_correct.

(* The Farkas leaf interpolants meet the two-colouring contract: when the A side of a conflict grows, the smaller sum
   together with the moved literals implies the larger sum. *)
Theorem farkas_path :
  forall (s1 s2 : entry -> bool) (es : list entry) (a : qassign),
    (forall e, In e es -> (0 < e_coeff e)%Q) -> (forall e, s1 e = true -> s2 e = true) ->
    holds a (wsum s1 e_coeff es) ->
    (forall e, In e es -> s2 e = true -> s1 e = false -> holds a (e_c e)) ->
    holds a (wsum s2 e_coeff es).
Proof. exact FarkasItp.farkas_path. Qed.
Print Assumptions farkas_path.

(* Decomposed Farkas interpolants (:interpolation-lra-algorithm 4 / 5) do NOT meet the two-colouring contract: the same A-side
   inequalities admit different decompositions, getDecomposedInterpolant picks its basis from the order of the explanation, and
   the conjunction obtained for the smaller A side does not imply every conjunct obtained for the larger one.  Genuine defect
   w.r.t. C09 ("under all interpolation algorithms"); the witness is the A side of corpus/C09/path_decomposed_farkas.smt2 with the
   two decompositions the solver prints for the cuts 1 and 2 of (get-interpolants (and c0 c3 c2 c4 c1) b2 b1). *)
Theorem decomposed_path_refuted :
  (forall e, In e d_es -> sideA e = true /\ (comb d_al1 d_bs1 e == e_coeff e)%Q /\ (comb d_al2 d_bs2 e == e_coeff e)%Q)
  /\ (forall b e, In b (d_bs1 ++ d_bs2) -> In e d_es -> (0 <= b e)%Q)
  /\ (forall al, In al (d_al1 ++ d_al2) -> (0 < al)%Q)
  /\ (forall c, In c (decomposed_itp d_bs1 d_es) -> holds d_a c)
  /\ (exists c, In c (decomposed_itp d_bs2 d_es) /\ ~ holds d_a c).
Proof. exact FarkasItp.decomposed_path_refuted. Qed.
Print Assumptions decomposed_path_refuted.

(* ---- non-vacuity: three partitions  {p} | {not p \/ q} | {not q},  groups (0) (1) (2) ------------- *)
Definition ex_input : input_t := [ ([(0, true)], [0]); ([(0, false); (1, true)], [1]); ([(1, false)], [2]) ].
Definition ex_proof : proof :=
  [ Leaf [(0, true)] [0]; Leaf [(0, false); (1, true)] [1]; Leaf [(1, false)] [2]; Res 0 1 0; Res 3 2 1 ].
Definition no_th : clause -> (var -> colour) -> form := fun _ _ => FTrue.

Example ex_masks : cumulative [] [[0]; [1]; [2]] = [[0]; [0; 1]].
Proof. reflexivity. Qed.

Example ex_path_itps :
  path_itps (vmask_of ex_input) no_th PSW (cumulative [] [[0]; [1]; [2]]) ex_proof
  = [ Some (FAnd (FAnd (FOr FFalse (FVar 0)) (FOr FTrue (FNot (FVar 0)))) FTrue);
      Some (FAnd (FOr (FOr FFalse FFalse) (FVar 1)) (FOr FTrue (FNot (FVar 1)))) ]
  /\ path_itps (vmask_of ex_input) no_th McMillan (cumulative [] [[0]; [1]; [2]]) ex_proof
  = [ Some (FAnd (FAnd (FOr (FVar 0) FFalse) FTrue) FTrue); Some (FAnd (FOr FFalse (FOr (FVar 1) FFalse)) FTrue) ].
Proof. split; vm_compute; reflexivity. Qed.
