// C21 tie (i): drives the real (header-only) opensmt::TermNames / ScopedVector and the
// DefinedFunctions class of Interpret.h with operation sequences and prints every observation.
// The extracted Coq model (ocaml/names_driver.ml) prints the same lines; checks/C21.py compares.
//
// stdin, one case per line:   T <NN> <NT> <op> <op> ...      (TermNames)
//                             D <NF> <op> <op> ...           (DefinedFunctions)
//   T ops: i<n>,<t> tryInsert("n<n>", PTRef{t})   u pushScope   o popScope   e<n> eraseTermName
//          g0 / g1  set :global-declarations
//   D ops: d<f>,<g> storeDefinedFun logic (has ? false : insert(f, .., scoped = !g))   u   o
// stdout: per case one line, per op  "<res>;<observations>" joined by " | ".
// Calls whose precondition the C++ asserts (compiled out) are not made: "UB" is printed instead
// (popScope without an open scope; eraseTermName on an inconsistent table; front() of an empty vector).
#include <Interpret.h>
#include <TermNames.h>
#include <SMTConfig.h>
#include <iostream>
#include <sstream>
#include <string>
using namespace opensmt;

template<class V> constexpr bool has_open_scope_v = requires(V const & v) { v.hasOpenScope(); };

struct TN : public TermNames {
    using TermNames::TermNames;
    void doPush() { pushScope(); }
    void doPop() { popScope(); }
    bool doErase(std::string const & n) { return eraseTermName(n); }
};

static std::string nm(unsigned k) { return "n" + std::to_string(k); }

static void observeT(std::ostream & os, TN const & tn, unsigned NN, unsigned NT) {
    os << ";";
    bool first = true;
    for (auto const & [name, term] : tn) { os << (first ? "" : ",") << name << ":" << term.x; first = false; }
    os << ";" << tn.size() << (tn.empty() ? "e" : "") << ";";
    for (unsigned k = 0; k < NN; ++k) os << (tn.contains(nm(k)) ? '1' : '0');
    os << ";";
    for (unsigned t = 0; t < NT; ++t) os << (tn.contains(PTRef{t}) ? '1' : '0');
    os << ";";
    for (unsigned k = 0; k < NN; ++k) {
        auto r = tn.tryGetTermByName(nm(k));
        if (k) os << ",";
        if (r) os << r->x; else os << "-";
    }
    os << ";";
    for (unsigned t = 0; t < NT; ++t) {
        auto const * v = tn.tryGetNamesForTerm(PTRef{t});
        if (t) os << ",";
        if (not v) { os << "-"; continue; }
        os << "[";
        for (std::size_t i = 0; i < v->size(); ++i) os << (i ? " " : "") << (*v)[i];
        os << "]";
    }
    os << ";";
    for (unsigned t = 0; t < NT; ++t) {
        auto const * v = tn.tryGetNamesForTerm(PTRef{t});
        if (t) os << ",";
        if (not v) os << "-";
        else if (v->empty()) os << "UB";          // pickName would call front() on an empty vector
        else os << *tn.tryGetNameForTerm(PTRef{t});
    }
}

static void caseT(std::istringstream & is) {
    unsigned NN, NT;
    is >> NN >> NT;
    SMTConfig config;
    TN tn(config);
    long depth = 0; // open scopes of the scoped vector
    std::string op;
    bool firstOp = true;
    std::ostringstream os;
    while (is >> op) {
        if (not firstOp) os << " | ";
        firstOp = false;
        char c = op[0];
        if (c == 'i') {
            auto comma = op.find(',');
            unsigned n = std::stoul(op.substr(1, comma - 1)), t = std::stoul(op.substr(comma + 1));
            os << (tn.tryInsert(nm(n), PTRef{t}) ? "1" : "0");
        } else if (c == 'u') {
            if (not tn.isGlobal()) ++depth;
            tn.doPush();
            os << "-";
        } else if (c == 'o') {
            if (tn.isGlobal()) { tn.doPop(); os << "-"; }
            else if (depth == 0) {
                // no open scope: undefined in the code as it is (limits.back() of an empty vector).  If the
                // class has been given the guard of proposed_fixes/C21_global_toggle.diff the call is safe.
                if constexpr (has_open_scope_v<ScopedVector<int>>) { tn.doPop(); os << "-"; }
                else os << "UB";
            }
            else { --depth; tn.doPop(); os << "-"; }
        } else if (c == 'e') {
            unsigned n = std::stoul(op.substr(1));
            auto t = tn.tryGetTermByName(nm(n));
            if (not t) os << (tn.doErase(nm(n)) ? "1" : "0");
            else {
                auto const * v = tn.tryGetNamesForTerm(*t);
                if (not v or std::find(v->begin(), v->end(), nm(n)) == v->end()) os << "UB";
                else os << (tn.doErase(nm(n)) ? "1" : "0");
            }
        } else if (c == 'g') {
            char const * msg = "ok";
            config.setOption(SMTConfig::o_global_declarations, SMTOption(op[1] == '1' ? 1 : 0), msg);
            os << "-";
        } else { os << "?"; }
        observeT(os, tn, NN, NT);
    }
    std::cout << os.str() << "\n";
}

static void caseD(std::istringstream & is) {
    unsigned NF;
    is >> NF;
    DefinedFunctions df;
    long depth = 0;
    std::string op;
    bool firstOp = true;
    std::ostringstream os;
    while (is >> op) {
        if (not firstOp) os << " | ";
        firstOp = false;
        char c = op[0];
        if (c == 'd') {
            auto comma = op.find(',');
            unsigned f = std::stoul(op.substr(1, comma - 1));
            bool g = op[comma + 1] == '1';
            std::string name = "f" + std::to_string(f);
            // Interpret::storeDefinedFun (Interpret.cc:1014-1020)
            if (df.has(name)) os << "0";
            else {
                vec<PTRef> args;
                df.insert(name, TemplateFunction(name, args, SRef_Undef, PTRef{f}), not g);
                os << "1";
            }
        } else if (c == 'u') { df.pushScope(); ++depth; os << "-"; }
        else if (c == 'o') {
            if (depth == 0) os << "UB"; else { --depth; df.popScope(); os << "-"; }
        } else os << "?";
        os << ";";
        for (unsigned f = 0; f < NF; ++f) os << (df.has("f" + std::to_string(f)) ? '1' : '0');
    }
    std::cout << os.str() << "\n";
}

int main() {
    std::string line;
    while (std::getline(std::cin, line)) {
        std::istringstream is(line);
        std::string kind;
        is >> kind;
        if (kind == "T") caseT(is);
        else if (kind == "D") caseD(is);
        else std::cout << "bad\n";
    }
}
