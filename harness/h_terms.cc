// C14 tie: the term constructors of Logic / ArithLogic, driven through the public API.
//
// stdin, one directive per line:
//   !new <LOGIC> <seed>      fresh Logic object; variables declared in an order permuted by <seed>
//   <LOGIC> <recipe>         recipe = s-expression of constructor calls over
//        b0 b1 b2 (Bool)  i0 i1 i2 (Int)  r0 r1 r2 (Real)  u0 u1 u2 (sort U)  a0 a1 a2 (Array U U)
//        true false  #i<int literal as passed to mkConst(sort_INT, .)>  #r<real literal>  #u<k> (constant of U)
//        (and ..) (or ..) (not .) (xor . .) (=> . .) (ite . . .) (= ..) (distinct ..)
//        (+ ..) (- ..) (neg .) (* ..) (/ . .) (div . .) (mod . .) (<= ..) (< ..) (>= ..) (> ..)
//        (select a i) (store a i v)  (f u) (g u u) (p u) (hi int) (hr real) (pi int)
// stdout: for every constructor call performed while evaluating a recipe one record
//   R \t LOGIC \t op \t result \t ranks \t rt \t arg1 \t arg2 ...
//   result: printed term | undef | exc:<exception text class>
//   ranks : "<PTRef.x>@<printed subterm>" for every subterm of the arguments, joined by " ;; "
//           (termSort orders by PTRef; ArithLogic::termSort orders products by the PTRef of their variable)
//   rt    : same | diff:<printed> | none     -- the same call made through Logic::resolveTerm (front-end path)
// Printed terms: (name args..) with Logic::getSymName; numeric constants as #i<symbol name> / #r<symbol name>
// (the raw symbol name, so differently spelled literals stay visible), constants of U as #u<name>.
// End of each input line: a line "E".
#include <ArithLogic.h>
#include <Logic.h>
#include <common/ApiException.h>
#include <common/InternalException.h>

#include <algorithm>
#include <iostream>
#include <map>
#include <memory>
#include <set>
#include <sstream>
#include <string>
#include <vector>

using namespace opensmt;

struct Node {
    std::string atom;
    std::vector<Node> kids;
    bool isAtom = false;
};

static Node parse(std::string const & s, size_t & i) {
    while (i < s.size() && isspace((unsigned char)s[i])) i++;
    Node n;
    if (i < s.size() && s[i] == '(') {
        i++;
        while (true) {
            while (i < s.size() && isspace((unsigned char)s[i])) i++;
            if (i >= s.size()) throw std::runtime_error("parse");
            if (s[i] == ')') { i++; break; }
            n.kids.push_back(parse(s, i));
        }
        return n;
    }
    size_t j = i;
    while (j < s.size() && !isspace((unsigned char)s[j]) && s[j] != '(' && s[j] != ')') j++;
    n.isAtom = true;
    n.atom = s.substr(i, j - i);
    i = j;
    return n;
}

struct Abort {};

struct Env {
    std::string name;
    std::unique_ptr<Logic> logic;
    ArithLogic * arith = nullptr;
    SRef U = SRef_Undef, A = SRef_Undef;
    std::map<std::string, PTRef> vars;
    std::map<std::string, SymRef> ufs;

    static Logic_t logicType(std::string const & n) {
        if (n == "QF_UF") return Logic_t::QF_UF;
        if (n == "QF_AX") return Logic_t::QF_AX;
        if (n == "QF_LRA") return Logic_t::QF_LRA;
        if (n == "QF_LIA") return Logic_t::QF_LIA;
        if (n == "QF_LIRA") return Logic_t::QF_LIRA;
        if (n == "QF_UFLRA") return Logic_t::QF_UFLRA;
        if (n == "QF_UFLIA") return Logic_t::QF_UFLIA;
        if (n == "ALL") return Logic_t::QF_AUFLIRA;
        throw std::runtime_error("unknown logic " + n);
    }

    Env(std::string const & n, unsigned seed) : name(n) {
        Logic_t t = logicType(n);
        if (n == "QF_UF" || n == "QF_AX") {
            logic = std::make_unique<Logic>(t);
        } else {
            auto * a = new ArithLogic(t);
            logic.reset(a);
            arith = a;
        }
        Logic & l = *logic;
        bool hasU = l.hasUFs() || l.hasArrays();
        if (hasU) U = l.declareUninterpretedSort("U");
        if (l.hasArrays()) A = l.getArraySort(U, U);
        std::vector<std::string> names;
        for (int k = 0; k < 3; k++) names.push_back("b" + std::to_string(k));
        if (arith && l.hasIntegers()) for (int k = 0; k < 3; k++) names.push_back("i" + std::to_string(k));
        if (arith && l.hasReals()) for (int k = 0; k < 3; k++) names.push_back("r" + std::to_string(k));
        if (hasU) for (int k = 0; k < 3; k++) names.push_back("u" + std::to_string(k));
        if (l.hasArrays()) for (int k = 0; k < 3; k++) names.push_back("a" + std::to_string(k));
        // permute the declaration order (PTRef order) deterministically from the seed
        unsigned st = seed * 2654435761u + 12345u;
        for (size_t k = names.size(); k > 1; k--) {
            st = st * 1664525u + 1013904223u;
            std::swap(names[k - 1], names[(st >> 8) % k]);
        }
        for (auto const & v : names) {
            SRef s = v[0] == 'b' ? l.getSort_bool() : v[0] == 'i' ? arith->getSort_int() : v[0] == 'r' ? arith->getSort_real()
                   : v[0] == 'u' ? U : A;
            vars[v] = l.mkVar(s, v.c_str());
        }
        if (l.hasUFs()) {
            ufs["f"] = l.declareFun("f", U, {U});
            ufs["g"] = l.declareFun("g", U, {U, U});
            ufs["p"] = l.declareFun("p", l.getSort_bool(), {U});
            if (arith && l.hasIntegers()) {
                ufs["hi"] = l.declareFun("hi", arith->getSort_int(), {arith->getSort_int()});
                ufs["pi"] = l.declareFun("pi", l.getSort_bool(), {arith->getSort_int()});
            }
            if (arith && l.hasReals()) ufs["hr"] = l.declareFun("hr", arith->getSort_real(), {arith->getSort_real()});
        }
    }

    std::string print(PTRef tr) const {
        if (tr == PTRef_Undef) return "undef";
        Logic const & l = *logic;
        Pterm const & t = l.getPterm(tr);
        std::string nm = l.getSymName(tr);
        if (t.size() == 0) {
            if (l.isConstant(tr)) {
                SRef s = l.getSortRef(tr);
                if (s == l.getSort_bool()) return nm;
                if (arith && s == arith->getSort_int()) return "#i" + nm;
                if (arith && s == arith->getSort_real()) return "#r" + nm;
                return "#u" + nm;
            }
            return nm;
        }
        std::string r = "(" + nm;
        for (int k = 0; k < t.size(); k++) r += " " + print(l.getPterm(tr)[k]);
        return r + ")";
    }

    void collectAtoms(PTRef tr, std::set<uint32_t> & seen, std::vector<std::string> & out) const {
        if (tr == PTRef_Undef) return;
        if (!seen.insert(tr.x).second) return;
        Logic const & l = *logic;
        out.push_back(std::to_string(tr.x) + "@" + print(tr));
        int n = l.getPterm(tr).size();
        for (int k = 0; k < n; k++) collectAtoms(l.getPterm(tr)[k], seen, out);
    }
};

static std::string excName(std::exception const & e) {
    if (dynamic_cast<LANonLinearException const *>(&e)) return "exc:nonlinear";
    if (dynamic_cast<ArithDivisionByZeroException const *>(&e)) return "exc:divzero";
    if (dynamic_cast<ApiException const *>(&e)) return "exc:api";
    if (dynamic_cast<InternalException const *>(&e)) return "exc:internal";
    return "exc:other";
}

static vec<PTRef> toVec(std::vector<PTRef> const & a) {
    vec<PTRef> v;
    for (PTRef t : a) v.push(t);
    return v;
}

struct Runner {
    Env & env;
    explicit Runner(Env & e) : env(e) {}

    PTRef call(std::string const & op, std::vector<PTRef> const & a) {
        Logic & l = *env.logic;
        ArithLogic * ar = env.arith;
        size_t n = a.size();
        auto needArith = [&]() { if (!ar) throw ApiException("harness: arithmetic operator in a non-arithmetic logic"); };
        if (op == "and") return l.mkAnd(toVec(a));
        if (op == "or") return l.mkOr(toVec(a));
        if (op == "not") { if (n != 1) throw ApiException("harness: arity"); return l.mkNot(a[0]); }
        if (op == "xor") return l.mkXor(toVec(a));
        if (op == "=>") { if (n != 2) throw ApiException("harness: arity"); return l.mkImpl(toVec(a)); }
        if (op == "ite") { if (n < 1) throw ApiException("harness: arity"); return l.mkIte(toVec(a)); }
        if (op == "=") return l.mkEq(toVec(a));
        if (op == "distinct") return l.mkDistinct(toVec(a));
        if (op == "select") { if (n != 2) throw ApiException("harness: arity"); return l.mkSelect(toVec(a)); }
        if (op == "store") { if (n != 3) throw ApiException("harness: arity"); return l.mkStore(toVec(a)); }
        if (op == "+") { needArith(); if (n < 1) throw ApiException("harness: arity"); return ar->mkPlus(toVec(a)); }
        if (op == "-") { needArith(); if (n < 1) throw ApiException("harness: arity"); return ar->mkMinus(toVec(a)); }
        if (op == "neg") { needArith(); if (n != 1) throw ApiException("harness: arity"); return ar->mkNeg(a[0]); }
        if (op == "*") { needArith(); if (n < 1) throw ApiException("harness: arity"); return ar->mkTimes(toVec(a)); }
        if (op == "/") { needArith(); if (n < 1) throw ApiException("harness: arity"); return ar->mkRealDiv(toVec(a)); }
        if (op == "div") { needArith(); if (n != 2) throw ApiException("harness: arity"); return ar->mkIntDiv(toVec(a)); }
        if (op == "mod") { needArith(); if (n < 1) throw ApiException("harness: arity"); return ar->mkMod(toVec(a)); }
        if (op == "<=") { needArith(); return ar->mkLeq(toVec(a)); }
        if (op == "<") { needArith(); return ar->mkLt(toVec(a)); }
        if (op == ">=") { needArith(); return ar->mkGeq(toVec(a)); }
        if (op == ">") { needArith(); return ar->mkGt(toVec(a)); }
        auto it = env.ufs.find(op);
        if (it != env.ufs.end()) return l.mkUninterpFun(it->second, toVec(a));
        throw ApiException("harness: unknown operator " + op);
    }

    PTRef atom(std::string const & s) {
        Logic & l = *env.logic;
        if (s == "true") return l.getTerm_true();
        if (s == "false") return l.getTerm_false();
        if (s.size() > 2 && s[0] == '#') {
            std::string lit = s.substr(2);
            if (s[1] == 'i' && env.arith) return env.arith->mkConst(env.arith->getSort_int(), lit.c_str());
            if (s[1] == 'r' && env.arith) return env.arith->mkConst(env.arith->getSort_real(), lit.c_str());
            if (s[1] == 'u' && env.U != SRef_Undef) return l.mkConst(env.U, lit.c_str());
        }
        auto it = env.vars.find(s);
        if (it == env.vars.end()) throw Abort{};
        return it->second;
    }

    PTRef eval(Node const & nd) {
        if (nd.isAtom) {
            try { return atom(nd.atom); } catch (Abort &) { throw; } catch (std::exception const & e) {
                std::cout << "R\t" << env.name << "\tconst\t" << excName(e) << "\t\tnone\t" << nd.atom << "\n";
                throw Abort{};
            }
        }
        if (nd.kids.empty() || !nd.kids[0].isAtom) throw Abort{};
        std::string op = nd.kids[0].atom;
        std::vector<PTRef> a;
        for (size_t k = 1; k < nd.kids.size(); k++) a.push_back(eval(nd.kids[k]));
        // printed arguments and atom ranks are taken *before* the call
        std::vector<std::string> pa;
        for (PTRef t : a) pa.push_back(env.print(t));
        std::set<uint32_t> seen;
        std::vector<std::string> ranks;
        for (PTRef t : a) env.collectAtoms(t, seen, ranks);
        std::string res, rt = "none";
        PTRef r = PTRef_Undef;
        bool failed = false;
        try {
            r = call(op, a);
            res = env.print(r);
        } catch (std::exception const & e) {
            res = excName(e);
            if (std::string(e.what()).rfind("harness:", 0) == 0) res = "exc:harness";
            failed = true;
        }
        if (!failed && r != PTRef_Undef && !a.empty() && op != "neg" && env.ufs.find(op) == env.ufs.end()) {
            try {
                PTRef r2 = env.logic->resolveTerm(op.c_str(), toVec(a));
                rt = (r2 == r) ? "same" : "diff:" + env.print(r2);
            } catch (std::exception const &) { rt = "none"; }
        }
        std::cout << "R\t" << env.name << "\t" << op << "\t" << res << "\t";
        for (size_t k = 0; k < ranks.size(); k++) std::cout << (k ? " ;; " : "") << ranks[k];
        std::cout << "\t" << rt;
        for (auto const & s : pa) std::cout << "\t" << s;
        std::cout << "\n";
        if (failed || r == PTRef_Undef) throw Abort{};
        return r;
    }
};

int main() {
    std::ios::sync_with_stdio(false);
    std::map<std::string, std::unique_ptr<Env>> envs;
    std::string line;
    while (std::getline(std::cin, line)) {
        try {
            std::istringstream is(line);
            std::string first;
            is >> first;
            if (first.empty()) { std::cout << "E\n"; continue; }
            if (first == "!new") {
                std::string lg;
                unsigned seed = 0;
                is >> lg >> seed;
                envs[lg] = std::make_unique<Env>(lg, seed);
                std::cout << "E\n";
                continue;
            }
            if (!envs.count(first)) envs[first] = std::make_unique<Env>(first, 0);
            std::string rest;
            std::getline(is, rest);
            size_t i = 0;
            Node nd = parse(rest, i);
            Runner rn(*envs[first]);
            try { rn.eval(nd); } catch (Abort &) {}
        } catch (std::exception const & e) {
            std::cout << "X\t" << e.what() << "\n";
        }
        std::cout << "E\n";
    }
    return 0;
}
