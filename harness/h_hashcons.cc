// C28 tie: term construction sequences against the term store, through the Logic API.
//
// stdin : one sequence per line   "<mode> <op>;<op>;..."   mode in raw_uf raw_lia raw_lra simp_uf simp_lia simp_lra simp_qlia simp_qlra
//   ops (r = index of an earlier op of the same line whose result is a term):
//     V <s> <k>        variable k of sort s (U: uninterpreted sort, B: Bool, N: Int/Real of the mode)
//     K <s> <text>     constant by name: Logic::mkConst(sort, text) / ArithLogic::mkConst(sort, text)
//     Q <text>         numeric constant by value: ArithLogic::mkConst(sort, Number(text))
//     F <j> r...       raw: protected Logic::mkFun(signature[j], args) — no simplifier in between
//     D r...           Logic::mkDistinct(args)
//     A O ! E X I T    mkAnd mkOr mkNot mkEq mkXor mkImpl mkIte          (simplifying constructors)
//     U <j> r...       mkUninterpFun(signature[j], args)
//     P M L G          mkPlus mkTimes mkLeq mkNeg
// stdout: a trace per sequence (see ocaml/hashcons_driver.ml):
//     BEGIN <mode> <dmax> / SYM.. NODE.. (initial) / OP.. each followed by NEW <id> <sym> <args> for the terms it created /
//     REISSUE ok|<first problem> (every call of the sequence issued again: same result, nothing allocated) /
//     FINAL / SYM.. NODE.. (final) / ORDER ok|bad / END
#include <ArithLogic.h>
#include <Logic.h>
#include <tsolvers/egraph/CgTypes.h>

#include <iostream>
#include <map>
#include <sstream>
#include <string>
#include <vector>
using namespace opensmt;

template<class Base> struct Open : Base {
    explicit Open(Logic_t t) : Base(t) {}
    using Base::mkFun;
    using Base::sym_store;
    using Base::sortToEquality;
    using Base::sortToDisequality;
    using Base::sortToIte;
};

static std::map<std::string, int> sigcodes;
static int sigcode(std::string const & s) {
    auto it = sigcodes.find(s);
    if (it != sigcodes.end()) return it->second;
    int c = (int)sigcodes.size();
    sigcodes[s] = c;
    return c;
}

template<class L> struct Runner {
    L & logic;
    bool arith;
    std::ostream & out;
    Runner(L & l, bool a, std::ostream & o) : logic(l), arith(a), out(o) {}

    bool isTimesSym(SymRef sr) {
        if constexpr (std::is_base_of_v<ArithLogic, L>) { return logic.isTimes(sr); }
        return false;
    }
    void printSym(SymRef sr) {
        Symbol const & s = logic.getSym(sr);
        std::ostringstream sg;
        sg << s.rsort().x << ":";
        for (unsigned i = 0; i < s.nargs(); i++) sg << s[i].x << ",";
        sg << ":" << s.commutes() << s.noScoping() << s.isInterpreted();
        bool flex = s.left_assoc() || s.right_assoc() || s.chainable() || s.pairwise();
        out << "SYM " << s.getId() << " " << s.nargs() << " " << s.commutes() << " " << logic.isBooleanOperator(sr) << " "
            << flex << " " << isTimesSym(sr) << " " << logic.isConstant(sr) << " " << sigcode(sg.str()) << " "
            << logic.getSymName(sr) << "\n";
    }
    void dump() {
        for (SymRef sr : logic.sym_store.getSymbols()) printSym(sr);
        bool order = true;
        uint32_t last = 0;
        bool first = true;
        uint32_t expect = 0;
        PtermIter it = logic.getPtermIter();
        for (PTRef tr = *it; tr != PTRef_Undef; ++it, tr = *it) {
            Pterm const & t = logic.getPterm(tr);
            out << "NODE " << t.getId().x << " " << logic.getSym(t.symb()).getId();
            for (int i = 0; i < t.size(); i++) out << " " << logic.getPterm(t[i]).getId().x;
            out << "\n";
            if (!first && tr.x <= last) order = false;
            if (t.getId().x != expect) order = false;
            expect++;
            last = tr.x;
            first = false;
        }
        if (expect != logic.getNumberOfTerms()) order = false;
        out << "ORDER " << (order ? "ok" : "bad") << "\n";
    }
    uint32_t idOf(PTRef tr) { return logic.getPterm(tr).getId().x; }
    uint32_t symIdOf(SymRef sr) { return logic.getSym(sr).getId(); }
};

template<class L> void run_line(std::string const & mode, std::string const & rest, std::ostream & realOut) {
    std::ostream & out = realOut;
    constexpr bool isArith = std::is_base_of_v<ArithLogic, L>;
    bool raw = mode.rfind("raw", 0) == 0;
    bool pureArith = mode.find("_q") != std::string::npos;     // simp_qlia / simp_qlra: no UF in the logic, so
                                                                // ArithLogic::mkBinaryEq normalises equalities itself
    Logic_t lt = mode == "raw_uf" || mode == "simp_uf" ? Logic_t::QF_UF
                 : (mode.find("lia") != std::string::npos ? (pureArith ? Logic_t::QF_LIA : Logic_t::QF_UFLIA)
                                                          : (pureArith ? Logic_t::QF_LRA : Logic_t::QF_UFLRA));
    L logic(lt);
    sigcodes.clear();
    Runner<L> R(logic, isArith, out);
    SRef sB = logic.getSort_bool();
    SRef sU = logic.declareUninterpretedSort("U");
    SRef sN = SRef_Undef;
    if constexpr (isArith) { sN = (lt == Logic_t::QF_UFLIA || lt == Logic_t::QF_LIA) ? logic.getSort_int() : logic.getSort_real(); }
    // the bounded signature
    std::vector<SymRef> sig;
    sig.push_back(logic.declareFun("f", sU, {sU}));                                              // 0
    sig.push_back(logic.declareFun("g", sU, {sU, sU}));                                          // 1
    sig.push_back(logic.declareFun("h", sU, {sU, sU, sU}));                                      // 2
    sig.push_back(logic.declareFun("p", sB, {sU, sU}));                                          // 3
    sig.push_back(logic.sortToEquality[sU]);                                                     // 4  = on U (commutative)
    sig.push_back(logic.getSym_and());                                                           // 5
    sig.push_back(logic.getSym_or());                                                            // 6
    sig.push_back(logic.getSym_not());                                                           // 7
    sig.push_back(logic.getSym_eq());                                                            // 8  = on Bool (Boolean-operator table)
    sig.push_back(logic.sortToIte[sU]);                                                          // 9
    sig.push_back(logic.sortToDisequality[sU]);                                                  // 10 distinct on U (commutative)
    sig.push_back(logic.declareFun("c", sU, {sU, sU}, SymbolConfig{false, true, false, SymbolProperty::None})); // 11 user commutative
    if constexpr (isArith) {
        sig.push_back(logic.getPlusForSort(sN));                                                 // 12 +
        sig.push_back(logic.getTimesForSort(sN));                                                // 13 *
        sig.push_back(logic.sortToEquality[sN]);                                                 // 14 = on numbers
        sig.push_back(logic.getLeqForSort(sN));                                                  // 15 <=
        sig.push_back(logic.declareFun("uf", sN, {sN}));                                         // 16
        sig.push_back(logic.sortToDisequality[sN]);                                              // 17 distinct on numbers
        sig.push_back(logic.declareFun("cn", sN, {sN, sN}, SymbolConfig{false, true, false, SymbolProperty::None})); // 18
    }
    out << "BEGIN " << mode << " " << maxDistinctClasses << "\n";
    out << "CONST " << R.idOf(logic.getTerm_true()) << " " << R.idOf(logic.getTerm_false()) << "\n";
    out << "SIG";
    for (SymRef s : sig) out << " " << R.symIdOf(s);
    out << "\n";
    R.dump();
    out << "OPS\n";

    // pass 0 executes the sequence and prints the trace; pass 1 (whole-store audit) re-issues every constructor call of
    // the sequence: each must return the same term and must allocate neither a term nor a symbol
    std::vector<PTRef> res0;
    std::vector<std::string> status0;
    std::string reissue = "ok";
    std::ostringstream devnull;
    for (int pass = 0; pass < 2; pass++) {
    std::ostream & out = pass == 0 ? realOut : static_cast<std::ostream &>(devnull);
    std::vector<PTRef> res; // result per op (PTRef_Undef if none)
    std::istringstream ls(rest);
    std::string opt;
    int opIndex = -1;
    while (std::getline(ls, opt, ';')) {
        std::istringstream is(opt);
        std::string k;
        is >> k;
        if (k.empty()) continue;
        opIndex++;
        std::size_t termsBefore = logic.getNumberOfTerms();
        int symsBefore = logic.sym_store.getSymbols().size();
        auto after = [&](PTRef result, std::string const & st) {
            if (pass == 0) {
                // the terms this operation created
                PtermIter it = logic.getPtermIter();
                std::size_t idx = 0;
                for (PTRef tr = *it; tr != PTRef_Undef; ++it, tr = *it, idx++) {
                    if (idx < termsBefore) continue;
                    Pterm const & t = logic.getPterm(tr);
                    out << "NEW " << t.getId().x << " " << logic.getSym(t.symb()).getId();
                    for (int i = 0; i < t.size(); i++) out << " " << logic.getPterm(t[i]).getId().x;
                    out << "\n";
                }
                res0.push_back(result);
                status0.push_back(st);
            } else if (reissue == "ok") {
                std::ostringstream why;
                if (logic.getNumberOfTerms() != termsBefore)
                    why << "op " << opIndex << " (" << opt << ") re-issued allocates " << (logic.getNumberOfTerms() - termsBefore) << " term(s)";
                else if ((int)logic.sym_store.getSymbols().size() != symsBefore)
                    why << "op " << opIndex << " (" << opt << ") re-issued declares a symbol";
                else if (opIndex < (int)res0.size() && (res0[opIndex] != result || status0[opIndex] != st))
                    why << "op " << opIndex << " (" << opt << ") re-issued returns another term";
                if (!why.str().empty()) reissue = why.str();
            }
        };
        PTRef r = PTRef_Undef;
        std::ostringstream line;
        bool skip = false;
        std::string status;
        try {
            auto getArgs = [&](vec<PTRef> & a) {
                int j;
                while (is >> j) {
                    if (j < 0 || j >= (int)res.size() || res[j] == PTRef_Undef) { skip = true; return; }
                    a.push(res[j]);
                }
            };
            if (k == "V" || k == "K") {
                std::string s, name;
                is >> s >> name;
                SRef so = s == "U" ? sU : (s == "B" ? sB : sN);
                if (so == SRef_Undef) skip = true;
                else {
                    if (k == "V") {
                        name = (s == "U" ? "u" : (s == "B" ? "b" : "x")) + name;
                        r = logic.mkVar(so, name.c_str());
                    } else {
                        r = logic.mkConst(so, name.c_str());
                    }
                    SymRef sr = logic.getPterm(r).symb();
                    line << "OP V ";
                    std::ostringstream tmp;
                    Runner<L> R2(logic, isArith, tmp);
                    R2.printSym(sr);
                    std::string sl = tmp.str();
                    sl.pop_back();
                    line << sl.substr(4);
                }
            } else if (k == "Q") {
                std::string name;
                is >> name;
                if constexpr (isArith) {
                    r = static_cast<ArithLogic &>(logic).mkConst(sN, FastRational(name.c_str()));
                    SymRef sr = logic.getPterm(r).symb();
                    line << "OP V ";
                    std::ostringstream tmp;
                    Runner<L> R2(logic, isArith, tmp);
                    R2.printSym(sr);
                    std::string sl = tmp.str();
                    sl.pop_back();
                    line << sl.substr(4);
                } else skip = true;
            } else if (k == "F" || k == "U") {
                int j;
                is >> j;
                vec<PTRef> a;
                getArgs(a);
                if (j < 0 || j >= (int)sig.size()) skip = true;
                if (!skip) {
                    line << "OP " << k << " " << R.symIdOf(sig[j]);
                    for (PTRef x : a) line << " " << R.idOf(x);
                    r = k == "F" ? logic.mkFun(sig[j], std::move(a)) : logic.mkUninterpFun(sig[j], std::move(a));
                }
            } else if (k == "D") {
                vec<PTRef> a;
                getArgs(a);
                if (!skip && a.size() >= 1) {
                    SRef so = logic.getSortRef(a[0]);
                    SymRef ds = logic.sortToDisequality[so];
                    line << "OP D " << R.symIdOf(ds);
                    for (PTRef x : a) line << " " << R.idOf(x);
                    int n = a.size();
                    r = logic.mkDistinct(std::move(a));
                    if (raw && n >= 3 && (r == logic.getTerm_true() || r == logic.getTerm_false() ||
                                          logic.getPterm(r).symb() != ds))
                        status = "simp";
                } else skip = true;
            } else {
                vec<PTRef> a;
                getArgs(a);
                if (!skip) {
                    line << "OP " << k;
                    for (PTRef x : a) line << " " << R.idOf(x);
                    if (k == "A") r = logic.mkAnd(std::move(a));
                    else if (k == "O") r = logic.mkOr(std::move(a));
                    else if (k == "!") r = logic.mkNot(a[0]);
                    else if (k == "E") r = logic.mkEq(std::move(a));
                    else if (k == "X") r = logic.mkXor(std::move(a));
                    else if (k == "I") r = logic.mkImpl(std::move(a));
                    else if (k == "T") r = logic.mkIte(std::move(a));
                    else if constexpr (isArith) {
                        ArithLogic & al = static_cast<ArithLogic &>(logic);
                        if (k == "P") r = al.mkPlus(std::move(a));
                        else if (k == "M") r = al.mkTimes(std::move(a));
                        else if (k == "L") r = al.mkLeq(a[0], a[1]);
                        else if (k == "G") r = al.mkNeg(a[0]);
                        else skip = true;
                    } else skip = true;
                }
            }
        } catch (std::exception const & e) {
            r = PTRef_Undef;
            status = "exc";
        }
        if (skip) {
            out << "OP skip -> skip\n";
            res.push_back(PTRef_Undef);
            after(PTRef_Undef, "skip");
            continue;
        }
        if (status.empty() && r == PTRef_Undef) status = "exc";
        out << line.str() << " -> ";
        if (status == "exc") out << "exc";
        else if (status == "simp") out << "simp " << R.idOf(r);
        else out << R.idOf(r);
        out << "\n";
        res.push_back(status == "exc" ? PTRef_Undef : r);
        after(status == "exc" ? PTRef_Undef : r, status);
    }
    }
    realOut << "REISSUE " << reissue << "\n";
    realOut << "FINAL\n";
    Runner<L> RF(logic, isArith, realOut);
    RF.dump();
    realOut << "END\n";
}

int main() {
    std::string line;
    while (std::getline(std::cin, line)) {
        auto sp = line.find(' ');
        std::string mode = line.substr(0, sp);
        std::string rest = sp == std::string::npos ? "" : line.substr(sp + 1);
        std::ostringstream out;
        try {
            if (mode == "raw_uf" || mode == "simp_uf") run_line<Open<Logic>>(mode, rest, out);
            else run_line<Open<ArithLogic>>(mode, rest, out);
        } catch (std::exception const & e) {
            out << "CRASH " << e.what() << "\nEND\n";
        }
        std::cout << out.str();
    }
}
