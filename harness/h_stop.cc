// C25 tie / search harness: stop requests from another thread at PRNG-chosen moments.
//   h_stop run f1.smt2 f2.smt2 ...     stdin: one trial per line
//        <inst> none                       no request (reference answer; with the counter hook also the number of polls)
//        <inst> pre   <local|global>       request before check() is called
//        <inst> spin  <local|global> <N>   request N spin iterations after the solving thread announced check()
//        <inst> us    <local|global> <N>   request N microseconds after that
//        <inst> poll  <local|global> <N>   (only with the counter hook) the request becomes visible at poll N
//     Each trial: a fresh Interpret/Logic/MainSolver reads the instance (no check-sat in the file); the solving
//     thread calls check() -> r1; the requesting thread is joined; a global request is reset; a second check()
//     without any new request -> r2.  For sat answers the model is evaluated on every assertion.
//     stdout: "trial <line#> inst=<k> kind=<..> which=<..> arg=<N> r1=<..> r2=<..> polls=<n|-1> m1=<ok|bad|na> m2=<..> hook=<0|1>"
//   h_stop flagrace N                   (also with -DH_NO_SOLVER: needs GlobalStop.cc only) one thread polls
//        globallyStopped() N times while another calls notifyGlobalStop(): the access pattern of a global stop
//        request during solving, for ThreadSanitizer
#include <GlobalStop.h>
#ifndef H_NO_SOLVER
#include <Interpret.h>
#include <MainSolver.h>
#include <Model.h>
#include <CoreSMTSolver.h>
#endif
#include <atomic>
#include <chrono>
#include <fstream>
#include <iostream>
#include <sstream>
#include <string>
#include <thread>
#include <vector>

using namespace opensmt;

static int flagrace(long n) {
    std::atomic<bool> go{false};
    long seen = -1;
    std::thread poller([&] {
        go = true;
        for (long i = 0; i < n; ++i)
            if (globallyStopped()) { seen = i; break; }
    });
    std::thread requester([&] {
        while (!go.load()) {}
        notifyGlobalStop();
    });
    poller.join();
    requester.join();
    resetGlobalStop();
    std::cout << "flagrace seen_at=" << seen << "\n";
    return 0;
}

#ifndef H_NO_SOLVER
static char const * sname(sstat s) { return s == s_True ? "sat" : s == s_False ? "unsat" : s == s_Undef ? "unknown" : "error"; }

static std::string modelOk(Interpret & interp, sstat s) {
    if (s != s_True) return "na";
    MainSolver & ms = interp.getMainSolver();
    auto model = ms.getModel();
    Logic & logic = ms.getLogic();
    for (PTRef a : interp.getAssertions())
        if (model->evaluate(a) != logic.getTerm_true()) return "bad";
    return "ok";
}

static int run(std::vector<std::string> const & files) {
    std::vector<std::string> texts;
    for (auto const & f : files) {
        std::ifstream in(f);
        std::stringstream ss;
        ss << in.rdbuf();
        texts.push_back(ss.str());
    }
#ifdef OPENSMT_VERIF_STOP_COUNTER
    int const hook = 1;
#else
    int const hook = 0;
#endif
    std::string line;
    long lineNo = 0;
    while (std::getline(std::cin, line)) {
        ++lineNo;
        std::istringstream is(line);
        size_t k;
        std::string kind, which = "-";
        long arg = 0;
        if (!(is >> k >> kind)) continue;
        if (kind != "none") is >> which;
        if (kind == "spin" || kind == "us" || kind == "poll") is >> arg;
        if (k >= texts.size() || (kind == "poll" && !hook)) { std::cout << "trial " << lineNo << " skipped\n"; continue; }
        std::string r1 = "exception", r2 = "exception", m1 = "na", m2 = "na";
        long polls = -1;
        try {
            SMTConfig cfg;
            const char * msg;
            cfg.setOption(SMTConfig::o_produce_models, SMTOption(1), msg);
            Interpret interp(cfg);
            std::vector<char> buf(texts[k].begin(), texts[k].end());
            buf.push_back(0);
            interp.interpFile(buf.data());
            MainSolver & ms = interp.getMainSolver();
            bool const global = which == "global";
            auto request = [&] { if (global) notifyGlobalStop(); else ms.notifyStop(); };
            std::atomic<bool> started{false};
            sstat s1 = s_Error;
            if (kind == "pre") request();
            std::thread solver([&] {
#ifdef OPENSMT_VERIF_STOP_COUNTER
                verifStopCounter.polls = 0;
                verifStopCounter.stopAtPoll = kind == "poll" ? arg : -1;
                verifStopCounter.global = global;
#endif
                started = true;
                s1 = ms.check();
#ifdef OPENSMT_VERIF_STOP_COUNTER
                polls = (long)verifStopCounter.polls;
                verifStopCounter.stopAtPoll = -1;
#endif
            });
            std::thread requester([&] {
                if (kind != "spin" && kind != "us") return;
                while (!started.load()) {}
                if (kind == "spin") { for (volatile long i = 0; i < arg; ++i) {} }
                else std::this_thread::sleep_for(std::chrono::microseconds(arg));
                request();
            });
            solver.join();
            requester.join();
            r1 = sname(s1);
            m1 = modelOk(interp, s1);
            if (global) resetGlobalStop();
            sstat s2 = ms.check();          // same thread as the parser; no request pending except a sticky local one
            r2 = sname(s2);
            m2 = modelOk(interp, s2);
        } catch (std::exception const & e) {
            resetGlobalStop();
            (r1 == "exception" ? r1 : r2) = std::string("exception:") + e.what();
        }
        std::cout << "trial " << lineNo << " inst=" << k << " kind=" << kind << " which=" << which << " arg=" << arg << " r1=" << r1
                  << " r2=" << r2 << " polls=" << polls << " m1=" << m1 << " m2=" << m2 << " hook=" << hook << std::endl;
    }
    return 0;
}
#endif

int main(int argc, char ** argv) {
    std::string mode = argc > 1 ? argv[1] : "";
    if (mode == "flagrace" && argc >= 3) return flagrace(atol(argv[2]));
#ifndef H_NO_SOLVER
    if (mode == "run" && argc >= 3) return run(std::vector<std::string>(argv + 2, argv + argc));
#endif
    std::cerr << "usage: h_stop run files... < trials | h_stop flagrace N\n";
    return 2;
}
