// C15, thorough tier: the same harness compiled with -fsanitize=undefined (no recovery) and with
// assertions enabled (isWellFormed() after every operator), as support for the no-UB theorems.
#include "h_rat.cc"
