"""An independent re-implementation (test side, untrusted) of the token rules of
src/parsers/smt2new/smt2newlexer.ll, used by checks/C20.py and checks/C18.py to generate, mutate and
classify scripts.  flex semantics: longest match, ties broken by rule order; exclusive start conditions
STR and PSYM; unmatched input in STR is ECHOed (default rule); `.` in INITIAL and `\\` in PSYM are fatal
(printf + exit(1))."""
import re

KEYWORDS = ["as", "DECIMAL", "exists", "forall", "let", "NUMERAL", "par", "STRING",
            "assert", "check-sat", "declare-sort", "declare-fun", "declare-const", "define-sort", "define-fun",
            "exit", "get-assertions", "get-assignment", "get-info", "get-option", "get-proof", "get-unsat-core",
            "get-value", "get-model", "pop", "push", "set-logic", "set-info", "set-option", "get-interpolants",
            "theory", "simplify", "echo"]
SYMCH0 = r"a-zA-Z~!@\$%\^&\*\-\+=<>\.\?/'_"
SYMCH = r"a-zA-Z0-9~!@\$%\^&\*_\-\+=<>\.\?/'"
RULES = [
    ("comment", re.compile(r";[^\n]*")),
    ("ws", re.compile(r"[ \t\n]+")),
    ("bang", re.compile(r"!")),
    ("under", re.compile(r"_")),
    ("kw", re.compile("|".join(sorted((re.escape(k) for k in KEYWORDS), key=len, reverse=True)))),
    ("key", None),  # placeholder: predefined :keywords are a subset of the generic KEY rule (same token text)
    ("num", re.compile(r"0|-?[1-9][0-9]*(/[1-9][0-9]*)?")),
    ("dec", re.compile(r"-?[0-9]+\.0*[0-9]+")),
    ("hex", re.compile(r"#x[0-9a-fA-F]+")),
    ("bin", re.compile(r"#b[01]+")),
    ("sym", re.compile("[" + SYMCH0 + "][" + SYMCH + "]*")),
    ("key", re.compile(":[" + SYMCH.replace("'", "") + "]+")),
    ("paren", re.compile(r"[()]")),
]
RULES = [(k, r) for k, r in RULES if r is not None]


# variant switches, set by the checks from the regenerated lexer facts (Gen_LexRules.v)
LONE_BS_ECHO = True     # <STR> has no rule for a single backslash: flex ECHOes it and drops it from the literal
CR_WS = False           # the white-space rule contains \r


class LexFatal(Exception):
    def __init__(self, pos, why):
        Exception.__init__(self, "%s at %d" % (why, pos))
        self.pos, self.why = pos, why


def tokenize(text, cr_is_ws=None):
    """text: str (latin-1 decoded bytes).  Returns (tokens, echoed, state_at_end) where tokens are
    (kind, value, start, end), kind in comment ws bang under kw num dec hex bin sym key ( ) str qsym;
    state_at_end in INITIAL STR PSYM.  Raises LexFatal for the exit(1) paths."""
    if cr_is_ws is None:
        cr_is_ws = CR_WS
    toks, echoed, i, n = [], [], 0, len(text)
    while i < n:
        c = text[i]
        if c == '"':
            j, buf = i + 1, []
            while True:
                if j >= n:
                    return toks, "".join(echoed), "STR"
                d = text[j]
                if d == "\\":
                    if j + 1 < n and text[j + 1] in '"\\':
                        buf.append(text[j + 1])
                        j += 2
                    elif LONE_BS_ECHO:
                        echoed.append("\\")      # default rule: ECHO
                        j += 1
                    else:
                        buf.append("\\")
                        j += 1
                elif d == '"':
                    j += 1
                    break
                else:
                    buf.append(d)
                    j += 1
            toks.append(("str", "".join(buf), i, j))
            i = j
            continue
        if c == "|":
            j, buf = i + 1, []
            while True:
                if j >= n:
                    return toks, "".join(echoed), "PSYM"
                d = text[j]
                if d == "|":
                    j += 1
                    break
                if d == "\\":
                    raise LexFatal(j, "backslash in quoted symbol")
                buf.append(d)
                j += 1
            toks.append(("qsym", "".join(buf), i, j))
            i = j
            continue
        if cr_is_ws and c == "\r":
            toks.append(("ws", c, i, i + 1))
            i += 1
            continue
        best = None
        for kind, rx in RULES:
            m = rx.match(text, i)
            if m and m.end() > i and (best is None or m.end() > best[1]):
                best = (kind, m.end())
        if best is None:
            raise LexFatal(i, "no rule for %r" % c)
        kind, j = best
        v = text[i:j]
        if kind == "paren":
            kind = v
        toks.append((kind, v, i, j))
        i = j
    return toks, "".join(echoed), "INITIAL"


def significant(toks):
    return [t for t in toks if t[0] not in ("comment", "ws")]


def split_commands(text):
    """Top-level parenthesised groups: returns (list of token lists, complete: bool) — complete is False when
    the text has tokens outside groups, an unclosed group, an unbalanced ')' or ends inside a literal."""
    toks, echoed, st = tokenize(text)
    sig = significant(toks)
    cmds, cur, depth, ok = [], [], 0, st == "INITIAL"
    for t in sig:
        if t[0] == "(":
            depth += 1
            cur.append(t)
        elif t[0] == ")":
            if depth == 0:
                ok = False
                continue
            depth -= 1
            cur.append(t)
            if depth == 0:
                cmds.append(cur)
                cur = []
        else:
            if depth == 0:
                ok = False
            else:
                cur.append(t)
    if cur or depth:
        ok = False
    return cmds, ok, echoed


def shape(cmd_toks):
    """canonical key of a command: tuple of (kind, value)"""
    return tuple((k, v) for k, v, _, _ in cmd_toks)


def is_exit(cmd_toks):
    return [t[0:2] for t in cmd_toks] == [("(", "("), ("kw", "exit"), (")", ")")]
