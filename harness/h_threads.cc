// C24 tie / search harness.
//   h_threads poolseq            stdin: one line of ops "A A R0 A ..." per case; runs them on a FRESH
//                                instance of FastRational's private pool class (the code of
//                                mpqPool::alloc / release); stdout: the cell returned by each alloc
//                                (cells numbered by first appearance), "-" for a release
//   h_threads stress T N SEED    T threads do N rounds of big-number FastRational arithmetic each
//                                (every round allocates/releases pool cells); each thread's checksum is
//                                compared with the one computed alone beforehand.  stdout: "stress ok"
//                                or "stress MISMATCH ..."; a crash shows as the signal
//   h_threads solve T ROUNDS f1.smt2 f2.smt2 ...   (not with -DH_NO_SOLVER)
//                                solo: each instance solved alone, one after the other; then ROUNDS
//                                times: T threads, thread i solves instances i, i+T, ... each with its
//                                own Interpret/Logic/MainSolver.  stdout per instance:
//                                "inst <k> solo=<r> conc=<r,r,..> model=<ok|bad|na>"
// Built twice by checks/C24.py: against libopensmt.a, and (with -DH_NO_SOLVER -fsanitize=thread,
// together with FastRational.cc only) for ThreadSanitizer.
#include <FastRational.h>
#ifndef H_NO_SOLVER
#include <Interpret.h>
#include <MainSolver.h>
#include <Model.h>
#endif
#include <atomic>
#include <cstdio>
#include <cstring>
#include <iostream>
#include <map>
#include <sstream>
#include <string>
#include <thread>
#include <vector>
#include <fstream>
#include <unistd.h>
#include <fcntl.h>

using namespace opensmt;

// --- access to the private static pool (explicit instantiation may name private members) ---------
template<auto P> struct PoolThief { friend auto & stolenPool() { return *P; } };
auto & stolenPool();
template struct PoolThief<&FastRational::pool>;
using PoolT = std::remove_reference_t<decltype(stolenPool())>;

static int poolseq() {
    std::string line;
    while (std::getline(std::cin, line)) {
        PoolT pool;                                    // fresh: empty store, empty free list
        std::map<mpq_ptr, int> ids;
        std::vector<mpq_ptr> owned;                    // model: newest first
        std::istringstream is(line);
        std::string w, out;
        while (is >> w) {
            if (w == "A") {
                mpq_ptr p = pool.alloc();
                auto it = ids.find(p);
                if (it == ids.end()) it = ids.emplace(p, (int)ids.size()).first;
                owned.insert(owned.begin(), p);
                out += std::to_string(it->second) + " ";
            } else {
                size_t i = std::stoul(w.substr(1));
                if (i < owned.size()) { pool.release(owned[i]); owned.erase(owned.begin() + i); }
                out += "- ";
            }
        }
        if (!out.empty()) out.pop_back();
        std::cout << out << "\n";
    }
    return 0;
}

// --- big-number stress ----------------------------------------------------------------------------
// A deterministic computation whose every step needs numbers beyond 32 bits: builds and drops many
// FastRationals holding a pool cell.  Returns a printable checksum.
static std::string bigwork(unsigned seed, int rounds) {
    FastRational acc(1);
    FastRational const big("1180591620717411303424");          // 2^70
    FastRational const p1("618970019642690137449562111");      // 2^89-1
    unsigned x = seed * 2654435761u + 12345u;
    for (int r = 0; r < rounds; ++r) {
        x = x * 1664525u + 1013904223u;
        std::vector<FastRational> tmp;
        int n = 4 + (x >> 28);
        for (int i = 0; i < n; ++i) {
            FastRational a((int)((x >> 8) % 100000 + 1 + i));
            FastRational b = a * big + FastRational((int)(i + 1));    // big numerator
            FastRational c = b / p1;                                   // big/big
            tmp.push_back(c + acc);
        }
        FastRational s(0);
        for (auto & t : tmp) s += t;
        acc = s / FastRational((int)n);
        if ((r & 7) == 7) acc = FastRational((int)((x >> 12) % 1000 + 1)) / FastRational(7) + (acc - acc.floor());   // keep the size bounded
    }
    return acc.get_str();
}

static int stress(int T, int N, unsigned seed) {
    std::vector<std::string> solo(T), conc(T);
    for (int i = 0; i < T; ++i) solo[i] = bigwork(seed + i, N);
    std::atomic<int> ready{0};
    std::vector<std::thread> th;
    for (int i = 0; i < T; ++i)
        th.emplace_back([&, i] {
            ++ready;
            while (ready.load() < T) {}                 // start together
            conc[i] = bigwork(seed + i, N);
        });
    for (auto & t : th) t.join();
    for (int i = 0; i < T; ++i)
        if (solo[i] != conc[i]) {
            std::cout << "stress MISMATCH thread " << i << " solo=" << solo[i].substr(0, 60) << " conc=" << conc[i].substr(0, 60) << "\n";
            return 0;
        }
    std::cout << "stress ok " << T << " threads " << N << " rounds\n";
    return 0;
}

#ifndef H_NO_SOLVER
static char const * sname(sstat s) { return s == s_True ? "sat" : s == s_False ? "unsat" : s == s_Undef ? "unknown" : "error"; }

struct Res { std::string status; std::string model; };

static Res solveOne(std::string const & text) {
    Res r;
    try {
        SMTConfig cfg;
        const char * msg;
        cfg.setOption(SMTConfig::o_produce_models, SMTOption(1), msg);
        Interpret interp(cfg);
        std::vector<char> buf(text.begin(), text.end());
        buf.push_back(0);
        interp.interpFile(buf.data());
        MainSolver & ms = interp.getMainSolver();
        sstat s = ms.check();
        r.status = sname(s);
        r.model = "na";
        if (s == s_True) {
            auto model = ms.getModel();
            Logic & logic = ms.getLogic();
            r.model = "ok";
            for (PTRef a : interp.getAssertions())
                if (model->evaluate(a) != logic.getTerm_true()) r.model = "bad";
        }
    } catch (std::exception const & e) {
        r.status = std::string("exception:") + e.what();
        r.model = "na";
    }
    return r;
}

static int solve(int T, int rounds, std::vector<std::string> const & files) {
    std::vector<std::string> texts;
    for (auto const & f : files) {
        std::ifstream in(f);
        std::stringstream ss;
        ss << in.rdbuf();
        texts.push_back(ss.str());
    }
    size_t n = texts.size();
    // Interpret writes answers of get-info etc. to std::cout; the scripts contain none, but keep the
    // harness' own lines apart anyway by collecting and printing at the end.
    std::vector<Res> solo(n);
    for (size_t k = 0; k < n; ++k) solo[k] = solveOne(texts[k]);
    std::vector<std::vector<Res>> conc(rounds, std::vector<Res>(n));
    for (int rd = 0; rd < rounds; ++rd) {
        std::atomic<int> ready{0};
        std::vector<std::thread> th;
        for (int i = 0; i < T; ++i)
            th.emplace_back([&, i, rd] {
                ++ready;
                while (ready.load() < T) {}
                for (size_t k = i; k < n; k += T) conc[rd][k] = solveOne(texts[k]);
            });
        for (auto & t : th) t.join();
    }
    for (size_t k = 0; k < n; ++k) {
        std::string c, m = solo[k].model;
        for (int rd = 0; rd < rounds; ++rd) {
            c += (rd ? "," : "") + conc[rd][k].status;
            if (conc[rd][k].model == "bad") m = "bad";
        }
        std::cout << "inst " << k << " solo=" << solo[k].status << " conc=" << c << " model=" << m << "\n";
    }
    return 0;
}
#endif

int main(int argc, char ** argv) {
    std::string mode = argc > 1 ? argv[1] : "";
    if (mode == "poolseq") return poolseq();
    if (mode == "stress" && argc >= 5) return stress(atoi(argv[2]), atoi(argv[3]), (unsigned)atol(argv[4]));
#ifndef H_NO_SOLVER
    if (mode == "solve" && argc >= 5) {
        std::vector<std::string> files(argv + 4, argv + argc);
        return solve(atoi(argv[2]), atoi(argv[3]), files);
    }
#endif
    std::cerr << "usage: h_threads poolseq | stress T N SEED | solve T ROUNDS files...\n";
    return 2;
}
