// C17 tie: the printers of Logic / ArithLogic / ModelBuilder / Model / Interpret, driven through the classes of the
// working tree.  Every piece of text is hex-coded ("-" is the empty string).
//
// stdin, one request per line:
//   P <interp 0|1> <hexname>
//        -> <hex protectName(name, interp)> <hasQuotableChars 0|1> <isReservedWord 0|1>
//   T <logic> <ns> <hexsort>*ns <nf> (<hexname> <k> <sortidx>*k <sortidx>)*nf <recipe>
//        logic: QF_UF | QF_LRA | QF_LIA | QF_UFLRA | QF_UFLIA;  sortidx: 0 Bool, 1 the numeric sort of the logic,
//        2+i the i-th declared sort;  recipe (prefix): u<i>/<k> user symbol i applied to k recipes;
//        o<op>/<k> with op in and or not eq ite distinct xor imp plus times minus neg leq lt geq gt;
//        c<hexliteral> numeric literal; t; f
//        -> OK <hex termToSMT2String> <hex pp> <hex dumpWithLets> | <n> <sym>*n <term>      or   EXC <hex what>
//           after the bar: the symbol table and the built term in the format of ocaml/print_driver.ml (command T)
//   M <ns> <hexsort>*ns <nf> (<hexname> <k> <sortidx>*k <sortidx>)*nf <nops> (<fidx> <valno>*k <valno>)*nops <nq> <fidx>*nq
//        QF_UF; every op is ModelBuilder::addToTheoryFunction(f, abstract values, abstract value) in the given order
//        (valno selects the abstract value @<valno> of the needed sort; for Bool: 0 false, else true); then
//        Model::getDefinition for the nq queried symbols, printed with Interpret::printDefinitionSmtlib
//        -> OK <hex text>*nq       (the full text of each definition)
//   K <ns> <hexsort>*ns <hexname> <sortidx>
//        -> <hex Interpret::printDefinitionSmtlib(constant, default value)>
//   I <hexscript>
//        the script through a fresh Interpret (file mode), std::cout captured
//        -> <hex output> <cout bad 0|1> <okStatus 0|1>
//   H <logic> <ns> <hexsort>*ns <nf> (<hexname> <k> <sortidx>*k <sortidx>)*nf
//        -> <hex Logic::dumpHeaderToFile>
#include <algorithm>
#include <cassert>
#include <cstring>
#include <functional>
#include <iostream>
#include <map>
#include <memory>
#include <optional>
#include <set>
#include <span>
#include <sstream>
#include <stdexcept>
#include <string>
#include <unordered_map>
#include <vector>
#define private public
#define protected public
#include <api/Interpret.h>
#include <api/MainSolver.h>
#include <logics/ArithLogic.h>
#include <logics/Logic.h>
#include <models/Model.h>
#include <models/ModelBuilder.h>
#include <options/SMTConfig.h>
#undef private
#undef protected
#include <common/ApiException.h>
#include <common/InternalException.h>

using namespace opensmt;

static std::string hex(std::string const & s) {
    if (s.empty()) return "-";
    static char const * d = "0123456789abcdef";
    std::string o;
    for (unsigned char c : s) { o.push_back(d[c >> 4]); o.push_back(d[c & 15]); }
    return o;
}
static std::string unhex(std::string const & h) {
    if (h == "-") return "";
    std::string o;
    for (size_t i = 0; i + 1 < h.size(); i += 2) o.push_back((char)std::stoi(h.substr(i, 2), nullptr, 16));
    return o;
}

struct Toks {
    std::vector<std::string> v;
    size_t i = 0;
    std::string next() {
        if (i >= v.size()) throw std::runtime_error("truncated request");
        return v[i++];
    }
    int num() { return std::stoi(next()); }
};

static Logic_t logicOf(std::string const & s) {
    if (s == "QF_UF") return Logic_t::QF_UF;
    if (s == "QF_LRA") return Logic_t::QF_LRA;
    if (s == "QF_LIA") return Logic_t::QF_LIA;
    if (s == "QF_UFLRA") return Logic_t::QF_UFLRA;
    if (s == "QF_UFLIA") return Logic_t::QF_UFLIA;
    throw std::runtime_error("logic " + s);
}

struct World {
    std::unique_ptr<Logic> logic;
    ArithLogic * arith = nullptr;
    std::vector<SRef> sorts;     // 0 Bool, 1 numeric (or undef), 2.. declared
    std::vector<SymRef> syms;

    World(std::string const & lname) {
        Logic_t t = logicOf(lname);
        if (lname == "QF_UF") logic.reset(new Logic(t));
        else { arith = new ArithLogic(t); logic.reset(arith); }
        sorts.push_back(logic->getSort_bool());
        SRef n = SRef_Undef;
        if (arith) n = (lname.find("LIA") != std::string::npos) ? arith->getSort_int() : arith->getSort_real();
        sorts.push_back(n);
    }
    SRef sortAt(int i) {
        if (i < 0 || i >= (int)sorts.size() || sorts[i] == SRef_Undef) throw std::runtime_error("sort index");
        return sorts[i];
    }
    void readDecls(Toks & t) {
        int ns = t.num();
        for (int i = 0; i < ns; i++) sorts.push_back(logic->declareUninterpretedSort(unhex(t.next())));
        int nf = t.num();
        for (int i = 0; i < nf; i++) {
            std::string name = unhex(t.next());
            int k = t.num();
            vec<SRef> args;
            for (int j = 0; j < k; j++) args.push(sortAt(t.num()));
            SRef ret = sortAt(t.num());
            syms.push_back(logic->declareFun(name, ret, args));
        }
    }
};

// ---- driver-format dump of sorts, symbols, terms
static std::string sortSpec(Logic const & l, SRef s) {
    std::string o = hex(l.sort_store.getSortSymName(s)) + "/" + std::to_string(l.sort_store[s].getSize());
    for (unsigned i = 0; i < l.sort_store[s].getSize(); i++) o += " " + sortSpec(l, l.sort_store[s][i]);
    return o;
}
static std::string symSpec(Logic const & l, SymRef sr) {
    Symbol const & s = l.getSym(sr);
    std::string o = hex(l.getSymName(sr)) + " " + (s.isInterpreted() ? "1" : "0") + " " + std::to_string(s.nargs());
    for (unsigned i = 0; i < s.nargs(); i++) o += " " + sortSpec(l, s[i]);
    o += " " + sortSpec(l, s.rsort());
    return o;
}
static std::string termSpec(Logic const & l, ArithLogic const * a, std::map<uint32_t, int> const & idx, PTRef tr) {
    if (a && a->isNumConst(tr)) {
        // what ArithLogic::termToSMT2StringImpl starts from: the absolute value as GMP prints it
        Number v = a->getNumConst(tr);
        bool neg = v < 0;
        if (neg) v.negate();
        std::string s = v.get_str();
        auto p = s.find('/');
        if (p == std::string::npos) return std::string("n") + (neg ? "1" : "0") + ":" + hex(s) + ":-";
        return std::string("n") + (neg ? "1" : "0") + ":" + hex(s.substr(0, p)) + ":" + hex(s.substr(p + 1));
    }
    Pterm const & t = l.getPterm(tr);
    std::string o = "a" + std::to_string(idx.at(t.symb().x)) + "/" + std::to_string(t.size());
    for (PTRef c : t) o += " " + termSpec(l, a, idx, c);
    return o;
}

static PTRef build(World & w, Toks & t) {
    std::string tok = t.next();
    Logic & l = *w.logic;
    if (tok == "t") return l.getTerm_true();
    if (tok == "f") return l.getTerm_false();
    if (tok[0] == 'c') {
        if (!w.arith) throw std::runtime_error("numeric literal without arithmetic");
        return w.arith->mkConst(w.sortAt(1), unhex(tok.substr(1)).c_str());
    }
    auto slash = tok.find('/');
    int k = std::stoi(tok.substr(slash + 1));
    std::string head = tok.substr(1, slash - 1);
    vec<PTRef> args;
    for (int i = 0; i < k; i++) args.push(build(w, t));
    if (tok[0] == 'u') {
        SymRef sr = w.syms.at(std::stoi(head));
        if (k == 0) return l.mkFun(sr, {});
        return l.mkUninterpFun(sr, std::move(args));
    }
    if (tok[0] != 'o') throw std::runtime_error("recipe " + tok);
    ArithLogic * a = w.arith;
    if (head == "and") return l.mkAnd(std::move(args));
    if (head == "or") return l.mkOr(std::move(args));
    if (head == "not") return l.mkNot(args[0]);
    if (head == "eq") return l.mkEq(std::move(args));
    if (head == "ite") return l.mkIte(std::move(args));
    if (head == "distinct") return l.mkDistinct(std::move(args));
    if (head == "xor") return l.mkXor(std::move(args));
    if (head == "imp") return l.mkImpl(std::move(args));
    if (!a) throw std::runtime_error("arithmetic operator without arithmetic");
    if (head == "plus") return a->mkPlus(std::move(args));
    if (head == "times") return a->mkTimes(std::move(args));
    if (head == "minus") return a->mkMinus(std::move(args));
    if (head == "neg") return a->mkNeg(args[0]);
    if (head == "leq") return a->mkLeq(std::move(args));
    if (head == "lt") return a->mkLt(std::move(args));
    if (head == "geq") return a->mkGeq(std::move(args));
    if (head == "gt") return a->mkGt(std::move(args));
    throw std::runtime_error("operator " + head);
}

static std::string tableAndTerm(World & w, PTRef tr) {
    Logic & l = *w.logic;
    vec<SymRef> const & all = l.sym_store.getSymbols();
    std::map<uint32_t, int> idx;
    std::string o = std::to_string(all.size());
    for (int i = 0; i < all.size(); i++) { idx[all[i].x] = i; o += " " + symSpec(l, all[i]); }
    o += " " + termSpec(l, w.arith, idx, tr);
    return o;
}

struct Capture {
    std::ostringstream ss;
    std::streambuf * old;
    Capture() : old(std::cout.rdbuf(ss.rdbuf())) {}
    ~Capture() { std::cout.rdbuf(old); std::cout.clear(); }
};

static std::string handle(std::string const & line) {
    Toks t;
    { std::istringstream is(line); std::string w; while (is >> w) t.v.push_back(w); }
    std::string cmd = t.next();
    if (cmd == "P") {
        static Logic logic(Logic_t::QF_UF);
        bool interp = t.next() == "1";
        std::string name = unhex(t.next());
        std::string p = logic.protectName(name, interp);
        bool q = name.empty() ? false : logic.hasQuotableChars(name);
        return hex(p) + " " + (q ? "1" : "0") + " " + (logic.isReservedWord(name) ? "1" : "0");
    }
    if (cmd == "T") {
        World w(t.next());
        w.readDecls(t);
        PTRef tr = PTRef_Undef;
        try {
            tr = build(w, t);
            if (tr == PTRef_Undef) return "EXC " + hex("undef");
        } catch (ApiException const & e) { return "EXC " + hex(e.what()); }
        catch (InternalException const & e) { return "EXC " + hex(e.what()); }
        Logic & l = *w.logic;
        return "OK " + hex(l.termToSMT2String(tr)) + " " + hex(l.pp(tr)) + " " + hex(l.dumpWithLets(tr)) + " | " + tableAndTerm(w, tr);
    }
    if (cmd == "H") {
        World w(t.next());
        w.readDecls(t);
        std::ostringstream os;
        w.logic->dumpHeaderToFile(os);
        return hex(os.str());
    }
    if (cmd == "M" || cmd == "K") {
        SMTConfig config;
        Interpret interp(config);
        {
            Capture c;
            char script[] = "(set-logic QF_UF)";
            interp.interpFile(script);
        }
        if (!interp.logic) return "EXC " + hex("no logic");
        Logic & l = *interp.logic;
        std::vector<SRef> sorts{l.getSort_bool(), SRef_Undef};
        int ns = t.num();
        for (int i = 0; i < ns; i++) sorts.push_back(l.declareUninterpretedSort(unhex(t.next())));
        auto sortAt = [&](int i) { if (i < 0 || i >= (int)sorts.size() || sorts[i] == SRef_Undef) throw std::runtime_error("sort index"); return sorts[i]; };
        if (cmd == "K") {
            std::string name = unhex(t.next());
            SRef s = sortAt(t.num());
            PTRef v = l.mkVar(s, name.c_str());
            return hex(interp.printDefinitionSmtlib(v, l.getDefaultValuePTRef(s)));
        }
        std::vector<SymRef> syms;
        int nf = t.num();
        for (int i = 0; i < nf; i++) {
            std::string name = unhex(t.next());
            int k = t.num();
            vec<SRef> args;
            for (int j = 0; j < k; j++) args.push(sortAt(t.num()));
            SRef ret = sortAt(t.num());
            syms.push_back(l.declareFun(name, ret, args));
        }
        auto value = [&](SRef s, int no) {
            if (s == l.getSort_bool()) return no == 0 ? l.getTerm_false() : l.getTerm_true();
            std::string nm = "@" + std::to_string(no);
            return l.mkConst(s, nm.c_str());
        };
        ModelBuilder mb(l);
        int nops = t.num();
        for (int i = 0; i < nops; i++) {
            SymRef f = syms.at(t.num());
            Symbol const & sym = l.getSym(f);
            vec<PTRef> vals;
            for (unsigned j = 0; j < sym.nargs(); j++) vals.push(value(sym[j], t.num()));
            PTRef val = value(sym.rsort(), t.num());
            mb.addToTheoryFunction(f, vals, val);
        }
        auto model = mb.build();
        int nq = t.num();
        std::string out = "OK";
        for (int i = 0; i < nq; i++) {
            SymRef f = syms.at(t.num());
            out += " " + hex(interp.printDefinitionSmtlib(model->getDefinition(f)));
        }
        return out;
    }
    if (cmd == "I") {
        std::string script = unhex(t.next());
        SMTConfig config;
        std::string outText;
        bool bad = false, ok = false;
        {
            Capture c;
            {
                Interpret interp(config);
                std::vector<char> buf(script.begin(), script.end());
                buf.push_back('\0');
                interp.interpFile(buf.data());
                ok = interp.okStatus();
            }
            std::cout.flush();
            bad = std::cout.bad() || std::cout.fail();
            outText = c.ss.str();
        }
        return hex(outText) + " " + (bad ? "1" : "0") + " " + (ok ? "1" : "0");
    }
    return "bad";
}

int main() {
    std::string line;
    while (std::getline(std::cin, line)) {
        std::string r;
        try { r = handle(line); }
        catch (ApiException const & e) { r = "EXC " + hex(e.what()); }
        catch (InternalException const & e) { r = "EXC " + hex(e.what()); }
        catch (std::exception const & e) { r = std::string("ERR ") + hex(e.what()); }
        std::cout << r << "\n" << std::flush;
    }
    return 0;
}
