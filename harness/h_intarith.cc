// C27 tie: bound tightening (LASolver), gcd/lcm normalisation (ArithLogic::mkLeq / mkEq),
// integer difference-logic conversions (SafeInt, Converter<SafeInt>) and the div/mod elimination
// definitions (DivModRewriter), driven through the classes of the working tree.
// stdin: one case per line, same first word and operands as ocaml/intarith_driver.ml; stdout: one
// line per case in the same format as the extracted model prints.
#include <string>
#include <vector>
#include <iostream>
#include <sstream>
#include <unordered_map>
#include <memory>
#include <map>
#include <set>
#include <span>
#include <optional>
#include <functional>
#include <algorithm>
#include <stdexcept>
#include <cassert>
#include <cstring>
#define private public
#define protected public
#include <options/SMTConfig.h>
#include <logics/ArithLogic.h>
#include <tsolvers/lasolver/LASolver.h>
#include <tsolvers/stpsolver/SafeInt.h>
#include <tsolvers/stpsolver/Converter.h>
#include <rewriters/DivModRewriter.h>
#include <models/Model.h>
#undef private
#undef protected
using namespace opensmt;

// Converter<SafeInt> specialisations live in IDLSolver.h as non-inline definitions that are already
// part of the library (STPSolver instantiation in TSolverHandler code); declare, do not redefine.
namespace opensmt {
template<> SafeInt Converter<SafeInt>::getValue(Number const & val);
template<> SafeInt Converter<SafeInt>::negate(SafeInt const & val);
}

static FastRational num(std::string const & s) {
    auto i = s.find('/');
    if (i == std::string::npos) return FastRational(s.c_str());
    FastRational n(s.substr(0, i).c_str()), d(s.substr(i + 1).c_str());
    return n / d;
}
static std::string str(FastRational const & r) { return r.get_str(); }

struct Env {
    SMTConfig config;
    ArithLogic logic{Logic_t::QF_LIA};
    std::vector<PTRef> xs;
    PTRef var(size_t i) {
        while (xs.size() <= i) xs.push_back(logic.mkIntVar(("x" + std::to_string(xs.size())).c_str()));
        return xs[i];
    }
    // coefficient of every xs[i] (i < n) in a linear term that is a var, a product or a sum of those
    bool coeffs(PTRef t, size_t n, std::vector<FastRational> & out, std::string & lead) {
        out.assign(n, FastRational(0));
        std::vector<PTRef> facs;
        if (logic.isPlus(t)) { for (PTRef a : logic.getPterm(t)) facs.push_back(a); } else facs.push_back(t);
        bool first = true;
        for (PTRef f : facs) {
            if (logic.isConstant(f)) return false;
            auto [v, c] = logic.splitTermToVarAndConst(f);
            size_t i = 0;
            for (; i < n; i++) if (xs[i] == v) break;
            if (i == n) return false;
            out[i] = logic.getNumConst(c);
            if (first) { lead = logic.getNumConst(c).sign() > 0 ? "+" : "-"; first = false; }
        }
        return true;
    }
    PTRef sum(std::vector<std::string> const & w, size_t from, FastRational const & c) {
        vec<PTRef> args;
        for (size_t i = from; i < w.size(); i++) {
            FastRational a = num(w[i]);
            args.push(logic.mkTimes(logic.mkConst(logic.getSort_int(), a), var(i - from)));
        }
        if (!c.isZero()) args.push(logic.mkConst(logic.getSort_int(), c));
        return args.size() == 1 ? args[0] : logic.mkPlus(std::move(args));
    }
};

static void collectVars(Logic & logic, PTRef t, std::set<uint32_t> & seen, std::vector<PTRef> & vars) {
    if (!seen.insert(t.x).second) return;
    if (logic.isVar(t)) { vars.push_back(t); return; }
    Pterm const & p = logic.getPterm(t);
    std::vector<PTRef> ch;
    for (PTRef c : p) ch.push_back(c);
    for (PTRef c : ch) collectVars(logic, c, seen, vars);
}

static std::string join(std::vector<FastRational> const & v) {
    std::string s;
    for (size_t i = 0; i < v.size(); i++) s += (i ? " " : "") + str(v[i]);
    return s;
}

int main() {
    auto env = std::make_unique<Env>();
    std::string line;
    unsigned long count = 0;
    while (std::getline(std::cin, line)) {
        std::istringstream is(line);
        std::vector<std::string> w;
        for (std::string t; is >> t;) w.push_back(t);
        std::string out = "bad";
        if (++count % 20000 == 0) env = std::make_unique<Env>();   // keep the term store small
        ArithLogic & logic = env->logic;
        try {
            if (w.size() == 3 && w[0] == "T") {
                LASolver solver(env->config, logic);
                auto p = solver.getBoundsValueForIntVar(num(w[1]), w[2] == "1");
                out = (p.upper.hasDelta() || p.lower.hasDelta()) ? "delta" : str(p.upper.R()) + " " + str(p.lower.R());
            } else if (w.size() == 3 && w[0] == "B") {
                // through declareAtom / initSolver / addBound:  c <= x   or   c <= -x   (c integer)
                LASolver solver(env->config, logic);
                PTRef x = env->var(0);
                PTRef atom = logic.mkLeq(logic.mkIntConst(num(w[1])), w[2] == "1" ? logic.mkNeg(x) : x);
                if (!logic.isLeq(atom)) out = "notleq";
                else {
                    solver.declareAtom(atom);
                    solver.initSolver();
                    auto pr = solver.getBoundRefPair(atom);
                    auto show = [&](LABoundRef r) {
                        LABound const & b = solver.boundStore[r];
                        std::string v = b.getValue().hasDelta() ? "delta" : str(b.getValue().R());
                        return std::string(b.getType() == bound_u ? "UB " : "LB ") + v;
                    };
                    out = show(pr.pos) + " " + show(pr.neg);
                }
            } else if (w.size() >= 3 && (w[0] == "I" || w[0] == "E")) {
                size_t n = w.size() - 2;
                FastRational c = num(w[1]);
                PTRef s = env->sum(w, 2, c);
                PTRef zero = logic.getTerm_IntZero();
                PTRef r = w[0] == "I" ? logic.mkLeq(zero, s) : logic.mkEq(zero, s);
                std::vector<FastRational> cs;
                std::string lead = "?";
                if (r == logic.getTerm_true()) out = "true";
                else if (r == logic.getTerm_false()) out = "false";
                else if (w[0] == "I" && logic.isLeq(r)) {
                    auto [k, t] = logic.leqToConstantAndTerm(r);
                    out = env->coeffs(t, n, cs, lead) ? str(logic.getNumConst(k)) + " | " + join(cs) : "shape";
                } else if (w[0] == "E" && logic.isEquality(r)) {
                    Pterm const & e = logic.getPterm(r);
                    PTRef k = e[0], t = e[1];
                    if (!logic.isConstant(k)) std::swap(k, t);
                    out = (logic.isConstant(k) && env->coeffs(t, n, cs, lead)) ? str(logic.getNumConst(k)) + " | " + join(cs) + " lead" + lead : "shape";
                } else out = "shape";
            } else if (w.size() == 2 && w[0] == "S") {
                // single factor a*x:  0 <= a*x
                PTRef s = logic.mkTimes(logic.mkConst(logic.getSort_int(), num(w[1])), env->var(0));
                PTRef r = logic.mkLeq(logic.getTerm_IntZero(), s);
                std::vector<FastRational> cs;
                std::string lead;
                if (r == logic.getTerm_true()) out = "0";   // a = 0: the sum is the constant 0
                else if (logic.isLeq(r)) {
                    auto [k, t] = logic.leqToConstantAndTerm(r);
                    out = (logic.getNumConst(k).isZero() && env->coeffs(t, 1, cs, lead)) ? str(cs[0]) : "shape";
                } else out = "shape";
            } else if (w.size() == 2 && w[0] == "C") {
                out = std::to_string(Converter<SafeInt>::getValue(num(w[1])).value());
            } else if (w.size() == 2 && w[0] == "N") {
                out = std::to_string(Converter<SafeInt>::negate(SafeInt(std::stoll(w[1]))).value());
            } else if (w.size() == 3 && (w[0] == "A" || w[0] == "U")) {
                SafeInt a(std::stoll(w[1])), b(std::stoll(w[2]));
                try { out = std::to_string((w[0] == "A" ? a + b : a - b).value()); }
                catch (std::overflow_error const &) { out = "none"; }
                catch (std::underflow_error const &) { out = "none"; }
            } else if (w.size() >= 3 && w[0] == "Y") {
                // Y k:n:d ... | x0 x1 ...   several div/mod applications handed to ONE DivModConfig / DivModRewriter
                std::vector<std::string> apps; std::vector<std::string> xv;
                size_t i = 1;
                for (; i < w.size() && w[i] != "|"; i++) apps.push_back(w[i]);
                for (i++; i < w.size(); i++) xv.push_back(w[i]);
                Model::Evaluation ev;
                for (size_t k = 0; k < xv.size(); k++) ev.insert({env->var(k), logic.mkIntConst(num(xv[k]))});
                std::vector<PTRef> terms, qs;
                for (size_t k = 0; k < apps.size(); k++) {
                    auto a = apps[k];
                    auto p1 = a.find(':'), p2 = a.find(':', p1 + 1);
                    PTRef x = env->var(std::stoul(a.substr(p1 + 1, p2 - p1 - 1)));
                    PTRef d = logic.mkIntConst(num(a.substr(p2 + 1)));
                    terms.push_back(a[0] == 'd' ? logic.mkIntDiv(x, d) : logic.mkMod(x, d));
                    qs.push_back(logic.mkIntVar(("q" + std::to_string(k)).c_str()));
                }
                // (1) the per-application rewrite with its cache, in the order given
                DivModConfig cfg(logic);
                std::vector<std::string> ids;
                std::string pattern;
                vec<PTRef> conj1, conjF;
                for (size_t k = 0; k < terms.size(); k++) {
                    PTRef r = cfg.rewrite(terms[k]);
                    std::string nm = logic.getSymName(r);
                    bool isDiv = nm.compare(0, DivModConfig::divPrefix.size(), DivModConfig::divPrefix) == 0;
                    std::string id = nm.substr(isDiv ? DivModConfig::divPrefix.size() : DivModConfig::modPrefix.size());
                    size_t idx = std::find(ids.begin(), ids.end(), id) - ids.begin();
                    if (idx == ids.size()) ids.push_back(id);
                    pattern += (k ? " p" : "p") + std::to_string(idx) + (isDiv ? "d" : "m");
                    conj1.push(logic.mkEq(qs[k], r));
                    conjF.push(logic.mkEq(qs[k], terms[k]));
                }
                vec<PTRef> defs;
                cfg.getDefinitions(defs);
                int ndefs = defs.size();
                for (PTRef dft : defs) conj1.push(dft);
                PTRef g1 = logic.mkAnd(conj1);
                // (2) the whole formula through DivModRewriter
                PTRef g2 = DivModRewriter(logic).rewrite(logic.mkAnd(conjF));
                // values: q_k := value of application k; auxiliary variables := value of the term they stand for
                {
                    Model m0(logic, ev);
                    for (size_t k = 0; k < terms.size(); k++) ev.insert({qs[k], m0.evaluate(terms[k])});
                    std::set<uint32_t> seen; std::vector<PTRef> vars;
                    collectVars(logic, g1, seen, vars);
                    collectVars(logic, g2, seen, vars);
                    for (PTRef v : vars) {
                        std::string nm = logic.getSymName(v);
                        if (nm.compare(0, DivModConfig::divPrefix.size(), DivModConfig::divPrefix) == 0)
                            ev.insert({v, m0.evaluate(DivModConfig::getDivTermFor(logic, v))});
                        else if (nm.compare(0, DivModConfig::modPrefix.size(), DivModConfig::modPrefix) == 0)
                            ev.insert({v, m0.evaluate(DivModConfig::getModTermFor(logic, v))});
                    }
                }
                Model m(logic, ev);
                auto tv = [&](PTRef t) { PTRef r = m.evaluate(t); return r == logic.getTerm_true() ? "1" : r == logic.getTerm_false() ? "0" : "open"; };
                out = pattern + " ; " + std::to_string(ndefs) + " ; " + tv(g1) + " " + tv(g2);
            } else if (w.size() == 5 && w[0] == "X") {
                // (and (= qv (div x d)) (= rv (mod x d))) after DivModRewriter, evaluated at x=n, qv=.div=q, rv=.mod=r
                PTRef x = env->var(0), qv = env->var(1), rv = env->var(2);
                PTRef d = logic.mkIntConst(num(w[2]));
                PTRef f = logic.mkAnd(logic.mkEq(qv, logic.mkIntDiv(x, d)), logic.mkEq(rv, logic.mkMod(x, d)));
                PTRef g = DivModRewriter(logic).rewrite(f);
                std::string id = "_" + std::to_string(x.x) + "_" + std::to_string(d.x);
                PTRef dv = logic.mkIntVar((std::string(DivModConfig::divPrefix) + id).c_str());
                PTRef mv = logic.mkIntVar((std::string(DivModConfig::modPrefix) + id).c_str());
                PTRef qc = logic.mkIntConst(num(w[3])), rc = logic.mkIntConst(num(w[4]));
                Model::Evaluation ev{{x, logic.mkIntConst(num(w[1]))}, {qv, qc}, {rv, rc}, {dv, qc}, {mv, rc}};
                Model m(logic, ev);
                PTRef res = m.evaluate(g);
                out = res == logic.getTerm_true() ? "1" : res == logic.getTerm_false() ? "0" : "open";
            }
        } catch (std::exception const & e) { out = std::string("exc:") + e.what(); }
        catch (...) { out = "exc"; }
        std::cout << out << "\n";
    }
}
