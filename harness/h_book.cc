// C19 / C21 state-level tie: runs the real Interpret (subclassed to read its protected bookkeeping)
// on a script, one command per input line, and dumps the bookkeeping state after every command.
// No change to /repo is needed: everything dumped is reachable through protected/public members.
//
// usage: h_book <NF> < script        (NF: number of define-fun names f0..f<NF-1> to probe)
// stdout: the interpreter's own output, and after each command a line
//   #S init=1 glob=0 lvl=2 asr=[t12 t40] ins=2 cur=[t12 t40] names=[n1:t12] ct=10 nf=[n1],- defs=010 decls=4 st=s
#include <Interpret.h>
#include <MainSolver.h>
#include <SMTConfig.h>
#include <cstring>
#include <iostream>
#include <string>
#include <vector>
using namespace opensmt;

class Probe : public Interpret {
public:
    explicit Probe(SMTConfig & c) : Interpret(c), cfg(c) {}
    void dump(unsigned NF) {
        std::cout << "#S init=" << (isInitialized() ? 1 : 0) << " glob=" << (cfg.declarations_are_global() ? 1 : 0);
        if (not isInitialized()) { std::cout << std::endl; return; }
        MainSolver const & ms = *main_solver;
        std::cout << " lvl=" << ms.getAssertionLevel() << " asr=[";
        for (int i = 0; i < assertions.size(); ++i) std::cout << (i ? " " : "") << "t" << assertions[i].x;
        std::cout << "] ins=" << ms.getInsertedFormulasCount() << " cur=[";
        auto cur = ms.getCurrentAssertions();
        for (int i = 0; i < cur.size(); ++i) std::cout << (i ? " " : "") << "t" << cur[i].x;
        std::cout << "] names=[";
        auto const & tn = ms.getTermNames();
        bool first = true;
        for (auto const & [name, term] : tn) { std::cout << (first ? "" : " ") << name << ":t" << term.x; first = false; }
        std::cout << "] ct=";
        for (int i = 0; i < assertions.size(); ++i) std::cout << (tn.contains(assertions[i]) ? '1' : '0');
        std::cout << " nf=";
        for (int i = 0; i < assertions.size(); ++i) {
            auto const * v = tn.tryGetNamesForTerm(assertions[i]);
            if (i) std::cout << ",";
            if (not v) { std::cout << "-"; continue; }
            std::cout << "[";
            for (std::size_t k = 0; k < v->size(); ++k) std::cout << (k ? " " : "") << (*v)[k];
            std::cout << "]";
        }
        std::cout << " defs=";
        for (unsigned f = 0; f < NF; ++f) std::cout << (defined_functions.has("f" + std::to_string(f)) ? '1' : '0');
        std::cout << " decls=" << user_declarations.size();
        sstat st = ms.getStatus();
        std::cout << " st=" << (st == s_True ? 's' : st == s_False ? 'n' : st == s_Undef ? 'u' : 'k');
        std::cout << std::endl;
    }
private:
    SMTConfig & cfg;
};

int main(int argc, char ** argv) {
    unsigned NF = argc > 1 ? std::stoul(argv[1]) : 0;
    SMTConfig config;
    Probe probe(config);
    std::string line;
    while (std::getline(std::cin, line)) {
        if (line.empty()) continue;
        std::vector<char> buf(line.begin(), line.end());
        buf.push_back('\0');
        probe.interpFile(buf.data());
        std::cout.flush();
        probe.dump(NF);
        if (probe.gotExit()) break;
    }
    return 0;
}
