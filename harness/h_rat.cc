// C15 tie: FastRational of the working tree vs GMP mpq_class.
//
// stdin, one case per line:   [!]<op> <modeA> <A> <modeB> <B>
//   A, B   "num/den" decimal (den > 0, not necessarily reduced); for the ctor* ops plain integers
//   mode   how the operand object is reached (so that every `state` is hit):
//            d  FastRational(const char*)                      WORD_VALID | MPQ_ALLOCATED_AND_VALID
//            a  (x + 2^80) - 2^80   through operator+/-        WORD_AND_MPQ when it fits a word
//            p  as a, then negate() twice                      WORD_PLUS_MPQ_INITIALIZED
//            c  x += 2^80; x -= 2^80                           WORD_AND_MPQ (in-place path)
//            m  (x * K) / K  with K = 2^40+15                  WORD_AND_MPQ through mul/div
//   !      run the case in a forked child (the caller expects abort()/SIGFPE/UB)
// stdout, one line per case:
//   R <W|B> <num>/<den> <hash> ; <stateA> <stateB> ; G <num>/<den>       FastRational-valued ops
//   I <int> ; <stateA> <stateB> ; G <int>                                int/bool-valued ops
//   PREPFAIL ...     the operand reached through arithmetic is not the operand
//   CRASH <signal>   (forked cases only)
//   Q ...            sequence mode, see below
// every complete result line ends with " $" (a process killed by a signal may leave a partial line)
// Every FastRational result is also observed "deeply": isWellFormed() must hold and the value read through a
// mixed-representation computation ((x + 2^80) - 2^80, which goes through x's GMP part whenever that part is
// flagged valid) must be the value of the fields printed; otherwise " !wf" / " !stale(<value>)" is appended.
// Operands that an operation takes by const reference must still have their value afterwards (" !operandA/B").
//
// Sequence mode:  seq <N> <mode:num/den>*N | <step> <step> ...     a register file r0..r(N-1), steps:
//   addA.i.j subA mulA divA      ri op= rj  (i = j: aliasing)         addC.i.j ... ri op= FastRational(rj)  (a copy)
//   add.k.i.j sub mul div        rk = ri op rj                        add3.k.i.j ...  addition(rk, ri, rj) etc.
//   neg.k.i inv.k.i floor.k.i ceil.k.i num.k.i den.k.i                negate.i
//   copy.k.i (operator=(const&))  cctor.k.i (rk = FastRational(ri))   move.k.i (rk = std::move(ri))   swap.k.i
//   cmp.i.j eq.i.j lt.i.j sign.i isint.i                              (print I:<v>)
//   prime.i   t = (ri + 2^80) - 2^80   (fills ri's GMP cache; prints P:<value of t>)
//   primem.i  t = (ri * K) / K          primec.i  ri.compare(2^80) (prints I)     primeq.i  ri == 2^80+1/3 (prints I)
// Output:  Q <dump after step 0> ; <dump after step 1> ; ... ; F <final> # <flags>
//   dump = [I:<v>|P:<n/d>] <W|B>:<num>/<den>:<hash> for every register (fields only, no mutation of the register);
//   final = P:<n/d> for every register (mixed-representation read); flags = "ok" or a list of
//   <step>.<reg>:!wf / <step>.<reg>:!stale ...; then " @ " and the states of the operand registers at every step.
// W/B = wordPartValid() of the result; num/den are the raw fields of the valid part (not
// re-canonicalised); G = the same operation computed by GMP alone ("undef" outside its domain).
#include "FastRational.h"
#include <gmpxx.h>
#include <iostream>
#include <sstream>
#include <string>
#include <vector>
#include <sys/wait.h>
#include <unistd.h>
using namespace opensmt;

static int stateOf(FastRational const & x) {
    return (x.wordPartValid() ? 1 : 0) | (x.mpqMemoryAllocated() ? 2 : 0) | (x.mpqPartValid() ? 4 : 0);
}

static const char * HUGE_STR = "1208925819614629174706176"; // 2^80
static const char * K_STR = "1099511627791";                // 2^40 + 15

// the value of the fields of the valid part, as printed
static mpq_class fieldsOf(FastRational const & x) {
    if (x.wordPartValid()) {
        auto nd = x.tryGetNumDen();
        return mpq_class(mpz_class((long)nd->first), mpz_class((unsigned long)nd->second));   // not canonicalised
    }
    return x.getMpq();
}

static std::string showFields(FastRational const & x, char sep) {
    std::ostringstream os;
    mpq_class q = fieldsOf(x);
    os << (x.wordPartValid() ? "W" : "B") << sep << q.get_num() << "/" << q.get_den() << sep << x.getHashValue();
    return os.str();
}

// the value as a mixed-representation computation sees it (reads x's GMP part when it is flagged valid)
static mpq_class mixedRead(FastRational const & x) {
    FastRational h(HUGE_STR);
    FastRational t = (x + h) - h;
    return t.getMpq();
}

static std::string deepFlags(FastRational const & x) {
    std::string f;
    mpq_class v = fieldsOf(x);
    if (v.get_den() != 0) v.canonicalize();
    if (!x.isWellFormed()) f += " !wf";
    mpq_class m = mixedRead(x);
    if (m != v) { std::ostringstream os; os << " !stale(" << m.get_num() << "/" << m.get_den() << ")"; f += os.str(); }
    return f;
}

static std::string show(FastRational const & x) {
    return "R " + showFields(x, ' ') + deepFlags(x);
}

static std::string showq(mpq_class const & q) {
    std::ostringstream os;
    os << "G " << q.get_num() << "/" << q.get_den();
    return os.str();
}
static std::string showz(mpz_class const & z) { return showq(mpq_class(z)); }

static mpq_class parseq(std::string const & s) {
    mpq_class q(s, 10);
    q.canonicalize();
    return q;
}

static bool prep(FastRational & x, std::string const & s, char mode) {
    x = FastRational(s.c_str());
    switch (mode) {
    case 'd': break;
    case 'a': { FastRational h(HUGE_STR); x = (x + h) - h; break; }
    case 'p': { FastRational h(HUGE_STR); x = (x + h) - h; x.negate(); x.negate(); break; }
    case 'c': { FastRational h(HUGE_STR); x += h; x -= h; break; }
    case 'm': { FastRational k(K_STR); x = (x * k) / k; break; }
    default: return false;
    }
    return x.getMpq() == parseq(s);
}

static int sgn(int c) { return c < 0 ? -1 : (c > 0 ? 1 : 0); }

static std::string run(std::string const & line) {
    std::istringstream is(line);
    std::string op, sa, sb, ma, mb;
    is >> op >> ma >> sa >> mb >> sb;
    if (op.empty() || ma.empty() || mb.empty() || sb.empty()) return "BAD";
    std::ostringstream out;
    // constructors from machine integers
    if (op == "ctorw" || op == "ctoru" || op == "ctorwu") {
        long long n = std::stoll(sa), d = std::stoll(sb);
        if (op == "ctorw") { FastRational r((word)n); out << show(r) << " ; 0 0 ; " << showq(mpq_class((long)n)); }
        else if (op == "ctoru") { FastRational r((uint32_t)n); out << show(r) << " ; 0 0 ; " << showq(mpq_class((long)n)); }
        else { FastRational r((word)n, (uword)d); mpq_class g((long)n, (long)d); g.canonicalize();
               out << show(r) << " ; 0 0 ; " << showq(g); }
        return out.str();
    }
    FastRational a, b;
    if (!prep(a, sa, ma[0])) return "PREPFAIL A " + sa + " got " + show(a);
    if (!prep(b, sb, mb[0])) return "PREPFAIL B " + sb + " got " + show(b);
    mpq_class ga = parseq(sa), gb = parseq(sb);
    int sta = stateOf(a), stb = stateOf(b);
    std::string res, g;
    bool gb0 = sgn(gb) == 0;
    if (op == "add") { res = show(a + b); g = showq(ga + gb); }
    else if (op == "sub") { res = show(a - b); g = showq(ga - gb); }
    else if (op == "mul") { res = show(a * b); g = showq(ga * gb); }
    else if (op == "div") { res = show(a / b); g = gb0 ? "G undef" : showq(ga / gb); }
    // the namespace-level functions with an already used destination (as Polynomial.h calls them)
    else if (op == "add3") { FastRational dst(HUGE_STR); addition(dst, a, b); res = show(dst); g = showq(ga + gb); }
    else if (op == "sub3") { FastRational dst = (FastRational("7") + FastRational(HUGE_STR)) - FastRational(HUGE_STR); subtraction(dst, a, b); res = show(dst); g = showq(ga - gb); }
    else if (op == "mul3") { FastRational dst(HUGE_STR); multiplication(dst, a, b); res = show(dst); g = showq(ga * gb); }
    else if (op == "div3") { FastRational dst = (FastRational("7") + FastRational(HUGE_STR)) - FastRational(HUGE_STR); division(dst, a, b); res = show(dst); g = gb0 ? "G undef" : showq(ga / gb); }
    else if (op == "addA") { a += b; res = show(a); g = showq(ga + gb); }
    else if (op == "subA") { a -= b; res = show(a); g = showq(ga - gb); }
    else if (op == "mulA") { a *= b; res = show(a); g = showq(ga * gb); }
    else if (op == "divA") { a /= b; res = show(a); g = gb0 ? "G undef" : showq(ga / gb); }
    else if (op == "selfadd") { a += a; res = show(a); g = showq(ga + ga); }
    else if (op == "selfsub") { a -= a; res = show(a); g = showq(ga - ga); }
    else if (op == "selfmul") { a *= a; res = show(a); g = showq(ga * ga); }
    else if (op == "selfdiv") { a /= a; res = show(a); g = sgn(ga) == 0 ? "G undef" : showq(ga / ga); }
    else if (op == "neg") { res = show(-a); g = showq(-ga); }
    else if (op == "negate") { a.negate(); res = show(a); g = showq(-ga); }
    else if (op == "inv") { res = show(a.inverse()); g = sgn(ga) == 0 ? "G undef" : showq(1 / ga); }
    else if (op == "copy") { FastRational c(a); res = show(c); g = showq(ga); }
    else if (op == "floor") { res = show(a.floor()); mpz_class z; mpz_fdiv_q(z.get_mpz_t(), ga.get_num_mpz_t(), ga.get_den_mpz_t()); g = showz(z); }
    else if (op == "ceil") { res = show(a.ceil()); mpz_class z; mpz_cdiv_q(z.get_mpz_t(), ga.get_num_mpz_t(), ga.get_den_mpz_t()); g = showz(z); }
    else if (op == "num") { res = show(a.get_num()); g = showz(ga.get_num()); }
    else if (op == "den") { res = show(a.get_den()); g = showz(ga.get_den()); }
    else if (op == "round") {
        res = show(fastrat_round_to_int(a));
        mpq_class h = ga + mpq_class(1, 2); mpz_class z; mpz_fdiv_q(z.get_mpz_t(), h.get_num_mpz_t(), h.get_den_mpz_t()); g = showz(z);
    }
    else if (op == "cmp") { res = "I " + std::to_string(sgn(a.compare(b))); g = "G " + std::to_string(sgn(cmp(ga, gb))); }
    else if (op == "eq") { res = "I " + std::to_string((a == b) ? 1 : 0); g = "G " + std::to_string(ga == gb ? 1 : 0); }
    else if (op == "lt") { res = "I " + std::to_string((a < b) ? 1 : 0); g = "G " + std::to_string(ga < gb ? 1 : 0); }
    else if (op == "le") { res = "I " + std::to_string((a <= b) ? 1 : 0); g = "G " + std::to_string(ga <= gb ? 1 : 0); }
    else if (op == "sign") { res = "I " + std::to_string(a.sign()); g = "G " + std::to_string(sgn(ga)); }
    else if (op == "isint") { res = "I " + std::to_string(a.isInteger() ? 1 : 0); g = "G " + std::to_string(ga.get_den() == 1 ? 1 : 0); }
    else if (op == "iszero") { res = "I " + std::to_string(a.isZero() ? 1 : 0); g = "G " + std::to_string(sgn(ga) == 0 ? 1 : 0); }
    else if (op == "isone") { res = "I " + std::to_string(a.isOne() ? 1 : 0); g = "G " + std::to_string(ga == 1 ? 1 : 0); }
    // integer helpers (operands are integers in the property's domain; the numerators are used otherwise)
    else if (op == "gcd") { res = show(gcd(a, b)); mpz_class z; mpz_gcd(z.get_mpz_t(), ga.get_num_mpz_t(), gb.get_num_mpz_t()); g = showz(z); }
    else if (op == "lcm") { res = show(lcm(a, b)); mpz_class z; mpz_lcm(z.get_mpz_t(), ga.get_num_mpz_t(), gb.get_num_mpz_t()); g = showz(z); }
    else if (op == "fdiv") {
        res = show(fastrat_fdiv_q(a, b));
        if (gb0) g = "G undef"; else { mpz_class z; mpz_fdiv_q(z.get_mpz_t(), ga.get_num_mpz_t(), gb.get_num_mpz_t()); g = showz(z); }
    }
    else if (op == "mod") {
        res = show(a % b);
        if (gb0) g = "G undef"; else { mpz_class z; mpz_fdiv_r(z.get_mpz_t(), ga.get_num_mpz_t(), gb.get_num_mpz_t()); g = showz(z); }
    }
    else if (op == "divexact") {
        res = show(divexact(a, b));
        if (gb0 || !mpz_divisible_p(ga.get_num_mpz_t(), gb.get_num_mpz_t())) g = "G undef";
        else { mpz_class z; mpz_divexact(z.get_mpz_t(), ga.get_num_mpz_t(), gb.get_num_mpz_t()); g = showz(z); }
    }
    else return "BAD";
    // operands taken by const reference still denote their value (whatever happened to their cached parts)
    static const char * INPLACE[] = {"addA", "subA", "mulA", "divA", "selfadd", "selfsub", "selfmul", "selfdiv", "negate"};
    bool inplace = false;
    for (auto n : INPLACE) inplace = inplace || op == n;
    if (!inplace && (fieldsOf(a) != ga || !deepFlags(a).empty())) res += " !operandA";
    if (fieldsOf(b) != gb || !deepFlags(b).empty()) res += " !operandB";
    out << res << " ; " << sta << " " << stb << " ; " << g;
    return out.str();
}

// ------------------------------------------------------------------------------------------------
// sequence mode
static std::vector<std::string> splitOn(std::string const & s, char c) {
    std::vector<std::string> out; std::string cur;
    for (char ch : s) { if (ch == c) { out.push_back(cur); cur.clear(); } else cur += ch; }
    out.push_back(cur);
    return out;
}

static std::string showv(mpq_class const & q) { std::ostringstream os; os << q.get_num() << "/" << q.get_den(); return os.str(); }

static std::string runSeq(std::string const & line) {
    std::istringstream is(line);
    std::string tok;
    is >> tok;                       // "seq"
    int N = 0;
    is >> N;
    if (N < 1 || N > 8) return "BAD";
    std::vector<FastRational> r(N);
    for (int i = 0; i < N; i++) {
        is >> tok;
        if (tok.size() < 3 || tok[1] != ':') return "BAD";
        if (!prep(r[i], tok.substr(2), tok[0])) return "PREPFAIL R " + tok + " got " + show(r[i]);
    }
    is >> tok;
    if (tok != "|") return "BAD";
    std::ostringstream out, flags, states;
    out << "Q";
    int stepNo = 0;
    FastRational H(HUGE_STR), K(K_STR), H3 = FastRational(HUGE_STR) + FastRational(1, 3);
    auto st2 = [&](int i, int j) { states << " " << stateOf(r[i]) << stateOf(r[j]); };
    auto st1 = [&](int i) { states << " " << stateOf(r[i]); };
    while (is >> tok) {
        auto p = splitOn(tok, '.');
        std::string op = p[0];
        int x = p.size() > 1 ? std::stoi(p[1]) : 0, y = p.size() > 2 ? std::stoi(p[2]) : 0, z = p.size() > 3 ? std::stoi(p[3]) : 0;
        if (x < 0 || x >= N || y < 0 || y >= N || z < 0 || z >= N) return "BAD";
        std::string extra;
        if (op == "addA") { st2(x, y); r[x] += r[y]; }
        else if (op == "subA") { st2(x, y); r[x] -= r[y]; }
        else if (op == "mulA") { st2(x, y); r[x] *= r[y]; }
        else if (op == "divA") { st2(x, y); r[x] /= r[y]; }
        else if (op == "addC") { st2(x, y); FastRational c(r[y]); r[x] += c; }
        else if (op == "subC") { st2(x, y); FastRational c(r[y]); r[x] -= c; }
        else if (op == "mulC") { st2(x, y); FastRational c(r[y]); r[x] *= c; }
        else if (op == "divC") { st2(x, y); FastRational c(r[y]); r[x] /= c; }
        else if (op == "add") { st2(y, z); r[x] = r[y] + r[z]; }
        else if (op == "sub") { st2(y, z); r[x] = r[y] - r[z]; }
        else if (op == "mul") { st2(y, z); r[x] = r[y] * r[z]; }
        else if (op == "div") { st2(y, z); r[x] = r[y] / r[z]; }
        else if (op == "add3") { st2(y, z); addition(r[x], r[y], r[z]); }
        else if (op == "sub3") { st2(y, z); subtraction(r[x], r[y], r[z]); }
        else if (op == "mul3") { st2(y, z); multiplication(r[x], r[y], r[z]); }
        else if (op == "div3") { st2(y, z); division(r[x], r[y], r[z]); }
        else if (op == "neg") { st1(y); r[x] = -r[y]; }
        else if (op == "negate") { st1(x); r[x].negate(); }
        else if (op == "inv") { st1(y); r[x] = r[y].inverse(); }
        else if (op == "floor") { st1(y); r[x] = r[y].floor(); }
        else if (op == "ceil") { st1(y); r[x] = r[y].ceil(); }
        else if (op == "num") { st1(y); r[x] = r[y].get_num(); }
        else if (op == "den") { st1(y); r[x] = r[y].get_den(); }
        else if (op == "copy") { st2(x, y); r[x] = r[y]; }
        else if (op == "cctor") { st1(y); r[x] = FastRational(r[y]); }
        else if (op == "move") { st2(x, y); r[x] = std::move(r[y]); }
        else if (op == "swap") { st2(x, y); std::swap(r[x], r[y]); }
        else if (op == "cmp") { st2(x, y); extra = "I:" + std::to_string(sgn(r[x].compare(r[y]))); }
        else if (op == "eq") { st2(x, y); extra = "I:" + std::to_string((r[x] == r[y]) ? 1 : 0); }
        else if (op == "lt") { st2(x, y); extra = "I:" + std::to_string((r[x] < r[y]) ? 1 : 0); }
        else if (op == "sign") { st1(x); extra = "I:" + std::to_string(r[x].sign()); }
        else if (op == "isint") { st1(x); extra = "I:" + std::to_string(r[x].isInteger() ? 1 : 0); }
        else if (op == "prime") { st1(x); extra = "P:" + showv(mixedRead(r[x])); }
        else if (op == "primem") { st1(x); FastRational t = (r[x] * K) / K; extra = "P:" + showv(t.getMpq()); }
        else if (op == "primec") { st1(x); extra = "I:" + std::to_string(sgn(r[x].compare(H))); }
        else if (op == "primeq") { st1(x); extra = "I:" + std::to_string((r[x] == H3) ? 1 : 0); }
        else return "BAD";
        if (stepNo) out << " ;";
        if (!extra.empty()) out << " " << extra;
        for (int i = 0; i < N; i++) {
            out << " " << showFields(r[i], ':');
            if (!r[i].isWellFormed()) flags << " " << stepNo << "." << i << ":!wf";
        }
        stepNo++;
    }
    out << " ; F";
    for (int i = 0; i < N; i++) {
        mpq_class m = mixedRead(r[i]);
        out << " P:" << showv(m);
        mpq_class v = fieldsOf(r[i]);
        if (v.get_den() != 0) v.canonicalize();
        if (m != v) flags << " F." << i << ":!stale";
        if (!r[i].isWellFormed()) flags << " F." << i << ":!wf";
    }
    std::string f = flags.str();
    out << " #" << (f.empty() ? " ok" : f) << " @" << states.str();
    return out.str();
}

static std::string runAny(std::string const & line) {
    if (line.compare(0, 4, "seq ") == 0) return runSeq(line);
    return run(line);
}

int main() {
    std::ios::sync_with_stdio(false);
    std::string line;
    while (std::getline(std::cin, line)) {
        if (!line.empty() && line[0] == '!') {
            std::cout.flush();
            pid_t pid = fork();
            if (pid == 0) {
                std::string r = runAny(line.substr(1));
                std::cout << r << " $\n";
                std::cout.flush();
                _exit(0);
            }
            int st = 0;
            waitpid(pid, &st, 0);
            if (WIFSIGNALED(st)) std::cout << "CRASH " << WTERMSIG(st) << " $\n";
            else if (!WIFEXITED(st) || WEXITSTATUS(st) != 0) std::cout << "CRASH exit $\n";
            std::cout.flush();
        } else {
            std::cout << runAny(line) << " $\n";
        }
    }
    std::cout.flush();
    return 0;
}
