// C15 tie: FastRational of the working tree vs GMP mpq_class.
//
// stdin, one case per line:   [!]<op> <modeA> <A> <modeB> <B>
//   A, B   "num/den" decimal (den > 0, not necessarily reduced); for the ctor* ops plain integers
//   mode   how the operand object is reached (so that every `state` is hit):
//            d  FastRational(const char*)                      WORD_VALID | MPQ_ALLOCATED_AND_VALID
//            a  (x + 2^80) - 2^80   through operator+/-        WORD_AND_MPQ when it fits a word
//            p  as a, then negate() twice                      WORD_PLUS_MPQ_INITIALIZED
//            c  x += 2^80; x -= 2^80                           WORD_AND_MPQ (in-place path)
//            m  (x * K) / K  with K = 2^40+15                  WORD_AND_MPQ through mul/div
//   !      run the case in a forked child (the caller expects abort()/SIGFPE/UB)
// stdout, one line per case:
//   R <W|B> <num>/<den> <hash> ; <stateA> <stateB> ; G <num>/<den>       FastRational-valued ops
//   I <int> ; <stateA> <stateB> ; G <int>                                int/bool-valued ops
//   PREPFAIL ...     the operand reached through arithmetic is not the operand
//   CRASH <signal>   (forked cases only)
// every complete result line ends with " $" (a process killed by a signal may leave a partial line)
// W/B = wordPartValid() of the result; num/den are the raw fields of the valid part (not
// re-canonicalised); G = the same operation computed by GMP alone ("undef" outside its domain).
#include "FastRational.h"
#include <gmpxx.h>
#include <iostream>
#include <sstream>
#include <string>
#include <sys/wait.h>
#include <unistd.h>
using namespace opensmt;

static int stateOf(FastRational const & x) {
    return (x.wordPartValid() ? 1 : 0) | (x.mpqMemoryAllocated() ? 2 : 0) | (x.mpqPartValid() ? 4 : 0);
}

static std::string show(FastRational const & x) {
    std::ostringstream os;
    if (x.wordPartValid()) {
        auto nd = x.tryGetNumDen();
        os << "R W " << nd->first << "/" << nd->second;
    } else {
        mpq_class q = x.getMpq();
        os << "R B " << q.get_num() << "/" << q.get_den();
    }
    os << " " << x.getHashValue();
    return os.str();
}

static std::string showq(mpq_class const & q) {
    std::ostringstream os;
    os << "G " << q.get_num() << "/" << q.get_den();
    return os.str();
}
static std::string showz(mpz_class const & z) { return showq(mpq_class(z)); }

static mpq_class parseq(std::string const & s) {
    mpq_class q(s, 10);
    q.canonicalize();
    return q;
}

static const char * HUGE_STR = "1208925819614629174706176"; // 2^80
static const char * K_STR = "1099511627791";                // 2^40 + 15

static bool prep(FastRational & x, std::string const & s, char mode) {
    x = FastRational(s.c_str());
    switch (mode) {
    case 'd': break;
    case 'a': { FastRational h(HUGE_STR); x = (x + h) - h; break; }
    case 'p': { FastRational h(HUGE_STR); x = (x + h) - h; x.negate(); x.negate(); break; }
    case 'c': { FastRational h(HUGE_STR); x += h; x -= h; break; }
    case 'm': { FastRational k(K_STR); x = (x * k) / k; break; }
    default: return false;
    }
    return x.getMpq() == parseq(s);
}

static int sgn(int c) { return c < 0 ? -1 : (c > 0 ? 1 : 0); }

static std::string run(std::string const & line) {
    std::istringstream is(line);
    std::string op, sa, sb, ma, mb;
    is >> op >> ma >> sa >> mb >> sb;
    if (op.empty() || ma.empty() || mb.empty() || sb.empty()) return "BAD";
    std::ostringstream out;
    // constructors from machine integers
    if (op == "ctorw" || op == "ctoru" || op == "ctorwu") {
        long long n = std::stoll(sa), d = std::stoll(sb);
        if (op == "ctorw") { FastRational r((word)n); out << show(r) << " ; 0 0 ; " << showq(mpq_class((long)n)); }
        else if (op == "ctoru") { FastRational r((uint32_t)n); out << show(r) << " ; 0 0 ; " << showq(mpq_class((long)n)); }
        else { FastRational r((word)n, (uword)d); mpq_class g((long)n, (long)d); g.canonicalize();
               out << show(r) << " ; 0 0 ; " << showq(g); }
        return out.str();
    }
    FastRational a, b;
    if (!prep(a, sa, ma[0])) return "PREPFAIL A " + sa + " got " + show(a);
    if (!prep(b, sb, mb[0])) return "PREPFAIL B " + sb + " got " + show(b);
    mpq_class ga = parseq(sa), gb = parseq(sb);
    int sta = stateOf(a), stb = stateOf(b);
    std::string res, g;
    bool gb0 = sgn(gb) == 0;
    if (op == "add") { res = show(a + b); g = showq(ga + gb); }
    else if (op == "sub") { res = show(a - b); g = showq(ga - gb); }
    else if (op == "mul") { res = show(a * b); g = showq(ga * gb); }
    else if (op == "div") { res = show(a / b); g = gb0 ? "G undef" : showq(ga / gb); }
    // the namespace-level functions with an already used destination (as Polynomial.h calls them)
    else if (op == "add3") { FastRational dst(HUGE_STR); addition(dst, a, b); res = show(dst); g = showq(ga + gb); }
    else if (op == "sub3") { FastRational dst = (FastRational("7") + FastRational(HUGE_STR)) - FastRational(HUGE_STR); subtraction(dst, a, b); res = show(dst); g = showq(ga - gb); }
    else if (op == "mul3") { FastRational dst(HUGE_STR); multiplication(dst, a, b); res = show(dst); g = showq(ga * gb); }
    else if (op == "div3") { FastRational dst = (FastRational("7") + FastRational(HUGE_STR)) - FastRational(HUGE_STR); division(dst, a, b); res = show(dst); g = gb0 ? "G undef" : showq(ga / gb); }
    else if (op == "addA") { a += b; res = show(a); g = showq(ga + gb); }
    else if (op == "subA") { a -= b; res = show(a); g = showq(ga - gb); }
    else if (op == "mulA") { a *= b; res = show(a); g = showq(ga * gb); }
    else if (op == "divA") { a /= b; res = show(a); g = gb0 ? "G undef" : showq(ga / gb); }
    else if (op == "selfadd") { a += a; res = show(a); g = showq(ga + ga); }
    else if (op == "selfsub") { a -= a; res = show(a); g = showq(ga - ga); }
    else if (op == "selfmul") { a *= a; res = show(a); g = showq(ga * ga); }
    else if (op == "selfdiv") { a /= a; res = show(a); g = sgn(ga) == 0 ? "G undef" : showq(ga / ga); }
    else if (op == "neg") { res = show(-a); g = showq(-ga); }
    else if (op == "negate") { a.negate(); res = show(a); g = showq(-ga); }
    else if (op == "inv") { res = show(a.inverse()); g = sgn(ga) == 0 ? "G undef" : showq(1 / ga); }
    else if (op == "copy") { FastRational c(a); res = show(c); g = showq(ga); }
    else if (op == "floor") { res = show(a.floor()); mpz_class z; mpz_fdiv_q(z.get_mpz_t(), ga.get_num_mpz_t(), ga.get_den_mpz_t()); g = showz(z); }
    else if (op == "ceil") { res = show(a.ceil()); mpz_class z; mpz_cdiv_q(z.get_mpz_t(), ga.get_num_mpz_t(), ga.get_den_mpz_t()); g = showz(z); }
    else if (op == "num") { res = show(a.get_num()); g = showz(ga.get_num()); }
    else if (op == "den") { res = show(a.get_den()); g = showz(ga.get_den()); }
    else if (op == "round") {
        res = show(fastrat_round_to_int(a));
        mpq_class h = ga + mpq_class(1, 2); mpz_class z; mpz_fdiv_q(z.get_mpz_t(), h.get_num_mpz_t(), h.get_den_mpz_t()); g = showz(z);
    }
    else if (op == "cmp") { res = "I " + std::to_string(sgn(a.compare(b))); g = "G " + std::to_string(sgn(cmp(ga, gb))); }
    else if (op == "eq") { res = "I " + std::to_string((a == b) ? 1 : 0); g = "G " + std::to_string(ga == gb ? 1 : 0); }
    else if (op == "lt") { res = "I " + std::to_string((a < b) ? 1 : 0); g = "G " + std::to_string(ga < gb ? 1 : 0); }
    else if (op == "le") { res = "I " + std::to_string((a <= b) ? 1 : 0); g = "G " + std::to_string(ga <= gb ? 1 : 0); }
    else if (op == "sign") { res = "I " + std::to_string(a.sign()); g = "G " + std::to_string(sgn(ga)); }
    else if (op == "isint") { res = "I " + std::to_string(a.isInteger() ? 1 : 0); g = "G " + std::to_string(ga.get_den() == 1 ? 1 : 0); }
    else if (op == "iszero") { res = "I " + std::to_string(a.isZero() ? 1 : 0); g = "G " + std::to_string(sgn(ga) == 0 ? 1 : 0); }
    else if (op == "isone") { res = "I " + std::to_string(a.isOne() ? 1 : 0); g = "G " + std::to_string(ga == 1 ? 1 : 0); }
    // integer helpers (operands are integers in the property's domain; the numerators are used otherwise)
    else if (op == "gcd") { res = show(gcd(a, b)); mpz_class z; mpz_gcd(z.get_mpz_t(), ga.get_num_mpz_t(), gb.get_num_mpz_t()); g = showz(z); }
    else if (op == "lcm") { res = show(lcm(a, b)); mpz_class z; mpz_lcm(z.get_mpz_t(), ga.get_num_mpz_t(), gb.get_num_mpz_t()); g = showz(z); }
    else if (op == "fdiv") {
        res = show(fastrat_fdiv_q(a, b));
        if (gb0) g = "G undef"; else { mpz_class z; mpz_fdiv_q(z.get_mpz_t(), ga.get_num_mpz_t(), gb.get_num_mpz_t()); g = showz(z); }
    }
    else if (op == "mod") {
        res = show(a % b);
        if (gb0) g = "G undef"; else { mpz_class z; mpz_fdiv_r(z.get_mpz_t(), ga.get_num_mpz_t(), gb.get_num_mpz_t()); g = showz(z); }
    }
    else if (op == "divexact") {
        res = show(divexact(a, b));
        if (gb0 || !mpz_divisible_p(ga.get_num_mpz_t(), gb.get_num_mpz_t())) g = "G undef";
        else { mpz_class z; mpz_divexact(z.get_mpz_t(), ga.get_num_mpz_t(), gb.get_num_mpz_t()); g = showz(z); }
    }
    else return "BAD";
    out << res << " ; " << sta << " " << stb << " ; " << g;
    return out.str();
}

int main() {
    std::ios::sync_with_stdio(false);
    std::string line;
    while (std::getline(std::cin, line)) {
        if (!line.empty() && line[0] == '!') {
            std::cout.flush();
            pid_t pid = fork();
            if (pid == 0) {
                std::string r = run(line.substr(1));
                std::cout << r << " $\n";
                std::cout.flush();
                _exit(0);
            }
            int st = 0;
            waitpid(pid, &st, 0);
            if (WIFSIGNALED(st)) std::cout << "CRASH " << WTERMSIG(st) << " $\n";
            else if (!WIFEXITED(st) || WEXITSTATUS(st) != 0) std::cout << "CRASH exit $\n";
            std::cout.flush();
        } else {
            std::cout << run(line) << " $\n";
        }
    }
    std::cout.flush();
    return 0;
}
