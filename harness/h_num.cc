// C16 tie: literal classification, stringToRational, ArithLogic::mkConst and the printers of the
// working tree.  stdin/stdout: the protocol of ocaml/num_driver.ml (commands L and P).
// Compiled with -DNDEBUG like the library (normalize() carries an assert on mpq_set_str's result).
#include <ArithLogic.h>
#include <StringConv.h>
#include <iostream>
#include <sstream>
#include <memory>
#include <csetjmp>
#include <csignal>
#include <smt2newcontext.h>
using namespace opensmt;
#include <smt2newparser.hh>      // generated: token numbers, YYSTYPE, YYLTYPE  (-I <build>/src/parsers/smt2new)
int osmt_yylex(YYSTYPE * lvalp, YYLTYPE * llocp, void * scanner);
static sigjmp_buf jb_outer, jb;
static sigjmp_buf * current = &jb_outer;
static void onsig(int) { siglongjmp(*current, 1); }

struct Logics {
    ArithLogic lra{Logic_t::QF_LRA}, lia{Logic_t::QF_LIA}, lira{Logic_t::QF_LIRA};
};

static std::string mk(ArithLogic & logic, std::string const & s, bool & broken) {
    std::ostringstream o;
    current = &jb;
    if (sigsetjmp(jb, 1) == 0) {
        try {
            PTRef t = logic.mkConst(s.c_str());
            if (logic.isNumConst(t))
                o << (logic.yieldsSortInt(t) ? "Int " : "Real ") << logic.getNumConst(t).get_str() << " " << logic.termToSMT2String(t);
            else o << "nonnum-term";
        } catch (ApiException const & e) {
            o << (std::string(e.what()).rfind("Unknown symbol", 0) == 0 ? "nonnum" : "api");
        } catch (strConvException const & e) { o << "strconv"; }
        catch (std::exception const & e) { o << "std:" << e.what(); }
        catch (...) { o << "other"; }
    } else { o << "CRASH"; broken = true; }
    current = &jb_outer;
    return o.str();
}

int main() {
    signal(SIGFPE, onsig);
    signal(SIGABRT, onsig);
    signal(SIGSEGV, onsig);   // Logic::mkConst("/") dereferences args[0] of an empty argument list (PtStore::lookupSymbol)
    auto L = std::make_unique<Logics>();
    unsigned long count = 0;
    std::string line;
    while (std::getline(std::cin, line)) {
        std::string cmd = line.substr(0, 1), arg = line.size() > 2 ? line.substr(2) : "";
        if (arg == "<empty>") arg = "";
        std::ostringstream o;
        if (++count % 50000 == 0) L = std::make_unique<Logics>();
        current = &jb_outer;
        if (sigsetjmp(jb_outer, 1) != 0) {       // a signal outside the guarded calls below: report, start afresh
            std::cout << "CRASH-outside\n";
            L.release();
            L = std::make_unique<Logics>();
            continue;
        }
        if (cmd == "L") {
            o << "I" << isIntString(arg.c_str()) << " R" << isRealString(arg.c_str()) << " S:";
            current = &jb;
            if (sigsetjmp(jb, 1) == 0) {
                try { char * r; stringToRational(r, arg.c_str()); o << r; free(r); }
                catch (strConvException const &) { o << "exc"; }
            } else o << "CRASH";
            current = &jb_outer;
            bool broken = false;
            o << " | " << mk(L->lra, arg, broken);
            o << " | " << mk(L->lia, arg, broken);
            o << " | " << mk(L->lira, arg, broken);
            if (broken) L = std::make_unique<Logics>();   // a longjmp out of mkConst leaves the logic in an unknown state
        } else if (cmd == "P") {
            auto i = arg.find('/');
            FastRational q = FastRational(arg.substr(0, i).c_str()) / FastRational(arg.substr(i + 1).c_str());
            PTRef t = L->lra.mkRealConst(q);
            std::ostringstream fp;
            fp << q;
            o << q.get_str() << " ; " << L->lra.termToSMT2String(t) << " ; - ; " << fp.str() << " ; -";
        } else if (cmd == "Q") {
            auto sp = arg.find(' ');
            std::string a = arg.substr(0, sp), b = arg.substr(sp + 1);
            for (int uf = 0; uf < 2; uf++) {
                try {
                    ArithLogic logic{uf ? Logic_t::QF_UFLIA : Logic_t::QF_LIA};
                    PTRef r = logic.mkEq(logic.mkConst(logic.getSort_int(), a.c_str()), logic.mkConst(logic.getSort_int(), b.c_str()));
                    o << (uf ? " " : "") << (r == logic.getTerm_true() ? "true" : r == logic.getTerm_false() ? "false" : "term");
                } catch (std::exception const &) { o << (uf ? " " : "") << "undef"; }
            }
        } else if (cmd == "T") {
            // the token stream of the generated flex scanner (the rule for unexpected characters calls exit(1):
            // only texts for which the model predicts no ERROR token are sent here)
            std::string buf = arg;
            Smt2newContext ctx(buf.data());
            YYSTYPE lval;
            YYLTYPE lloc;
            bool first = true;
            for (int guard = 0; guard < 100000; guard++) {
                int t = osmt_yylex(&lval, &lloc, ctx.scanner);
                if (t == 0) break;
                char const * name = t == TK_NUM ? "NUM" : t == TK_DEC ? "DEC" : t == TK_HEX ? "HEX" : t == TK_BIN ? "BIN"
                                  : t == TK_SYM ? "SYM" : t == TK_KEY ? "KEY" : t < 256 ? "CHAR" : "KWD";
                o << (first ? "" : " ") << name << ":";
                if (t < 256) o << char(t);
                else if (t == TK_NUM || t == TK_DEC || t == TK_HEX || t == TK_BIN || t == TK_SYM || t == TK_KEY) { o << lval.str; free(lval.str); }
                first = false;
            }
        } else o << "bad";
        std::cout << o.str() << "\n";
    }
}
