#!/usr/bin/env python3
"""Feed a process' standard input through a pipe in chosen chunks so that every chunk boundary is really
seen by the reader's read(2) — without depending on timing.

How: the writer holds the write end of an ordinary pipe.  It writes chunk k with one os.write (chunks are
far below PIPE_BUF = 4096 bytes in the checks, so the write is atomic) and then waits until the pipe is
empty again (ioctl FIONREAD on the pipe — the count is a property of the pipe object, so it can be asked
through the write end) before it writes chunk k+1.  The pipe is empty only when read(2) calls of the
reader have returned every byte written so far; whatever the reader does next, its next read can only
return bytes of chunk k+1.  Hence no read ever returns bytes of two different chunks, and a chunk is
split only when the reader asks for fewer bytes than the chunk holds (the model computes those pieces:
Pipe/PipeModel.v read_pieces).  If the reader exits early the remaining chunks are dropped (EPIPE).

`strace_reads` runs the same feeding under strace -e trace=read and returns the sizes read(0, ...)
returned — used by checks/C20.py to confirm the above on every run (sampled).
"""
import array
import fcntl
import os
import re
import signal
import subprocess
import sys
import tempfile
import termios
import time


def _pending(fd):
    b = array.array("i", [0])
    fcntl.ioctl(fd, termios.FIONREAD, b)
    return b[0]


def feed(cmd, chunks, timeout=20.0, env=None):
    """Run cmd with stdin fed chunk by chunk. Returns dict(rc, out, err, fed, timeout).
    rc < 0: killed by signal -rc.  chunks: list of bytes (empty chunks are skipped)."""
    r, w = os.pipe()
    fo = tempfile.TemporaryFile()
    fe = tempfile.TemporaryFile()
    p = subprocess.Popen(cmd, stdin=r, stdout=fo, stderr=fe, env=env, close_fds=True)
    os.close(r)
    t_end = time.time() + timeout
    fed, timed_out = 0, False
    try:
        for ch in chunks:
            if not ch:
                continue
            try:
                os.write(w, ch)
            except BrokenPipeError:
                break
            fed += 1
            # wait until the reader has taken everything (or is gone)
            spins = 0
            while True:
                try:
                    if _pending(w) == 0:
                        break
                except OSError:
                    break
                if p.poll() is not None:
                    break
                if time.time() > t_end:
                    timed_out = True
                    break
                spins += 1
                if spins > 20:
                    time.sleep(0.0001 if spins < 200 else 0.001)
            if timed_out or p.poll() is not None:
                break
    finally:
        try:
            os.close(w)
        except OSError:
            pass
    try:
        p.wait(timeout=max(0.1, t_end - time.time()))
    except subprocess.TimeoutExpired:
        timed_out = True
        p.kill()
        p.wait()
    fo.seek(0)
    fe.seek(0)
    out, err = fo.read(), fe.read()
    fo.close()
    fe.close()
    return dict(rc=p.returncode, out=out, err=err, fed=fed, timeout=timed_out)


READ_RE = re.compile(r"read\(0, .*\)\s+=\s+(-?\d+)")


def strace_reads(cmd, chunks, timeout=20.0):
    """Sizes returned by read(0, ...) of cmd when fed with chunks (None if strace is unavailable)."""
    with tempfile.NamedTemporaryFile(prefix="pf_strace_", suffix=".txt", delete=False) as tf:
        log = tf.name
    try:
        res = feed(["strace", "-f", "-e", "trace=read", "-o", log] + list(cmd), chunks, timeout=timeout)
        sizes = []
        for line in open(log, errors="replace"):
            m = READ_RE.search(line)
            if m:
                sizes.append(int(m.group(1)))
        return sizes, res
    except FileNotFoundError:
        return None, None
    finally:
        try:
            os.remove(log)
        except OSError:
            pass


if __name__ == "__main__":
    # pipe_feed.py <file> <len,len,...> -- cmd ...     (manual replay of a chunking)
    data = open(sys.argv[1], "rb").read()
    lens = [int(x) for x in sys.argv[2].split(",")] if sys.argv[2] != "-" else [len(data)]
    cmd = sys.argv[sys.argv.index("--") + 1:]
    chunks, i = [], 0
    for n in lens:
        chunks.append(data[i:i + n])
        i += n
    if i < len(data):
        chunks.append(data[i:])
    r = feed(cmd, chunks)
    sys.stdout.buffer.write(r["out"])
    sys.stderr.buffer.write(r["err"])
    sys.exit(r["rc"] if r["rc"] >= 0 else 128 - r["rc"])
