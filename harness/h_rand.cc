// C23: the seeded generator of src/common/Random.h run on given seeds.  stdin: lines "seed size n"; stdout: for each line
// n pairs "state irand" (state after the call, printed as an integer; irand(seed, size) result), space separated.
#include <common/Random.h>
#include <cstdio>
int main() {
    double seed; int size, n;
    while (std::scanf("%lf %d %d", &seed, &size, &n) == 3) {
        for (int i = 0; i < n; ++i) {
            int r = opensmt::irand(seed, size);
            std::printf("%.0f %d ", seed, r);
        }
        std::printf("\n");
    }
    return 0;
}
