// C27 tie: constant folding of div/mod through the public ArithLogic API.
// stdin: "n d" per line (decimal integers); stdout: "<div> <mod>" with exc for an exception.
#include <ArithLogic.h>
#include <iostream>
#include <sstream>
#include <string>
using namespace opensmt;
int main() {
    ArithLogic logic{Logic_t::QF_LIA};
    std::string line;
    while (std::getline(std::cin, line)) {
        std::istringstream is(line);
        std::string n, d;
        is >> n >> d;
        std::string rd, rm;
        try {
            PTRef tn = logic.mkIntConst(FastRational(n.c_str()));
            PTRef td = logic.mkIntConst(FastRational(d.c_str()));
            try {
                PTRef r = logic.mkIntDiv(tn, td);
                rd = logic.isNumConst(r) ? logic.getNumConst(r).get_str() : "term";
            } catch (std::exception const &) { rd = "exc"; }
            try {
                PTRef r = logic.mkMod(tn, td);
                rm = logic.isNumConst(r) ? logic.getNumConst(r).get_str() : "term";
            } catch (std::exception const &) { rm = "exc"; }
        } catch (...) { rd = rm = "crash"; }
        std::cout << rd << " " << rm << "\n";
    }
}
