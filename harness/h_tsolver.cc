// C22 / C29 tie: theory solvers driven through their TSolverHandler exactly as THandler does
// (TSolverHandler::declareAtom, TSolverHandler::assertLit = one backtrack point per asserted literal,
// popBacktrackPoints(n) on every solver of the schedule, TSolverHandler::check, getConflict of the
// solver that has an explanation, getDeduction), and STPSolver::parseRef on single atoms.
//
// stdin: blocks
//   seq <id> <LRA|LIA|IDL|RDL|UF|AX>
//   sort <name>                         uninterpreted sort (UF, AX)
//   asort <name> <index sort> <element sort>   array sort name (AX)
//   fun <name> <result sort> <arg sorts...>   (0 args = constant / variable)
//   atom <SMT-LIB literal>              pool literal k (k = order of appearance)
//   ops <op> <op> ...                   D<k> declare | A<k>+ / A<k>- assert literal k positively / negated |
//                                       X<j> assert the (j mod n)-th pending theory deduction | G drain deductions |
//                                       B<n> backtrack n literals | C0 / C1 check(complete) | F fresh-instance verdict
//   end
// and single lines
//   P <I|R> <SMT-LIB literal over x0..x9>     parseRef of the (normalised) atom
// stdout: a log, one line per performed step (see the check for the grammar).
#include <string>
#include <vector>
#include <iostream>
#include <sstream>
#include <unordered_map>
#include <memory>
#include <map>
#include <set>
#include <span>
#include <optional>
#include <functional>
#include <algorithm>
#include <stdexcept>
#include <cassert>
#include <cstring>
#include <variant>
#include <unordered_set>
#include <iosfwd>
#include <list>
#include <array>
#include <stack>
#include <concepts>
#include <numeric>
#define private public
#define protected public
#include <options/SMTConfig.h>
#include <logics/ArithLogic.h>
#include <logics/Logic.h>
#include <tsolvers/TSolverHandler.h>
#include <tsolvers/LATHandler.h>
#include <tsolvers/UFTHandler.h>
#include <tsolvers/IDLTHandler.h>
#include <tsolvers/RDLTHandler.h>
#include <tsolvers/ArrayTHandler.h>
#include <tsolvers/lasolver/LASolver.h>
#include <tsolvers/stpsolver/STPSolver.h>
#include <tsolvers/stpsolver/SafeInt.h>
#include <tsolvers/lasolver/Delta.h>
#include <tsolvers/egraph/Egraph.h>
#undef private
#undef protected
using namespace opensmt;

// The explicit specialisations of IDLSolver.h / RDLSolver.h are non-inline definitions that are part of
// the library already (IDLTHandler.o / RDLTHandler.o): declare, do not redefine.
namespace opensmt {
template<> SafeInt Converter<SafeInt>::getValue(Number const & val);
template<> SafeInt Converter<SafeInt>::getValue(ptrdiff_t val);
template<> SafeInt Converter<SafeInt>::negate(SafeInt const & val);
template<> std::string Converter<SafeInt>::show(SafeInt const & val);
template<> void STPSolver<SafeInt>::fillTheoryFunctions(ModelBuilder & modelBuilder) const;
template<> Delta Converter<Delta>::getValue(Number const & val);
template<> Delta Converter<Delta>::getValue(ptrdiff_t val);
template<> Delta Converter<Delta>::negate(Delta const & val);
template<> std::string Converter<Delta>::show(Delta const & val);
template<> void STPSolver<Delta>::fillTheoryFunctions(ModelBuilder & modelBuilder) const;
}

// ------------------------------------------------------------------ s-expressions
struct Sx { std::string atom; std::vector<Sx> kids; bool isAtom = false; };
static std::vector<std::string> tokenize(std::string const & s) {
    std::vector<std::string> t; std::string cur;
    for (char c : s) {
        if (c == '(' || c == ')') { if (!cur.empty()) { t.push_back(cur); cur.clear(); } t.push_back(std::string(1, c)); }
        else if (isspace((unsigned char)c)) { if (!cur.empty()) { t.push_back(cur); cur.clear(); } }
        else cur += c;
    }
    if (!cur.empty()) t.push_back(cur);
    return t;
}
static Sx parseSx(std::vector<std::string> const & t, size_t & i) {
    if (i >= t.size()) throw std::runtime_error("sx: eof");
    if (t[i] == "(") {
        Sx s; ++i;
        while (i < t.size() && t[i] != ")") s.kids.push_back(parseSx(t, i));
        if (i >= t.size()) throw std::runtime_error("sx: unbalanced");
        ++i; return s;
    }
    if (t[i] == ")") throw std::runtime_error("sx: stray )");
    Sx s; s.isAtom = true; s.atom = t[i++]; return s;
}

static std::string str(FastRational const & r) { return r.get_str(); }

// ------------------------------------------------------------------ environment of one sequence
struct Env {
    SMTConfig config;
    std::string theory;
    std::unique_ptr<Logic> logic;
    ArithLogic * alogic = nullptr;
    std::unique_ptr<TSolverHandler> handler;
    std::map<std::string, SRef> sorts;
    std::map<std::string, SymRef> funs;
    std::map<std::string, PTRef> consts;
    bool lazyVars = false;    // P mode: x<i> becomes a term when it is first met (so that the creation order of
                              // constants and variables, hence the child order of products, can be chosen)

    explicit Env(std::string const & th) : theory(th) {
        Logic_t lt = th == "LRA" ? Logic_t::QF_LRA : th == "LIA" ? Logic_t::QF_LIA : th == "IDL" ? Logic_t::QF_IDL
                   : th == "RDL" ? Logic_t::QF_RDL : th == "UF" ? Logic_t::QF_UF : th == "AX" ? Logic_t::QF_AX : Logic_t::UNDEF;
        if (lt == Logic_t::UNDEF) throw std::runtime_error("unknown theory " + th);
        if (th == "UF" || th == "AX") logic = std::make_unique<Logic>(lt);
        else { auto * l = new ArithLogic(lt); alogic = l; logic.reset(l); }
        sorts["Bool"] = logic->getSort_bool();
        if (alogic) { sorts["Int"] = alogic->getSort_int(); sorts["Real"] = alogic->getSort_real(); }
        handler = makeHandler();
    }
    std::unique_ptr<TSolverHandler> makeHandler() {
        if (theory == "LRA" || theory == "LIA") return std::make_unique<LATHandler>(config, *alogic);
        if (theory == "IDL") return std::make_unique<IDLTHandler>(config, *alogic);
        if (theory == "RDL") return std::make_unique<RDLTHandler>(config, *alogic);
        if (theory == "UF") return std::make_unique<UFTHandler>(config, *logic);
        return std::make_unique<ArrayTHandler>(config, *logic);
    }
    SRef sort(std::string const & n) {
        auto it = sorts.find(n);
        if (it == sorts.end()) throw std::runtime_error("unknown sort " + n);
        return it->second;
    }
    SRef numSort() const { return (theory == "LIA" || theory == "IDL") ? alogic->getSort_int() : alogic->getSort_real(); }
    void declareFun(std::vector<std::string> const & w) {   // fun name res args...
        SRef res = sort(w[2]);
        if (w.size() == 3) { consts[w[1]] = logic->mkVar(res, w[1].c_str()); return; }
        vec<SRef> args;
        for (size_t i = 3; i < w.size(); i++) args.push(sort(w[i]));
        funs[w[1]] = logic->declareFun(w[1], res, args);
    }
    bool isNumeral(std::string const & s) const {
        if (s.empty()) return false;
        for (char c : s) if (!isdigit((unsigned char)c)) return false;
        return true;
    }
    PTRef numeral(FastRational const & v) { return alogic->mkConst(numSort(), v); }
    bool constValue(Sx const & s, FastRational & out) {
        if (s.isAtom) { if (!isNumeral(s.atom)) return false; out = FastRational(s.atom.c_str()); return true; }
        if (s.kids.size() == 2 && s.kids[0].isAtom && s.kids[0].atom == "-") { FastRational a; if (!constValue(s.kids[1], a)) return false; out = -a; return true; }
        if (s.kids.size() == 3 && s.kids[0].isAtom && s.kids[0].atom == "/") {
            FastRational a, b; if (!constValue(s.kids[1], a) || !constValue(s.kids[2], b) || b.isZero()) return false; out = a / b; return true;
        }
        return false;
    }
    PTRef term(Sx const & s) {
        FastRational q;
        if (alogic && constValue(s, q)) return numeral(q);
        if (s.isAtom) {
            if (s.atom == "true") return logic->getTerm_true();
            if (s.atom == "false") return logic->getTerm_false();
            auto it = consts.find(s.atom);
            if (it == consts.end()) {
                if (lazyVars && s.atom.size() >= 2 && s.atom[0] == 'x' && isNumeral(s.atom.substr(1))) {
                    PTRef v = logic->mkVar(numSort(), s.atom.c_str());
                    consts[s.atom] = v;
                    return v;
                }
                throw std::runtime_error("unknown symbol " + s.atom);
            }
            return it->second;
        }
        if (s.kids.empty() || !s.kids[0].isAtom) throw std::runtime_error("bad application");
        std::string const & h = s.kids[0].atom;
        vec<PTRef> a;
        for (size_t i = 1; i < s.kids.size(); i++) a.push(term(s.kids[i]));
        if (h == "not" && a.size() == 1) return logic->mkNot(a[0]);
        if (h == "=" && a.size() == 2) return logic->mkEq(a[0], a[1]);
        if (h == "distinct") return logic->mkDistinct(std::move(a));
        if (h == "select") return logic->mkSelect(std::move(a));
        if (h == "store") return logic->mkStore(std::move(a));
        if (alogic) {
            if (h == "+") return alogic->mkPlus(std::move(a));
            if (h == "-") return a.size() == 1 ? alogic->mkNeg(a[0]) : alogic->mkMinus(std::move(a));
            if (h == "*") return alogic->mkTimes(std::move(a));
            if (h == "<=") return alogic->mkLeq(a);
            if (h == "<") return alogic->mkLt(a);
            if (h == ">=") return alogic->mkGeq(a);
            if (h == ">") return alogic->mkGt(a);
        }
        auto it = funs.find(h);
        if (it == funs.end()) throw std::runtime_error("unknown function " + h);
        return logic->mkUninterpFun(it->second, std::move(a));
    }
    PTRef termOfText(std::string const & text) {
        auto toks = tokenize(text);
        size_t i = 0;
        Sx s = parseSx(toks, i);
        if (i != toks.size()) throw std::runtime_error("trailing tokens");
        return term(s);
    }
};

// ------------------------------------------------------------------ one sequence
struct PoolLit { PTRef atom = PTRef_Undef; bool flip = false; bool usable = false; bool declared = false; };

struct Runner {
    Env & env;
    TSolverHandler & h;
    std::vector<PoolLit> & pool;
    std::vector<std::pair<int, bool>> stack;   // (pool index, requested sign)
    bool conflict = false;
    unsigned sinceCheck = 0;                    // literals asserted since the last check: CoreSMTSolver::checkTheory calls
                                                // check right after assertLits, and a conflict backjumps over the whole
                                                // current decision level, so a backtrack never keeps part of an unchecked batch
    std::vector<int> conflictExpl;              // positions? -> pool indices of the explanation
    struct Ded { int idx; bool sign; size_t depth; };
    std::vector<Ded> pending;
    // the declarations and the assertions that are still in force, in the order they happened (for the second kind of fresh
    // instance, which keeps the late declarations where they were relative to the surviving assertions)
    struct Hist { bool isDecl; int k; bool sign; };
    std::vector<Hist> hist;
    bool lateDecl = false;
    std::ostream & out;

    Runner(Env & e, TSolverHandler & hh, std::vector<PoolLit> & p, std::ostream & o) : env(e), h(hh), pool(p), out(o) {}

    int poolIndexOf(PTRef atom) const {
        for (size_t i = 0; i < pool.size(); i++) if (pool[i].usable && pool[i].atom == atom) return (int)i;
        return -1;
    }
    bool onStack(int k) const { for (auto & e : stack) if (e.first == k) return true; return false; }
    // literal "k:+/-" in terms of the pool literal (not of the atom)
    std::string litStr(PtAsgn a) const {
        int k = poolIndexOf(a.tr);
        if (k < 0) return "?" + env.logic->termToSMT2String(a.tr) + (a.sgn == l_True ? ":+" : ":-");
        bool s = (a.sgn == l_True) != pool[k].flip;
        return std::to_string(k) + (s ? ":+" : ":-");
    }
    std::string explanation() {
        vec<PtAsgn> ex;
        bool found = false;
        for (auto * s : h.solverSchedule) { if (s->hasExplanation()) { s->getConflict(ex); found = true; break; } }
        std::string r = found ? "" : " noexpl";
        conflictExpl.clear();
        for (PtAsgn a : ex) { r += " " + litStr(a); conflictExpl.push_back(poolIndexOf(a.tr)); }
        return r;
    }
    void dumpLA(bool withStore);
    void dumpDL();

    void doDeclare(int k) {
        if (k < 0 || k >= (int)pool.size() || !pool[k].usable || pool[k].declared) { out << "skip D" << k << "\n"; return; }
        h.declareAtom(pool[k].atom);
        pool[k].declared = true;
        for (auto & e : hist) if (!e.isDecl) lateDecl = true;
        hist.push_back({true, k, false});
        out << "decl " << k << "\n";
        dumpLA(true);
    }
    void doAssert(int k, bool sign) {
        if (conflict || k < 0 || k >= (int)pool.size() || !pool[k].declared || onStack(k)) { out << "skip A" << k << "\n"; return; }
        lbool sgn = (sign != pool[k].flip) ? l_True : l_False;
        bool res = h.assertLit(PtAsgn(pool[k].atom, sgn));
        stack.push_back({k, sign});
        hist.push_back({false, k, sign});
        ++sinceCheck;
        out << "assert " << k << (sign ? ":+" : ":-") << " -> " << (res ? 1 : 0);
        if (!res) { conflict = true; out << " expl" << explanation(); }
        out << "\n";
        if (env.theory == "LRA" || env.theory == "LIA") {
            // which bound of the store this literal is (LASolver::assertLit: p.pos / p.neg of the atom)
            LASolver * la = static_cast<LASolver *>(h.solverSchedule[0]);
            LABoundRefPair p = la->getBoundRefPair(pool[k].atom);
            LABound const & b = la->boundStore[sgn == l_False ? p.neg : p.pos];
            out << "labound " << b.getId() << " " << b.getLVRef().x << " " << (b.getType() == bound_u ? "U" : "L") << "\n";
        }
        dumpLA(false); dumpDL();
    }
    void doBacktrack(unsigned n) {
        if (n > stack.size()) n = stack.size();
        if (n > 0 && n < sinceCheck) n = sinceCheck;
        if (conflict) {
            // the SAT solver retracts at least one literal of the conflict (and at least the last literal)
            unsigned need = 1;
            int top = -1;
            for (size_t p = 0; p < stack.size(); p++) for (int e : conflictExpl) if (stack[p].first == e) top = std::max(top, (int)p);
            if (top >= 0) need = stack.size() - top;
            n = std::max(n, need);
            if (n > stack.size()) n = stack.size();
        }
        if (n == 0) { out << "skip B0\n"; return; }
        for (auto * s : h.solverSchedule) s->popBacktrackPoints(n);
        stack.resize(stack.size() - n);
        for (unsigned removed = 0, i = hist.size(); i-- > 0 && removed < n;) if (!hist[i].isDecl) { hist.erase(hist.begin() + i); ++removed; }
        sinceCheck = 0;
        conflict = false; conflictExpl.clear();
        pending.erase(std::remove_if(pending.begin(), pending.end(), [&](Ded const & d) { return d.depth > stack.size(); }), pending.end());
        out << "back " << n << "\n";
        dumpLA(false); dumpDL();
    }
    void doCheck(bool complete) {
        if (conflict) { out << "skip C\n"; return; }
        TRes r = h.check(complete);
        if (r != TRes::UNSAT) sinceCheck = 0;   // after a conflict the whole unchecked batch (= the current decision level) is retracted
        bool splits = false;
        for (auto * s : h.solverSchedule) if (s->hasNewSplits()) splits = true;
        out << "check " << (complete ? 1 : 0) << " -> " << (r == TRes::SAT ? "SAT" : r == TRes::UNSAT ? "UNSAT" : "UNKNOWN");
        if (splits) {
            // as THandler::getNewSplits does: the first solver with splits hands them over (and forgets them)
            vec<PTRef> sp = h.getSplitClauses();
            out << " splits=" << sp.size();
        }
        if (r == TRes::UNSAT) { conflict = true; out << " expl" << explanation(); }
        out << "\n";
        dumpLA(false); dumpDL();
    }
    void doDeductions() {
        if (conflict) { out << "skip G\n"; return; }
        out << "ded";
        while (true) {
            PtAsgn_reason e = PtAsgn_reason_Undef;
            for (auto * s : h.solverSchedule) { e = s->getDeduction(); if (e.tr != PTRef_Undef) break; }
            if (e.tr == PTRef_Undef) break;
            int k = poolIndexOf(e.tr);
            out << " " << litStr(PtAsgn(e.tr, e.sgn));
            if (k >= 0) pending.push_back({k, (e.sgn == l_True) != pool[k].flip, stack.size()});
        }
        out << "\n";
    }
    void doAssertDeduced(unsigned j) {
        std::vector<Ded> cand;
        for (auto & d : pending) if (!onStack(d.idx)) cand.push_back(d);
        if (conflict || cand.empty()) { out << "skip X\n"; return; }
        Ded d = cand[j % cand.size()];
        doAssert(d.idx, d.sign);
    }
    // a fresh handler given the declared atoms (declaration order = pool order) and only the current stack
    void doFresh() {
        auto fh = env.makeHandler();
        for (auto & p : pool) if (p.declared) fh->declareAtom(p.atom);
        bool ok = true;
        std::string ex;
        for (auto & e : stack) {
            lbool sgn = (e.second != pool[e.first].flip) ? l_True : l_False;
            if (!fh->assertLit(PtAsgn(pool[e.first].atom, sgn))) { ok = false; break; }
        }
        TRes r = TRes::UNSAT;
        bool splits = false;
        if (ok) { r = fh->check(true); for (auto * s : fh->solverSchedule) if (s->hasNewSplits()) splits = true; }
        out << "fresh -> " << (r == TRes::SAT ? "SAT" : r == TRes::UNSAT ? "UNSAT" : "UNKNOWN") << (splits ? " splits" : "") << "\n";
        if (env.theory == "LRA" || env.theory == "LIA") {
            LASolver * la = static_cast<LASolver *>(fh->solverSchedule[0]);
            if (la->status != LASolver::INIT) { out << "freshbounds"; dumpBoundsByValue(*la); out << "\n"; }
        }
        if (lateDecl) {
            // second fresh instance: only the surviving assertions, the declarations where they were relative to them
            auto lh = env.makeHandler();
            bool ok2 = true;
            for (auto & e : hist) {
                if (e.isDecl) { lh->declareAtom(pool[e.k].atom); continue; }
                lbool sgn = (e.sign != pool[e.k].flip) ? l_True : l_False;
                if (!lh->assertLit(PtAsgn(pool[e.k].atom, sgn))) { ok2 = false; break; }
            }
            TRes r2 = TRes::UNSAT;
            bool splits2 = false;
            if (ok2) { r2 = lh->check(true); for (auto * s : lh->solverSchedule) if (s->hasNewSplits()) splits2 = true; }
            out << "freshlate -> " << (r2 == TRes::SAT ? "SAT" : r2 == TRes::UNSAT ? "UNSAT" : "UNKNOWN") << (splits2 ? " splits" : "") << "\n";
        }
    }
    void dumpBoundsByValue(LASolver & la) {
        LRAModel & m = *la.simplex.model;
        for (size_t v = 0; v < m.int_lbounds.size(); v++) {
            PTRef t = la.laVarMapper.getVarPTRef(LVRef{(unsigned)v});
            out << " [" << env.logic->termToSMT2String(t) << " L";
            for (LABoundRef br : m.int_lbounds[v]) { auto const & b = la.boundStore[br]; out << " " << str(b.getValue().R()) << "," << str(b.getValue().D()); }
            out << " U";
            for (LABoundRef br : m.int_ubounds[v]) { auto const & b = la.boundStore[br]; out << " " << str(b.getValue().R()) << "," << str(b.getValue().D()); }
            out << "]";
        }
    }
};

void Runner::dumpLA(bool withStore) {
    if (env.theory != "LRA" && env.theory != "LIA") return;
    LASolver * la = static_cast<LASolver *>(h.solverSchedule[0]);
    if (la->status == LASolver::INIT) return;
    LRAModel & m = *la->simplex.model;
    // the store is dumped with every state line that follows a change of it (cheap: <= 24 bounds)
    out << "lastore";
    for (auto const & perVar : la->boundStore.bounds) for (LABoundRef br : perVar) {
        LABound const & b = la->boundStore[br];
        out << " " << b.getId() << ":" << b.getLVRef().x << ":" << (b.getType() == bound_u ? "U" : "L") << ":" << b.getIdx().x << ":"
            << str(b.getValue().R()) << ":" << str(b.getValue().D());
    }
    out << "\n";
    out << "lastate lim";
    for (int x : m.bound_limits) out << " " << x;
    out << " trace";
    for (LABoundRef br : m.bound_trace) out << " " << la->boundStore[br].getId();
    for (size_t v = 0; v < m.int_lbounds.size(); v++) {
        out << " | v" << v << " L";
        for (LABoundRef br : m.int_lbounds[v]) out << " " << la->boundStore[br].getId();
        out << " U";
        for (LABoundRef br : m.int_ubounds[v]) out << " " << la->boundStore[br].getId();
    }
    out << "\n";
    out << "labounds"; dumpBoundsByValue(*la); out << "\n";
    (void)withStore;
}

template<class T> static void dumpDLT(std::ostream & out, STPSolver<T> & s) {
    out << "dlstate bp";
    for (auto x : s.backtrack_points) out << " " << x;
    out << " ts " << s.graphMgr.timestamp << " added";
    for (EdgeRef e : s.graphMgr.graph.addedEdges) { auto const & ed = s.store.getEdge(e); out << " " << ed.from.x << ">" << ed.to.x << ":" << Converter<T>::show(ed.cost) << "@" << ed.setTime; }
    out << " ded";
    for (EdgeRef e : s.graphMgr.deductions) { auto const & ed = s.store.getEdge(e); out << " " << ed.from.x << ">" << ed.to.x << ":" << Converter<T>::show(ed.cost) << "@" << ed.setTime; }
    out << " true";
    for (uint32_t i = 0; i < s.store.edgeNum(); i++) { auto const & ed = s.store.getEdge(EdgeRef{i}); if (ed.setTime != 0) out << " " << i; }
    out << "\n";
}
void Runner::dumpDL() {
    if (env.theory == "IDL") dumpDLT(out, *static_cast<STPSolver<SafeInt> *>(h.solverSchedule[0]));
    else if (env.theory == "RDL") dumpDLT(out, *static_cast<STPSolver<Delta> *>(h.solverSchedule[0]));
}

// ------------------------------------------------------------------ P mode: parseRef of one atom
template<class T> static std::string parseOne(Env & env, PTRef atom) {
    ArithLogic & logic = *env.alogic;
    STPSolver<T> solver(env.config, logic);
    Pterm const & leq = logic.getPterm(atom);
    PTRef rhs = leq[1];
    std::vector<PTRef> kids;
    if (logic.isPlus(rhs)) for (PTRef c : logic.getPterm(rhs)) kids.push_back(c); else kids.push_back(rhs);
    auto nodeName = [&](PTRef t) -> std::string {
        if (logic.isNumVar(t)) return "var:" + logic.termToSMT2String(t);
        if (logic.isTimes(t)) {
            Pterm const & m = logic.getPterm(t);
            // which child is the constant
            if (m.size() == 2 && logic.isNumConst(m[0]) && logic.isNumVar(m[1])) return "times:" + str(logic.getNumConst(m[0])) + ":" + logic.termToSMT2String(m[1]);
            if (m.size() == 2 && logic.isNumConst(m[1]) && logic.isNumVar(m[0])) return "timesrev:" + str(logic.getNumConst(m[1])) + ":" + logic.termToSMT2String(m[0]);
        }
        return "node?";
    };
    std::string res = "atom c=" + str(logic.getNumConst(leq[0])) + " rhs=" + (logic.isPlus(rhs) ? "plus" : "single");
    for (PTRef k : kids) res += " " + nodeName(k);
    res += " | ";
    auto vertexName = [&](PTRef t) -> std::string {
        if (t == PTRef_Undef) return "undef";
        for (PTRef k : kids) {
            if (t == k) return nodeName(k);
            if (logic.isTimes(k)) for (PTRef c : logic.getPterm(k)) {
                if (t == c && logic.isNumVar(c)) return "var:" + logic.termToSMT2String(c);
                if (t == c && logic.isNumConst(c)) return "const:" + str(logic.getNumConst(c));
            }
        }
        return "other";
    };
    try {
        auto p = solver.parseRef(atom);
        res += "x=" + vertexName(p.x) + " y=" + vertexName(p.y) + " c=" + Converter<T>::show(p.c);
    } catch (std::exception const & e) {
        res += std::string("throw ") + e.what();
    }
    return res;
}

int main() {
    std::string line;
    std::unique_ptr<Env> env;
    std::vector<PoolLit> pool;
    while (std::getline(std::cin, line)) {
        std::istringstream is(line);
        std::vector<std::string> w;
        for (std::string t; is >> t;) w.push_back(t);
        if (w.empty()) continue;
        try {
            if (w[0] == "P" && w.size() >= 3) {
                Env e(w[1] == "I" ? "IDL" : "RDL");
                e.lazyVars = true;
                std::string text = line.substr(line.find(w[1]) + w[1].size());
                PTRef t = e.termOfText(text);
                bool flip = false;
                if (e.logic->isNot(t)) { t = e.logic->getPterm(t)[0]; flip = true; }
                if (!e.alogic->isLeq(t)) { std::cout << "notleq " << (t == e.logic->getTerm_true() ? "true" : t == e.logic->getTerm_false() ? "false" : "other") << "\n"; continue; }
                std::cout << (flip ? "neg " : "pos ") << (w[1] == "I" ? parseOne<SafeInt>(e, t) : parseOne<Delta>(e, t)) << "\n";
            } else if (w[0] == "seq" && w.size() == 3) {
                env = std::make_unique<Env>(w[2]);
                pool.clear();
                std::cout << "seq " << w[1] << " " << w[2] << "\n";
            } else if (!env) {
                std::cout << "bad no-seq\n";
            } else if (w[0] == "sort" && w.size() == 2) {
                env->sorts[w[1]] = env->logic->declareUninterpretedSort(w[1]);
            } else if (w[0] == "asort" && w.size() == 4) {
                env->sorts[w[1]] = env->logic->getArraySort(env->sort(w[2]), env->sort(w[3]));
            } else if (w[0] == "fun" && w.size() >= 3) {
                env->declareFun(w);
            } else if (w[0] == "atom") {
                PoolLit p;
                std::string text = line.substr(line.find("atom") + 4);
                std::string note;
                try {
                    PTRef t = env->termOfText(text);
                    if (env->logic->isNot(t)) { t = env->logic->getPterm(t)[0]; p.flip = true; }
                    p.atom = t;
                    bool valid = false;
                    for (auto * s : env->handler->solverSchedule) if (s->isValid(t)) valid = true;
                    if (t == env->logic->getTerm_true() || t == env->logic->getTerm_false()) note = "const";
                    else if (!valid) note = "invalid";
                    else {
                        bool dup = false;
                        for (auto & q : pool) if (q.usable && q.atom == t) dup = true;
                        if (dup) note = "duplicate"; else { p.usable = true; note = std::string("ok flip=") + (p.flip ? "1 " : "0 ") + env->logic->termToSMT2String(t); }
                    }
                } catch (std::exception const & e) { note = std::string("error ") + e.what(); }
                std::cout << "atom " << pool.size() << " " << note << "\n";
                pool.push_back(p);
            } else if (w[0] == "ops") {
                Runner r(*env, *env->handler, pool, std::cout);
                for (size_t i = 1; i < w.size(); i++) {
                    std::string const & o = w[i];
                    char c = o[0];
                    if (c == 'D') r.doDeclare(std::stoi(o.substr(1)));
                    else if (c == 'A') r.doAssert(std::stoi(o.substr(1, o.size() - 2)), o.back() == '+');
                    else if (c == 'X') r.doAssertDeduced((unsigned)std::stoul(o.substr(1)));
                    else if (c == 'G') r.doDeductions();
                    else if (c == 'B') r.doBacktrack((unsigned)std::stoul(o.substr(1)));
                    else if (c == 'C') r.doCheck(o.substr(1) == "1");
                    else if (c == 'F') r.doFresh();
                    else std::cout << "bad op " << o << "\n";
                    std::cout.flush();
                }
            } else if (w[0] == "end") {
                std::cout << "end\n";
                env.reset();
            } else {
                std::cout << "bad " << w[0] << "\n";
            }
        } catch (std::exception const & e) {
            std::cout << "exception " << e.what() << "\n";
        }
        std::cout.flush();
    }
    return 0;
}
