"""C07 — minimal unsat cores are irreducible."""
import concurrent.futures as cf
import glob
import json
import os
import random

import vlib
import smtlib
import solvercheck as sc
import corecheck as cc
import scriptgen_cores as G
from smtlib import sx_str, read_all, ParseError

META = dict(
    title="Minimal unsat cores are irreducible",
    category="proof",
    technique="Coq proof of the deletion-based minimisation loop (performNaive written literally over an abstract inner solver) + "
              "per-run decisive check of every reported minimal core with the Coq-verified SMT-LIB evaluator + replay of the traced "
              "inner checks on the extracted model",
    level_text="FULL for the algorithm: Properties_C07.v proves, for every background list, every target list and every correct inner "
               "solver (chk S = true <-> sat S for any monotone sat), that UnsatCoreBuilder::Minimize::performNaive returns an "
               "order-preserving sublist of the targets that is unsatisfiable with the background and becomes satisfiable when any "
               "one element is dropped (c07_irreducible, c07_minimal, c07_subset), for minimize in full and in named mode "
               "(c07_minimize_full, c07_minimize_named); the named-mode statement needs that no unnamed assertion's term carries a "
               "name, and is refuted without it (c07_named_also_unnamed_refuted, reproduced: known finding). Correctness of the inner "
               "solver's answers is established PER RUN: for each reported minimal core each drop-one set is certified satisfiable by "
               "the verified evaluator on a model proposed by z3 or opensmt; that the core with the background is unsatisfiable is "
               "ORACLE-ONLY (z3 and cvc5 agree). Tie: with the hook proposed_hooks/C07_minimize.diff every inner check (asserted list, "
               "answer) and the result are replayed exactly on the extracted model, and the model is re-run with z3 as the oracle; "
               "without the hook the model is re-run with z3 on the targets of a twin run without minimisation.",
    level_note="Trusted: Coq kernel; coq/Sem as the SMT-LIB semantics; extraction; ocaml/core_driver.ml, ocaml/sem_driver.ml; lib/smtlib.py, "
               "lib/solvercheck.py, lib/corecheck.py, lib/scriptgen_cores.py; the trace hook (prints PTRef numbers). z3/cvc5 are untrusted: "
               "they propose models (then verified) and give the ORACLE-ONLY unsat side. Not modelled: MainSolver used as the inner solver.",
    design_ref="DESIGN.md §7 C07, design/C07.md",
    trusted_base=["Coq 8.16.1 kernel", "coq/Sem/Eval.v (SMT-LIB semantics) for the certified satisfiable side",
                  "extraction: ExtrOcamlBasic, ExtrOcamlString only", "ocaml/core_driver.ml, ocaml/sem_driver.ml",
                  "lib/smtlib.py, lib/solvercheck.py, lib/corecheck.py (script interpretation: assertion stack, names, options)",
                  "z3 4.8.12 + cvc5 1.0.3 only for the unsat side (labelled ORACLE-ONLY) and as model proposers"],
    assumptions=["the inner solver answers correctly (checked per run on every drop-one set, certified; on the core itself by oracles)",
                 "generated scripts are well-sorted SMT-LIB with all declarations first"],
    rule="lib/scriptgen_cores.py: contradiction kits (implication chains, case splits, pigeonhole 3/2, difference cycles, bounds, sums, "
         "disjunctive arithmetic, congruence chains and diamonds) + redundant consequences + duplicates + noise, spread over 2-12 named and "
         "unnamed assertions, QF_UF / QF_LRA / QF_LIA / propositional, single-query and push/pop histories, :minimal-unsat-cores on, "
         ":print-cores-full on in ~30 %, option toggles in mid-script; case = one (get-unsat-core) answer after unsat with minimisation on; "
         "non-trivial = the minimisation had >= 2 targets or the core >= 2 elements; distinct = (script, query index)",
)


def replace_minimal_off(text):
    return text.replace("(set-option :minimal-unsat-cores true)", "(set-option :minimal-unsat-cores false)")


def core_of_answer(ans):
    if isinstance(ans, list) and not (ans and ans[0] == "error"):
        return ans
    return None


def oracle_min(terms_sx, bg, targets, logic, decls):
    """run the extracted performNaive with chk := z3 (untrusted) on lists of ids; returns result ids or None (oracle unknown)"""
    tab = {}
    for _ in range(len(targets) + 2):
        a = cc.driver(["min %s|%s|%s" % (cc.ilist(bg), cc.ilist(targets), cc.table_str(tab))])[0]
        if a.startswith("ok "):
            return cc.parse_ok(a)[0]
        if not a.startswith("missing"):
            raise RuntimeError("driver: " + a)
        L = [int(x) for x in a[8:].split(",")] if a[8:].strip() else []
        v, _ = sc.ref_answer("z3", cc.lg(logic), decls, [terms_sx[i] for i in L])
        if v not in ("sat", "unsat"):
            return None
        tab[tuple(L)] = v == "sat"
    return None


def work(job):
    seed, i, hook = job
    rng = random.Random(seed * 99991 + (i if isinstance(i, int) else 0))
    if isinstance(i, str):
        text = open(i).read()
        meta = dict(logic=None, features=["corpus"], incremental="push" in text)
        import re
        m = re.search(r"\(set-logic (\w+)\)", text)
        meta["logic"] = m.group(1) if m else "QF_UF"
    else:
        text, meta = G.gen_core_script(rng, minimal=(rng.random() < 0.9), risky=0.2)
    out = dict(text=text, meta=meta, records=[], ties=[], counts={})
    def cnt(k, n=1):
        out["counts"][k] = out["counts"].get(k, 0) + n
    trace = os.path.join(vlib.BUILD, "tmp", "c07_%d_%s.trace" % (os.getpid(), abs(hash((seed, str(i))))))
    rc, res, stdout, err = sc.run_aligned(text, timeout=30, trace=trace if hook else None)
    tr = ""
    if hook and os.path.exists(trace):
        tr = open(trace).read()
        os.remove(trace)
    if rc == -9:
        cnt("timeout")
        return out
    if rc not in (0, 1):
        cnt("abnormal-exit(rc=%s)" % rc)
        out["crash"] = dict(rc=rc, stdout=stdout[-400:], stderr=err[-400:])
        return out
    states, sig = cc.interpret(text)
    try:
        nans = len(read_all(stdout))
    except ParseError:
        cnt("unparsable-output")
        return out
    if not res or nans != len(states) or len(res) != len(states):
        cnt("misaligned-output")
        return out
    logic, decls = meta["logic"], sc.decl_lines(text)
    blocks = cc.parse_min_trace(tr) if hook else []
    bi = 0
    last = None
    first_min_done = False
    twin = None
    for si, (st, r) in enumerate(zip(states, res)):
        ans = r[4]
        if st.kind == "check-sat":
            last = ans
            cnt("answer:%s" % (ans if isinstance(ans, str) else "other"))
            if ans == "unsat":
                cc.note_unsat(states, si)
            continue
        if st.kind != "get-unsat-core" or last != "unsat" or not st.opts[":produce-unsat-cores"]:
            continue
        if not st.opts[":minimal-unsat-cores"]:
            continue
        block = None
        if hook:
            block = blocks[bi] if bi < len(blocks) else None
            bi += 1
        core = core_of_answer(ans)
        full = st.opts[":print-cores-full"]
        rec = dict(si=si, full=full, answer=sx_str(ans) if ans is not None else None, skip=None, viol=[], sizes=None, labels=[])
        out["records"].append(rec)
        if core is None:
            rec["skip"] = "no-core-printed"
            continue
        top, unnamed, nest, allb = cc.view(st)
        if full:
            if not all(cc.symbols_known(f, sig) for f in core):
                rec["skip"] = "full-core-has-undeclared-symbols(C06)"
                continue
            cterms, bg = list(core), []
        else:
            if not all(isinstance(n, str) for n in core) or any(n not in top for n in core) or len(set(core)) != len(core):
                rec["skip"] = "name-not-a-current-named-assertion(C06)"
                continue
            cterms, bg = [top[n] for n in core], list(unnamed)
        rec["sizes"] = (len(bg), len(cterms), len(block.targets) if block is not None else None)
        # (a) core + background unsatisfiable  (ORACLE-ONLY)
        uv, ud = cc.judge_unsat(sig, logic, decls, bg + cterms)
        rec["unsat"] = uv
        if uv in ("refuted-certified", "refuted-oracles"):
            cause = "plain"
            if st.unsat_frames_gone:
                cause = "stale-refutation-after-pop"
            elif any(name is not None and cc.has_nonbool_ite(body, sig) for f in st.frames for body, name, _ in f["items"]):
                cause = "named-assertion-with-nonbool-ite"
            rec["viol"].append(("core-not-unsat:%s:%s" % ("full" if full else "named", cause),
                                "the reported minimal core%s is satisfiable (%s)" % ("" if full else " together with all unnamed current assertions", uv),
                                dict(model=ud)))
            continue
        # (b) dropping any single element: certified satisfiable
        for j in range(len(cterms)):
            rest = bg + cterms[:j] + cterms[j + 1:]
            v, how = cc.judge_sat(sig, logic, decls, rest)
            rec["labels"].append(v)
            if v == "unsat-oracles":
                cause = "plain"
                if not full and any(cc.equivalent(logic, decls, cterms[j], u) for u in unnamed):
                    cause = "term-also-asserted-unnamed"
                elif st.unsat_frames_gone:
                    cause = "stale-refutation-after-pop"
                rec["viol"].append(("reducible:%s:%s" % ("full" if full else "named", cause),
                                    "the minimal core %s stays unsatisfiable%s when %s is removed (z3 and cvc5: unsat)" %
                                    (sx_str(core), "" if full else " with the unnamed assertions", sx_str(core[j])),
                                    dict(element=sx_str(core[j]))))
        # ---- ties ----------------------------------------------------------------------------------------------
        if block is not None and block.complete:
            ids = {}
            def cid(x):
                if x not in ids:
                    ids[x] = len(ids)
                return ids[x]
            bgi, tgi = [cid(x) for x in block.bg], [cid(x) for x in block.targets]
            obs = [([cid(x) for x in L], a) for _, L, a in block.checks]
            resi = [cid(x) for x in block.result]
            if any(a == "unknown" for _, a in obs):
                cnt("tie:inner-unknown")
            else:
                tab = {}
                for L, a in obs:
                    tab[tuple(L)] = a == "sat"
                reqs = ["min %s|%s|%s" % (cc.ilist(bgi), cc.ilist(tgi), cc.table_str(tab))]
                if block.mode == "named":
                    reqs.append("mz 0|%s|%s|%s|%s" % (cc.ilist([cid(x) for x in block.current]), cc.ilist([1 if b else 0 for b in block.contains]),
                                                    cc.ilist(tgi), cc.table_str(tab)))
                else:
                    reqs.append("mz 1|||%s|%s" % (cc.ilist(tgi), cc.table_str(tab)))
                A = cc.driver(reqs)
                ok = A[0].startswith("ok ") and A[1].startswith("ok ")
                if ok:
                    R, Lg = cc.parse_ok(A[0])
                    R2, _ = cc.parse_ok(A[1])
                    ok = R == resi and R2 == resi and Lg == [(L, a == "sat") for L, a in obs]
                if not ok:
                    out["ties"].append(("minimize-replay", "extracted performNaive/minimize on the observed answers gives %s; implementation: result %s, checks %s"
                                        % (A, resi, obs), dict(script=text, query=si)))
                else:
                    cnt("tie:replay-exact")
                # the printed core must be the names / formulas of the traced result
                if len(block.result) != len(core):
                    out["ties"].append(("minimize-result-printed", "traced result has %d terms, printed core %d" % (len(block.result), len(core)),
                                        dict(script=text, query=si)))
                # model with z3 as the oracle
                try:
                    tsx = {cid(k): read_all(v)[0] for k, v in block.terms.items() if k in ids}
                    if all(cc.symbols_known(t, sig) for t in tsx.values()):
                        Rz = oracle_min(tsx, bgi, tgi, logic, decls)
                        if Rz is None:
                            cnt("tie:oracle-unknown")
                        elif Rz != resi:
                            if not rec["viol"]:
                                out["ties"].append(("minimize-vs-oracle", "performNaive with z3 as inner solver returns %s, implementation %s (targets %s, bg %s)"
                                                    % (Rz, resi, tgi, bgi), dict(script=text, query=si, terms={k: sx_str(v) for k, v in tsx.items()})))
                        else:
                            cnt("tie:oracle-model-equal")
                    else:
                        cnt("tie:oracle-skipped(undeclared symbols)")
                except ParseError:
                    cnt("tie:oracle-skipped(term unreadable)")
        elif block is not None and not block.begun:
            if len(core) != 0 and not full:
                out["ties"].append(("minimize-empty-targets", "no inner solver was created but the printed core is %s" % sx_str(core), dict(script=text, query=si)))
            else:
                cnt("tie:no-targets")
        elif not hook and not first_min_done and not full:
            # twin run without minimisation: its core, in printing order, is the target list
            clean = not st.popped_names and not nest and not any(cc.has_nonbool_ite(b, sig) for b in allb)
            bodies = {sx_str(sc.strip_named(b)) for b in top.values()}
            clean = clean and not any(sx_str(sc.strip_named(u)) in bodies for u in unnamed)
            if clean:
                if twin is None:
                    twin = sc.run_aligned(replace_minimal_off(text), timeout=30)
                trc, tres = twin[0], twin[1]
                T = core_of_answer(tres[si][4]) if trc in (0, 1) and tres and len(tres) == len(states) else None
                if T is not None and all(isinstance(n, str) and n in top for n in T):
                    tsx = {k: top[n] for k, n in enumerate(T)}
                    nb = len(T)
                    for u in unnamed:
                        tsx[len(tsx)] = u
                    Rz = oracle_min(tsx, list(range(nb, len(tsx))), list(range(nb)), logic, decls)
                    if Rz is None:
                        cnt("tie:oracle-unknown")
                    elif [T[k] for k in Rz] != core:
                        if not rec["viol"]:
                            out["ties"].append(("minimize-vs-oracle(twin run)", "performNaive with z3 on the targets %s of the twin run returns %s, implementation printed %s"
                                                % (T, [T[k] for k in Rz], core), dict(script=text, query=si)))
                    else:
                        cnt("tie:twin-oracle-model-equal")
        first_min_done = True
    if hook and bi != len(blocks):
        out["ties"].append(("minimize-trace-count", "%d minimisations traced, %d minimising get-unsat-core commands answered" % (len(blocks), bi), dict(script=text)))
    return out


def run(ctx):
    hook = cc.hook_present()
    ctx.note("minimisation trace hook (proposed_hooks/C07_minimize.diff) %s" % ("present: exact replay of the inner checks" if hook else
             "absent: twin-run tie only"))
    cc.core_exe()
    n = 110 if ctx.quick else 1500
    corpus = sorted(glob.glob(os.path.join(vlib.VERIF, "corpus", "C07", "*.smt2")))
    jobs = [(ctx.seed, p, hook) for p in corpus] + [(ctx.seed, i, hook) for i in range(n)]
    with cf.ThreadPoolExecutor(max_workers=14) as ex:
        results = list(ex.map(work, jobs))
    for o in results:
        for k, v in o["counts"].items():
            ctx.count(k, v)
        text, meta = o["text"], o["meta"]
        if "crash" in o:
            ctx.note("abnormal exit on a generated script (C18's business): %s" % json.dumps(o["crash"])[:300])
        for name, detail, case in o["ties"]:
            ctx.tie_broken(name, detail, case)
        for rec in o["records"]:
            mode = "full" if rec["full"] else "named"
            if rec["skip"]:
                ctx.count("skipped:%s" % rec["skip"])
                continue
            nb, nc, nt = rec["sizes"]
            ctx.case(key=(text, rec["si"]), nontrivial=(nc >= 2 or (nt or 0) >= 2),
                     kind="%s:%s:%s" % (meta["logic"], mode, "incr" if meta["incremental"] else "single"),
                     sample=dict(script=text, query_index=rec["si"], core=rec["answer"], background=nb, targets=nt, core_unsat=rec.get("unsat"),
                                 drop_one=rec["labels"]))
            ctx.count("core-size:%d" % nc)
            if nt is not None:
                ctx.count("dropped-by-minimisation:%d" % (nt - nc))
            if rec.get("unsat") == "agree":
                ctx.count("core+background unsat: ORACLE-ONLY (z3 and cvc5 agree)")
            elif rec.get("unsat") == "undecided":
                ctx.count("core+background unsat: undecided")
            for l in rec["labels"]:
                ctx.count("drop-one:%s" % l)
            for sig_, what, extra in rec["viol"]:
                rp = dict(script=text, query_index=rec["si"], printed_core=rec["answer"], features=meta.get("features"))
                rp.update(extra)
                ctx.violation(sig_, what, rp)
