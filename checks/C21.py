"""C21 — names and definitions follow the assertion-stack scopes."""
import glob
import os
import re

import names_tie as nt
import scriptgen_names as sg
import vlib

META = dict(
    title="Names and definitions follow the assertion-stack scopes",
    category="proof",
    technique="Coq proof (TermNames / ScopedVector / DefinedFunctions refine a stack of scopes, for all operation "
              "sequences) + exact correspondence of the extracted models with the real classes (harness) + state-level "
              "and end-to-end comparison of generated push/pop histories",
    level_text="Properties_C21.v: the name tables are a stack of scopes for every operation sequence (names_refine, "
               "names_observations_refine, pop_restores_names, popped_name_reusable, global_persists, define_fun_scoped); "
               "contains(term) is refuted on the code as it is and proved on the repaired variant.  The extracted models "
               "are compared, observation by observation, with the working tree's TermNames/ScopedVector/DefinedFunctions "
               "and, command by command, with the state of the real interpreter; generated histories are run through the "
               "opensmt binary and every printed or accepted name is judged against the scopes.",
    level_note="Trusted: Coq kernel, extraction, ocaml/names_driver.ml, harness/h_names.cc, harness/h_book.cc, "
               "lib/scriptgen_names.py (rendering of abstract commands), lib/names_tie.py.  Modelled, not verified: the C++ "
               "itself.  Names as terms inside assertions are not supported by the interpreter at all and are not generated.",
    design_ref="DESIGN.md §7 C21, design/C21.md",
    trusted_base=["Coq 8.16.1 kernel", "extraction: Require Import ExtrOcamlBasic ExtrOcamlString; no Extract Constant / Inductive of our own",
                  "ocaml/names_driver.ml", "harness/h_names.cc, harness/h_book.cc compiled against the working tree",
                  "lib/scriptgen_names.py, lib/names_tie.py"],
    assumptions=["equal text of generated assertion bodies <=> equal hash-consed term (checked per run through the id bijection)"],
    rule="(i) PRNG operation sequences over tryInsert/pushScope/popScope/eraseTermName/global on-off (8 names, 5 terms) and over "
         "define/push/pop; (ii) PRNG push/pop histories (QF_UF/QF_LRA/QF_LIA; core or interpolation mode; global-declarations "
         "on in ~20%) with top-level and nested :named, define-fun, re-introduced popped names, references to popped/live names "
         "and functions, get-assignment/get-unsat-core/get-interpolants; a case is non-trivial when it contains a pop after a "
         "name or function was introduced; distinct = distinct script text / op sequence",
)


def gen_T(rng, nops):
    NN, NT = 8, 5
    ops, depth = [], 0
    for _ in range(nops):
        r = rng.random()
        if r < 0.42:
            ops.append("i%d,%d" % (rng.randrange(NN), rng.randrange(NT)))
        elif r < 0.60:
            ops.append("u")
            depth += 1
        elif r < 0.80:
            ops.append("o")
        elif r < 0.90:
            ops.append("e%d" % rng.randrange(NN))
        else:
            ops.append("g%d" % (1 if rng.random() < 0.5 else 0))
    return "T %d %d %s" % (NN, NT, " ".join(ops))


def gen_D(rng, nops):
    NF = 6
    ops = []
    for _ in range(nops):
        r = rng.random()
        if r < 0.5:
            ops.append("d%d,%d" % (rng.randrange(NF), 1 if rng.random() < 0.25 else 0))
        elif r < 0.75:
            ops.append("u")
        else:
            ops.append("o")
    return "D %d %s" % (NF, " ".join(ops))


def tie_classes(ctx, exe, hn):
    """(i) op-by-op correspondence with the real classes; returns the eraseTermName variant the code matches"""
    rng = ctx.rng
    n = 6000 if ctx.quick else 80000
    cases = ["T 3 3 u i1,2 o", "T 3 3 i0,1 u i1,1 o i1,2 o", "T 3 3 g1 u i0,0 g0 o", "D 3 d0,0 u d1,0 d2,1 d0,0 o o"]
    for _ in range(n):
        cases.append(gen_T(rng, rng.randint(3, 28)) if rng.random() < 0.8 else gen_D(rng, rng.randint(3, 20)))
    inp = "\n".join(cases) + "\n"
    outs = {}
    for v in ("00", "10", "01", "11"):
        rc, out = vlib.sh([exe, v], input=inp, timeout=900)
        outs[v] = out.split("\n")
        if rc or len(outs[v]) < len(cases):
            ctx.tie_broken("names-classes-run", "model variant %s rc %s, %d lines of %d" % (v, rc, len(outs[v]), len(cases)))
            return None
    rci, outi = vlib.sh([hn], input=inp, timeout=900)
    li = outi.split("\n")
    if rci or len(li) < len(cases):
        ctx.tie_broken("names-classes-run", "harness rc %s, %d lines of %d" % (rci, len(li), len(cases)))
        return None
    match = {v: True for v in outs}
    first = {}
    for k, (c, i) in enumerate(zip(cases, li)):
        ms = {v: outs[v][k] for v in outs}
        distinguishing = len(set(ms.values())) > 1
        ctx.case(key=c, nontrivial=(" o" in c), kind="class-ops:" + c[0] + (":variants-differ" if distinguishing else ""),
                 sample=dict(case=c, impl=i[:160]))
        for v in outs:
            if i != ms[v]:
                match[v] = False
                first.setdefault(v, (c, ms[v], i))
    for v in ("00", "10", "01", "11"):
        if match[v]:
            if v != "00":
                ctx.note("TermNames matches the model variant erase-repaired=%s pop-guarded=%s on all %d class-level cases" % (v[0], v[1], len(cases)))
            return v
    c, m, i = first["00"]
    k = next((j for j, (x, y) in enumerate(zip(m.split(" | "), i.split(" | "))) if x != y), -1)
    ctx.tie_broken("names-classes-correspondence",
                   "case %r: op #%d model(as-is)=%r impl=%r" % (c, k, (m.split(" | ") + [""])[k] if k >= 0 else m[:200], (i.split(" | ") + [""])[k] if k >= 0 else i[:200]),
                   dict(case=c))
    return None


CORE_RE = re.compile(r"^\(\s*(.*?)\s*\)$", re.S)


def judge_script(ctx, g, cmds, model, bsegs, tag):
    """property-level judgement of one binary run against the scopes (= the model's name table, names_refine)"""
    for i, c in enumerate(cmds):
        if i >= len(bsegs) or i >= len(model):
            break
        seg = bsegs[i].strip()
        kind = nt.resp_kind(seg)
        mresp, _, mdump = model[i]
        d = nt.parse_dump(mdump)
        replay = dict(script=sg.render(cmds[:i + 1]), command=c.text, output=seg[:400], logic=g.logic, mode=g.mode, global_declarations=g.glob)
        if c.kind.startswith("ref:") and kind != mresp:
            # the model is the stack of scopes here (names_refine / define_fun_scoped): a disagreement is a property failure
            sig = {"ref:dup-name": "named:live-name-accepted-twice", "ref:dup-fun": "define-fun:live-function-redefined",
                   "ref:popped-fun": "define-fun:popped-function-accepted", "ref:popped-name-itp": "get-interpolants:popped-name-accepted"}[c.kind]
            ctx.violation(sig, "%s: %s answered %s, scopes say %s" % (sig, c.text, kind, mresp), replay)
        if c.kind in ("assert", "assert-fun", "define-fun") and kind == "err" and mresp == "ok":
            what = "define-fun" if c.kind == "define-fun" else "named"
            ctx.violation(what + ":introduction-rejected", "%s rejected although every name/function in it is free or defined in the scopes: %s" % (c.text, seg[:200]), replay)
        if c.kind == "get-assignment" and kind == "out":
            printed = re.findall(r"\(\s*([^\s()]+)\s+(?:true|false|unknown)\s*\)", seg)
            live = d["names_order"]
            if printed != live:
                extra = [n for n in printed if n not in live]
                missing = [n for n in live if n not in printed]
                if extra:
                    ctx.violation("get-assignment:popped-name", "get-assignment prints %s which are not in scope (in scope: %s)" % (extra, live), replay)
                elif missing:
                    ctx.violation("get-assignment:live-name-missing", "get-assignment omits live names %s" % missing, replay)
                else:
                    ctx.tie_broken("get-assignment-order", "printed %s, table iteration %s" % (printed, live), replay)
        if c.kind == "get-unsat-core" and kind == "out":
            mo = CORE_RE.match(seg)
            printed = mo.group(1).split() if mo else seg.split()
            for n in printed:
                if n not in d["names_map"]:
                    ctx.violation("unsat-core:popped-name" + (":global" if g.glob else ""),
                                  "get-unsat-core prints %r which names nothing in scope (names in scope: %s)" % (n, sorted(d["names_map"])), replay)
                elif d["names_map"][n] not in d["cur_list"]:
                    if not g.glob:
                        ctx.violation("unsat-core:name-of-non-assertion", "get-unsat-core prints %r whose term is not a current assertion" % n, replay)


def scripts_tie(ctx, exe, hb, erase_variant):
    rng = ctx.rng
    nscripts = 400 if ctx.quick else 6000
    todo = []
    for p in sorted(glob.glob(os.path.join(vlib.VERIF, "corpus", "C21", "*.json"))):
        pass
    for k in range(nscripts):
        g = sg.Gen(rng)
        cmds = g.history(rng.randint(8, 36), bad_refs=0.15)
        todo.append((g, cmds))
    # the hand-found history of DESIGN.md §9 #6 as a generated-form regression (name popped, term still asserted)
    for lg in sg.LOGICS:
        g = sg.Gen(rng, logic=lg, mode="core", glob=False)
        cs = g.header()
        f = ("lit", (0, True))
        nf = ("lit", (0, False))
        t1, a1 = g.aterm(f)
        t2, a2 = g.aterm(f, {}, 0)
        t3, a3 = g.aterm(nf, {}, 1)
        cs += [sg.Cmd("(assert %s)" % t1, "A" + a1, "assert"), sg.Cmd("(push 1)", "U1", "push"),
               sg.Cmd("(assert %s)" % t2, "A" + a2, "assert"), sg.Cmd("(pop 1)", "P1", "pop"),
               sg.Cmd("(assert %s)" % t3, "A" + a3, "assert"), sg.Cmd("(check-sat)", "C?", "check-sat"),
               sg.Cmd("(get-unsat-core)", "K", "get-unsat-core")]
        todo.append((g, cs))
    runs, lines = [], []
    for g, cmds in todo:
        segs, dumps, rc, tail = nt.run_harness(hb, cmds, g.NF)
        runs.append((g, cmds, segs, dumps, rc, tail))
        lines.append(sg.abstract_line(cmds, nt.answers_of(cmds, segs), g.NF))
    ev = erase_variant or "00"
    variant = ev[0] + "000" + ev[1]
    models, mrc = nt.run_model(exe, variant, lines)
    if mrc != 0 or len(models) != len(runs):
        ctx.tie_broken("book-model-run", "driver rc=%s, %d results for %d scripts" % (mrc, len(models), len(runs)))
        return
    ndiff = 0
    for (g, cmds, segs, dumps, rc, tail), model in zip(runs, models):
        text = sg.render(cmds)
        haspop = any(c.kind == "pop" for c in cmds) and any(c.kind in ("define-fun",) or c.meta.get("name") is not None or c.meta.get("inner") for c in cmds)
        ctx.case(key=text, nontrivial=haspop, kind="history:%s:%s%s" % (g.logic, g.mode, ":global" if g.glob else ""),
                 sample=dict(script=text[:600], last_state=dumps[-1] if dumps else ""))
        for c, s in zip(cmds, segs):
            ctx.count("cmd:%s:%s" % (c.kind, nt.resp_kind(s)))
        d = nt.compare(cmds, segs, dumps, model)
        if d:
            ndiff += 1
            if ndiff <= 3:
                ctx.tie_broken("interpreter-state-vs-model", "%s" % d, dict(script=sg.render(cmds[:d["at"] + 1]), diff=d, variant=variant))
        # end-to-end: the same script through the binary
        brc, bsegs, btail, berr = nt.run_binary(cmds)
        if brc < 0 or brc >= 128 or len(bsegs) < len(cmds):
            ctx.tie_broken("binary-run", "opensmt rc=%s after %d of %d commands: %s" % (brc, len(bsegs), len(cmds), berr[:200]), dict(script=text))
            ctx.violation("crash:history", "opensmt terminated abnormally (rc=%s) on a push/pop history" % brc, dict(script=text, rc=brc, stderr=berr[:400]))
            continue
        if [s.strip() for s in bsegs[:len(cmds)]] != [s.strip() for s in segs[:len(cmds)]]:
            k = next(i for i in range(len(cmds)) if bsegs[i].strip() != segs[i].strip())
            ctx.tie_broken("binary-vs-harness-output", "command %d %s: binary %r harness %r" % (k, cmds[k].text, bsegs[k][:200], segs[k][:200]), dict(script=text))
        judge_script(ctx, g, cmds, model, bsegs, "history")


def toggle_scenario(ctx, exe, ev):
    """:global-declarations switched between a push and its pop: the model says popScope is undefined here
    (toggled_global_pop_refuted); on the binary this shows as a crash."""
    for lg in ("QF_UF", "QF_LRA"):
        g = sg.Gen(ctx.rng, logic=lg, mode="core", glob=True)
        cs = g.header()
        t2, a2 = g.aterm(("lit", (0, True)), {}, 0)
        cs += [sg.Cmd("(push 1)", "U1", "push"), sg.Cmd("(assert %s)" % t2, "A" + a2, "assert"),
               sg.Cmd("(set-option :global-declarations false)", "Og0", "opt"), sg.Cmd("(pop 1)", "P1", "pop"),
               sg.Cmd("(check-sat)", "C?", "check-sat")]
        guarded = (ev or "00")[1] == "1"
        models, _ = nt.run_model(exe, (ev or "00")[0] + "000" + (ev or "00")[1], [sg.abstract_line(cs, ["sat"], g.NF)])
        model_ub = bool(models) and any(m[0] == "UB" for m in models[0])
        brc, bsegs, btail, berr = nt.run_binary(cs)
        ctx.case(key="toggle:" + lg, nontrivial=True, kind="global-toggle", sample=dict(script=sg.render(cs), rc=brc, model_undefined=model_ub))
        if model_ub == guarded:
            ctx.tie_broken("toggle-model", "model variant %s: undefined behaviour for the toggled pop = %s" % (ev, model_ub))
        crashed = brc < 0 or brc >= 128
        if crashed:
            ctx.violation("global-toggle:pop-crash", "opensmt crashes (rc=%s) when :global-declarations is switched off between (push) and (pop): "
                          "TermNames::popScope runs ScopedVector::popScope with no open scope" % brc, dict(script=sg.render(cs), rc=brc))
        elif len(bsegs) >= len(cs) and "sat" not in bsegs[len(cs) - 1]:
            ctx.violation("global-toggle:pop-wrong", "after the toggled pop the solver does not answer the trailing check-sat", dict(script=sg.render(cs), out=bsegs[-1][:200]))


def run(ctx):
    exe, log = vlib.build_extracted("names")
    if not exe:
        ctx.tie_broken("extraction-names", log)
        return
    hn, l1 = vlib.compile_harness("h_names", flags=("-DNDEBUG",))   # like the release library: asserts compiled out
    hb, l2 = vlib.compile_harness("h_book", flags=("-DNDEBUG",))
    if not hn or not hb:
        ctx.tie_broken("harness-build", (l1 if not hn else l2))
        return
    variant = tie_classes(ctx, exe, hn)
    ctx.extra["eraseTermName_variant"] = {"0": "as is (entry with empty vector kept)", "1": "repaired", None: "unknown"}[variant[0] if variant else None]
    ctx.extra["popScope_variant"] = {"0": "as is (undefined without an open scope)", "1": "guarded", None: "unknown"}[variant[1] if variant else None]
    scripts_tie(ctx, exe, hb, variant)
    toggle_scenario(ctx, exe, variant)
    if variant and variant[0] == "1":
        ctx.note("contains_term_repaired applies to the working tree; contains_term_refuted describes the previous code")
