"""C13 — preprocessing preserves satisfiability and models."""
import concurrent.futures as cf
import os
import random
import re
import vlib
import scriptgen
import smtlib
import solvercheck as sc
from smtlib import sx_str

META = dict(
    title="Preprocessing preserves satisfiability and models",
    category="proof",
    technique="Coq proofs of the rewrite schemas (substitution with kept equalities, ite / div-mod elimination as conservative extensions, distinct expansion, equality splitting, flattening) + per-run semantic validation of every preprocessed frame traced by the hook",
    level_text="PARTIAL. Proved for all formulas (Properties_C13.v): each rewrite schema used by the pipeline preserves models and satisfiability under its "
               "side condition (fresh auxiliary symbol with a total functional definition; substituted variable not occurring in its definition). "
               "Per run: for every frame the hooked MainSolver reports the conjunction of its assertions O and the formula R handed to the clausifier "
               "(whole-frame and per-partition modes, incremental histories); checked: (conjunction of all R of the active frames) implies every O "
               "[models are preserved] and O-satisfiable implies R-satisfiable [no model lost], with z3/cvc5 as untrusted judges and the verified "
               "evaluator confirming every counter-model. That the C++ rewriters are instances of the schemas is established per run only.",
    level_note="Trusted: Coq kernel, coq/Sem semantics, extraction, lib/smtlib.py, hooks `ins`/`pp` in MainSolver.cc. z3/cvc5 untrusted: an implication "
               "they refute is confirmed by evaluating their model with the Coq-extracted evaluator; an implication they accept is oracle-only.",
    design_ref="DESIGN.md §7 C13, design/C13.md",
    trusted_base=["Coq 8.16.1 kernel", "coq/Sem/Eval.v", "extraction ExtrOcamlBasic/ExtrOcamlString", "lib/smtlib.py, lib/solvercheck.py", "hook MainSolver (ins/pp events, /repo 02d1590)"],
    assumptions=["validity of an implication accepted by both z3 and cvc5 is taken on their word (oracle-only)"],
    rule="lib/scriptgen.py scripts in all model-supporting logics (ite, div/mod by constants, distinct, chained comparisons, UF+arithmetic for purification), "
         "single-query and push/pop, default (whole-frame) and partition-tracking modes (:produce-interpolants / :produce-unsat-cores); a case = one "
         "check-sat with >= 1 preprocessed frame; non-trivial = some R differs syntactically from its O; distinct = (script, mode, check index)",
)

MODES = {"whole-frame": [], "per-partition-itp": [":produce-interpolants true"], "per-partition-cores": [":produce-unsat-cores true"], "no-subst": [":do-substitutions 0"]}


def parse_trace(path):
    """Events of the first MainSolver instance, in order: ('pp', frame, O, R, vars) / ('ins', orig, stored, vars) / ('ms', op, nframes, result)."""
    evs, inst = [], None
    for line in open(path, errors="replace"):
        if not line.startswith(("(pp ", "(ins ", "(ms ")):
            continue
        try:
            sx = smtlib.read_all(line)[0]
        except smtlib.ParseError:
            return None
        if inst is None:
            inst = sx[1]
        if sx[1] != inst:
            continue
        if sx[0] == "pp":
            evs.append(("pp", int(sx[2]), sx[3], sx[4], sx[5]))
        elif sx[0] == "ins":
            evs.append(("ins", sx[2], sx[3], sx[4]))
        else:
            res = None
            for x in sx[3:]:
                if isinstance(x, list) and x and x[0] == "result":
                    res = x[1]
            evs.append(("ms", sx[2], int(sx[3][1]), res))
    return evs


def conj(ts):
    ts = list(ts)
    return ts[0] if len(ts) == 1 else (["and"] + ts if ts else "true")


def one(args):
    seed, idx = args
    rng = random.Random(seed * 32452843 + idx)
    mode = rng.choice(list(MODES))
    uf_family = idx >= 1000000        # directed family: pure QF_UF (UFTheory's own preprocessing: learnt transitivity, distinct), dense in special shapes
    if uf_family:
        mode = rng.choice([m for m in MODES if not m.startswith("per-partition")])
    text, meta = scriptgen.gen_script(rng, incremental=rng.random() < 0.35, queries=(), produce_models=False, options=MODES[mode],
                                      logic="QF_UF" if uf_family else None, p_special=0.6 if uf_family else 0.3,
                                      logics=["QF_UF", "QF_LRA", "QF_LIA", "QF_LIA", "QF_UFLRA", "QF_UFLIA", "QF_UFLIA", "QF_IDL", "QF_RDL", "QF_BOOL"], named=mode.startswith("per-partition") and rng.random() < 0.5)
    tr = os.path.join(vlib.BUILD, "tmp", "c13_%d_%d.trace" % (os.getpid(), idx))
    os.makedirs(os.path.dirname(tr), exist_ok=True)
    if os.path.exists(tr):
        os.remove(tr)
    rc, out, err = vlib.run_opensmt(text, timeout=15, env_extra={"OPENSMT_VERIF_TRACE": tr})
    evs = parse_trace(tr) if os.path.exists(tr) else []
    if os.path.exists(tr):
        os.remove(tr)
    findings, cases = [], []
    if evs is None or rc not in (0, 1):
        return text, meta, mode, rc, evs, findings, cases
    decls = sc.decl_lines(text)
    logic = "QF_UF" if meta["logic"] == "QF_BOOL" else meta["logic"]
    sig0 = sc.Script(text)
    sig0.run()
    sig = sig0.sig
    known = set(sig.funs)
    aux_decls = []

    def note_vars(vs):
        for v in vs:
            n = smtlib.unquote(v[0])
            if n not in known:
                known.add(n)
                aux_decls.append("(declare-fun %s () %s)" % (v[0], v[1]))
                sig.declare_fun(v[0], [], sig.sort_of_sx(v[1]))

    def refuted(assumps, negated, what):
        """Is (assumps and not negated) satisfiable?  -> ('certified'|'oracles'|None, detail)"""
        A = list(assumps) + [["not", negated]]
        v, m = sc.certify_sat_with_oracle_model(sig, logic, decls + aux_decls, A)
        if v == "certified":
            return "certified", sx_str(m)
        if v == "oracle-sat-unconfirmed":
            c, _ = sc.ref_answer("cvc5", logic, decls + aux_decls, A)
            if c == "sat":
                return "oracles", m
        return None, None

    entries, rnd, k = {}, 0, 0
    for e in evs:
        if e[0] == "ins":
            note_vars(e[3])
            if sx_str(e[1]) != sx_str(e[2]):
                how, detail = refuted([e[2]], e[1], "ins")
                cases.append(("ins", True))
                if how:
                    findings.append(("stored-formula-does-not-imply-assertion:%s" % how, "the formula stored for an assertion (after ITE handling) has a model that falsifies the assertion", dict(assertion=sx_str(e[1]), stored=sx_str(e[2]), model=detail)))
        elif e[0] == "pp":
            note_vars(e[4])
            # formulas handed over in earlier rounds for a frame that is still alive stay in the engine (guarded by the
            # frame's literal), so they accumulate until the frame is popped
            ent = entries.get(e[1])
            if ent is None:
                ent = entries[e[1]] = [rnd, e[2], []]
            ent[1] = e[2]
            if sx_str(e[3]) not in [sx_str(x) for x in ent[2]]:
                ent[2].append(e[3])
        elif e[0] == "ms":
            if e[1] == "pop":
                for i in [i for i in entries if i >= e[2]]:
                    del entries[i]
            if e[1] == "check":
                k += 1
                rnd += 1
                act = {i: v for i, v in entries.items() if i < e[2]}
                if not act:
                    continue
                Rs = [r for i in sorted(act) for r in act[i][2]]
                Os = [act[i][1] for i in sorted(act)]
                changed = any(sx_str(conj(act[i][2])) != sx_str(act[i][1]) for i in act)
                cases.append(("check", changed))
                for i in sorted(act):
                    how, detail = refuted(Rs, act[i][1], "pp")
                    if how:
                        findings.append(("preprocessed-does-not-imply-assertions:%s:%s" % (how, mode),
                                         "a model of the formulas handed to the engine falsifies the assertions of frame %d (check %d)" % (i, k),
                                         dict(frame=i, assertions=sx_str(act[i][1]), given=[sx_str(r) for r in Rs], model=detail)))
                        break
                # (3) no model lost: when the given formulas mention no auxiliary symbol, they must follow from the assertions
                if not aux_decls and not any(f[0].startswith("assertions-do-not-imply") for f in findings):
                    for r in Rs:
                        if sx_str(r) in [sx_str(o) for o in Os] or r == "true":
                            continue
                        how, detail = refuted(Os, r, "back")
                        if how:
                            findings.append(("assertions-do-not-imply-preprocessed:%s:%s" % (how, mode),
                                             "a model of the assertions falsifies a formula handed to the engine (check %d): preprocessing adds a fact that does not follow" % k,
                                             dict(assertions=[sx_str(o) for o in Os], given=sx_str(r), model=detail)))
                            break
                zo, _ = sc.ref_answer("z3", logic, decls + aux_decls, Os)
                if zo == "sat":
                    zr, _ = sc.ref_answer("z3", logic, decls + aux_decls, Rs)
                    cr, _ = sc.ref_answer("cvc5", logic, decls + aux_decls, Rs) if zr == "unsat" else ("", None)
                    if zr == "unsat" and cr == "unsat" and all(len(act.get(i, [0, 0, []])[2]) > 0 for i in range(e[2])):
                        findings.append(("preprocessing-loses-satisfiability:oracles:%s" % mode,
                                         "the assertions are satisfiable but the formulas handed to the engine are not (z3 and cvc5; ORACLE-ONLY) at check %d" % k,
                                         dict(assertions=[sx_str(o) for o in Os], given=[sx_str(r) for r in Rs])))
    return text, meta, mode, rc, evs, findings, cases


def run(ctx):
    n = 90 if ctx.quick else 720
    with cf.ThreadPoolExecutor(max_workers=12) as ex:
        results = list(ex.map(one, [(ctx.seed, i) for i in range(n)] + [(ctx.seed, 1000000 + i) for i in range(n // 2)]))
    for text, meta, mode, rc, evs, findings, cases in results:
        if evs is None:
            ctx.tie_broken("pp-trace", "unparsable ins/pp/ms event", dict(script=text))
            continue
        if rc not in (0, 1):
            ctx.count("crash-or-timeout")
            continue
        for j, (kind, changed) in enumerate(cases):
            ctx.case(key=(text, mode, j), nontrivial=changed, kind="%s:%s:%s" % (kind, meta["logic"], mode),
                     sample=dict(script=text, mode=mode) if j == 0 else None)
        for sigt, what, rep in findings:
            rep = dict(rep)
            rep["script"] = text
            ctx.violation(sigt + ":" + meta["logic"], what, rep)
