"""C20 — pipe mode and file mode produce identical results."""
import binascii
import glob
import json
import os
import re
import subprocess
import sys

import vlib

sys.path.insert(0, os.path.join(vlib.VERIF, "harness"))
sys.path.insert(0, os.path.join(vlib.VERIF, "translate"))
import pipe_feed   # noqa: E402
import smtlex      # noqa: E402

META = dict(
    title="Pipe mode and file mode produce identical results",
    category="proof",
    technique="Coq proof (pipe scanner as a fold over read results, lexer start-condition machine, simulation) + "
              "flag logic and lexer rules regenerated from the C++/flex text + exact correspondence of the extracted "
              "model with the opensmt binary fed through a pipe writer that controls every read boundary",
    level_text="Theorems of Properties_C20.v: chunking_irrelevant (all parsers, all chunkings, by induction), "
               "pipe_eq_file_current (every syntactically valid script, every chunking, no guard on string literals: holds for the "
               "tree since fix e573377 + 21cfae2), pipe_frames_eq_file_commands / pipe_eq_file / exit_stops_both, "
               "reader_buffer_invariants; pipe_eq_file_refuted and pipe_eq_file_lone_backslash_refuted are kept as history of "
               "the tree before the fixes (vacuous now). The per-character flag update of Interpret::interpPipe and the start-condition rules of the "
               "lexer are regenerated from the source on every run and the theorems re-proved over them.",
    level_note="Trusted: Coq kernel, extraction (ExtrOcamlBasic, ExtrOcamlString), ocaml/pipe_driver.ml, translate/pipe_flags.py "
               "(statement-level translator for the flag update; token-level comparison of the rest of interpPipe with the "
               "modelled skeleton), translate/lexer_states.py, harness/pipe_feed.py + harness/smtlex.py (test side). Modelled, not "
               "verified: the C++ itself; the bison parser and the command interpreter are parameters of the model "
               "(parse_ok, exits) — that both modes run the same execute() on the same command texts is checked per run.",
    design_ref="DESIGN.md §7 C20, design/C20.md",
    trusted_base=["Coq 8.16.1 kernel", "extraction: Require Import ExtrOcamlBasic ExtrOcamlString; no Extract Constant / Extract Inductive of our own",
                  "ocaml/pipe_driver.ml (hex <-> char list, oracle tables)", "translate/pipe_flags.py, translate/lexer_states.py",
                  "harness/pipe_feed.py (pipe writer waiting on FIONREAD; read sizes confirmed with strace on sampled cases)",
                  "harness/smtlex.py (independent tokenizer used to generate scripts and to predict the output of executed commands)"],
    assumptions=["pending command text stays below 2^30 bytes (int buf_sz doubling is modelled in Z)",
                 "read(2) on standard input returns between 1 and the requested number of bytes, 0 only at end of input"],
    coq_targets=["Extract/Extract_pipe.vo"],
    rule="scripts generated from the PRNG in categories layout (full command mix; comments containing ( ) \" | ;, strings containing "
         "; | ( ) and \\\\ pairs, quoted symbols containing ; \" ( ) and newlines, multi-line tokens, no trailing newline), escq (echo "
         "scripts with \\\" inside literals), lonebs (backslash + ordinary character), crlf, poststop (text after (exit), also "
         "invalid tails); each run as a file and through the pipe writer with the chunkings: one write, all 1-byte, and PRNG split "
         "points (also inside tokens, also longer than the reader's request); non-trivial = script has at least 3 commands and a "
         "delimiter character inside a comment, literal or quoted symbol; distinct = distinct (script, chunking)",
)

B = lambda s: s.encode("latin-1")


def hx(s):
    return binascii.hexlify(B(s)).decode()


def unhx(h):
    return binascii.unhexlify(h).decode("latin-1")


# ------------------------------------------------------------------------------------------------
# translators (before the Coq build)
# ------------------------------------------------------------------------------------------------

def prepare(ctx):
    import pipe_flags
    import lexer_states
    for mod, name in ((pipe_flags, "pipe_flags"), (lexer_states, "lexer_states")):
        try:
            changed, _ = mod.regenerate(vlib.REPO)
            if changed:
                ctx.note("translate/%s.py: generated file changed (model regenerated from the working tree)" % name)
        except mod.TranslatorError as e:
            ctx.tie_broken("translator-" + name, str(e))


# ------------------------------------------------------------------------------------------------
# generator
# ------------------------------------------------------------------------------------------------

COMMENT_BITS = ["(", ")", "\"", "|", ";", "((", "))", "\\", "(echo \"x\")", "(exit)", "a b", "\t", "'", "#"]
STR_PLAIN = ["a", "b c", ";", "|", "(", ")", ";;", "()", ")(", "|x|", "; (exit)", "(check-sat)", "\n", "\t", " ", "\\\\", "'", "#",
             "\r", "\xe9", "%s", "%d"]
QSYM_BITS = ["a", "b", " ", ";", "\"", "(", ")", "\n", "\t", "()", "\";(", "x y", "'", "#", ",", "\r", "\xe9"]
SIMPLE_SYMS = ["p", "q", "r1", "x-y", "a.b", "!z", "_u", "<=>v", "as1", "exitx", "echo2", "let*"]


def gen_comment(rng):
    return ";" + "".join(rng.choice(COMMENT_BITS + [" ", "c", "x"]) for _ in range(rng.randint(0, 6))) + "\n"


def gen_trivia(rng, need_sep=False, heavy=False):
    out = []
    k = rng.choice([0, 0, 1, 1, 2, 3]) if not heavy else rng.randint(1, 4)
    for _ in range(k):
        out.append(rng.choice([" ", " ", "\n", "\t", "  ", "\n\n", None]) or gen_comment(rng))
    s = "".join(out)
    if need_sep and not s:
        s = rng.choice([" ", "\n", "\t"])
    return s


def gen_string(rng, mode):
    """mode: plain (no backslash except pairs), escq (contains \\\"), lonebs (backslash + ordinary char)"""
    bits = [rng.choice(STR_PLAIN) for _ in range(rng.randint(0, 5))]
    if mode == "escq":
        for _ in range(rng.choice([1, 1, 2, 3])):
            bits.insert(rng.randint(0, len(bits)), "\\\"" + rng.choice(["", "(", ")", "(b", ";", "|", ") (", "x"]))
    elif mode == "lonebs":
        for _ in range(rng.choice([1, 1, 2])):
            bits.insert(rng.randint(0, len(bits)), "\\" + rng.choice(["a", "n", " ", "(", ")", ";", "|", "x"]))
    return "\"" + "".join(bits) + "\""


def gen_qsym(rng):
    return "|" + "".join(rng.choice(QSYM_BITS) for _ in range(rng.randint(1, 5))) + "|"


def join_tokens(rng, toks, heavy=False):
    """tokens -> text with random trivia between them (a separator where two tokens would otherwise fuse)"""
    out = []
    for i, t in enumerate(toks):
        if i:
            prev = toks[i - 1]
            need = not (prev in "()" or t in "()" or prev[-1] in "\"|" or t[0] in "\"|")
            out.append(gen_trivia(rng, need_sep=need, heavy=heavy))
        out.append(t)
    return "".join(out)


def gen_script(rng, cat):
    """returns dict(text, cmds=[text of each command incl. leading trivia], cat)"""
    cmds = []   # token lists
    strmode = {"layout": "plain", "crlf": "plain", "poststop": "plain", "escq": "escq", "lonebs": "lonebs"}[cat]
    if cat in ("escq", "lonebs"):
        if rng.random() < 0.5:
            cmds.append(["(", "set-option", ":print-success", rng.choice(["true", "false"]), ")"])
        n = rng.randint(2, 6)
        special = rng.randrange(n)
        for i in range(n):
            m = strmode if (i == special or rng.random() < 0.3) else "plain"
            cmds.append(["(", "echo", gen_string(rng, m), ")"])
        if rng.random() < 0.3:
            cmds.insert(rng.randint(1, len(cmds)), ["(", "exit", ")"])
    else:
        if rng.random() < 0.7:
            cmds.append(["(", "set-option", ":print-success", "true", ")"])
        cmds.append(["(", "set-logic", "QF_UF", ")"])
        syms = []
        for _ in range(rng.randint(1, 4)):
            s = gen_qsym(rng) if rng.random() < 0.6 else rng.choice(SIMPLE_SYMS)
            if s in syms or s.strip("|") in [x.strip("|") for x in syms]:
                continue
            syms.append(s)
            if rng.random() < 0.5:
                cmds.append(["(", "declare-fun", s, "(", ")", "Bool", ")"])
            else:
                cmds.append(["(", "declare-const", s, "Bool", ")"])
        depth, named = 0, 0
        for _ in range(rng.randint(2, 9)):
            r = rng.random()
            if r < 0.3:
                cmds.append(["(", "echo", gen_string(rng, "plain"), ")"])
            elif r < 0.5:
                a = rng.choice(syms)
                if rng.random() < 0.4:
                    named += 1
                    cmds.append(["(", "assert", "(", "!", a, ":named", "n%d" % named, ")", ")"])
                elif rng.random() < 0.5:
                    cmds.append(["(", "assert", "(", "or", a, rng.choice(syms), ")", ")"])
                else:
                    cmds.append(["(", "assert", a, ")"])
            elif r < 0.65:
                cmds.append(["(", "check-sat", ")"])
            elif r < 0.75:
                cmds.append(["(", "set-info", rng.choice([":source", ":notes", ":myattr"]),
                             gen_qsym(rng) if rng.random() < 0.5 else gen_string(rng, "plain"), ")"])
            elif r < 0.85:
                cmds.append(["(", "push", "1", ")"])
                depth += 1
            elif depth > 0:
                cmds.append(["(", "pop", "1", ")"])
                depth -= 1
            else:
                cmds.append(["(", "check-sat", ")"])
        if cat == "poststop" or rng.random() < 0.3:
            pos = rng.randint(2, len(cmds)) if cat == "poststop" else len(cmds)
            cmds.insert(pos, ["(", "exit", ")"])
    parts = []
    for c in cmds:
        parts.append(gen_trivia(rng, heavy=rng.random() < 0.2) + join_tokens(rng, c, heavy=rng.random() < 0.15))
    tail = rng.choice(["", "", "\n", " ", gen_comment(rng), gen_comment(rng)[:-1], "\n\n"])
    text = "".join(parts) + tail
    if cat == "crlf":
        # CR LF line ends outside literals only where the generator put a newline between tokens
        parts = [re.sub(r"\n", "\r\n", p) if ("\"" not in p and "|" not in p) else p for p in parts]
        text = "".join(parts) + tail.replace("\n", "\r\n")
        if "\r" not in text:
            parts[-1] = "\r\n" + parts[-1]
            text = "".join(parts) + tail
    return dict(text=text, cmds=parts, cat=cat, valid=True)


def gen_chunkings(rng, n):
    """list of chunk-length lists"""
    out = [[n]] if n else [[]]
    if n > 1:
        out.append([1] * n)
    for _ in range(2):
        if n < 2:
            break
        k = rng.choice([1, 2, 3, 5, 8, min(n - 1, 20)])
        k = max(1, min(k, n - 1))
        cuts = sorted(rng.sample(range(1, n), k))
        lens, prev = [], 0
        for c in cuts + [n]:
            lens.append(c - prev)
            prev = c
        if lens not in out:
            out.append(lens)
    return out


# ------------------------------------------------------------------------------------------------
# running the binary
# ------------------------------------------------------------------------------------------------

def spawn_retry(f):
    """the shared build directory may be relinking the binary (another check's incremental build)"""
    import time
    for k in range(100):
        try:
            return f()
        except (PermissionError, FileNotFoundError, OSError) as e:
            if isinstance(e, subprocess.TimeoutExpired) or k == 99:
                raise
            time.sleep(0.3)


def run_file(text, timeout=20):
    tmpd = os.path.join(vlib.BUILD, "tmp")
    os.makedirs(tmpd, exist_ok=True)
    path = os.path.join(tmpd, "c20_%d.smt2" % os.getpid())
    with open(path, "wb") as f:
        f.write(B(text))
    try:
        p = spawn_retry(lambda: subprocess.run([vlib.opensmt_bin(), path], stdout=subprocess.PIPE, stderr=subprocess.PIPE, timeout=timeout))
        return p.returncode, p.stdout.decode("latin-1"), p.stderr.decode("latin-1")
    except subprocess.TimeoutExpired:
        return -9, "", "timeout"
    finally:
        os.remove(path)


def run_pipe(text, lens, timeout=20):
    chunks, i = [], 0
    for n in lens:
        chunks.append(B(text[i:i + n]))
        i += n
    r = spawn_retry(lambda: pipe_feed.feed([vlib.opensmt_bin(), "-p"], chunks, timeout=timeout))
    return (-9 if r["timeout"] else r["rc"]), r["out"].decode("latin-1"), r["err"].decode("latin-1")


# ------------------------------------------------------------------------------------------------
# the model
# ------------------------------------------------------------------------------------------------

class Model:
    def __init__(self, exe):
        self.exe = exe

    def query(self, items):
        """items: list of (text, lens or None, bad frames, exit frames or None) -> list of dict"""
        lines = []
        for text, lens, bad, exs in items:
            lines.append("%s %s %s %s" % (hx(text) or "", ",".join(map(str, lens)) if lens else "-",
                                          ",".join(hx(b) for b in bad) if bad else "-",
                                          "-" if exs is None else (",".join(hx(e) for e in exs) or "00")))
        rc, out = vlib.sh([self.exe], input="\n".join(lines) + "\n", timeout=600)
        res = []
        for l in out.strip().split("\n"):
            d = {}
            for f in l.split(" "):
                if "=" in f:
                    k, v = f.split("=", 1)
                    d[k] = v
            res.append(d)
        if rc != 0 or len(res) != len(items):
            raise RuntimeError("model driver failed rc=%s lines=%d/%d: %s" % (rc, len(res), len(items), out[-300:]))
        return res


def parse_events(s):
    if s in ("-", ""):
        return []
    out = []
    for e in s.split(";"):
        if e == "U":
            out.append(("U", ""))
        else:
            k, h = e.split(":", 1)
            out.append((k, unhx(h)))
    return out


class Unpredictable(Exception):
    pass


SILENT = {"set-logic", "declare-fun", "declare-const", "assert", "push", "pop", "set-info", "define-fun", "declare-sort"}


def predict(events):
    """events of the model -> (regex of the expected stdout, expected exit status)"""
    ps, status, segs, logic = False, 0, [], False
    for k, t in events:
        if k == "L":
            segs.append(re.escape(t))
        elif k == "K":
            continue
        elif k == "U":
            segs.append(re.escape('(error "pipe reader: unbalanced parentheses")\n'))
            status = 1
        elif k == "S":
            segs.append(r"At (interactive input|line \d+): syntax error[^\n]*\n" + re.escape('(error "scanner")\n'))
            status = 1
        elif k == "X":
            try:
                cmds, ok, _ = smtlex.split_commands(t)
            except smtlex.LexFatal:
                raise Unpredictable("lexer exit(1) inside an executed frame")
            if not ok:
                raise Unpredictable("executed frame is not a sequence of commands")
            for c in cmds:
                sh = [x[0:2] for x in c]
                head = sh[1][1] if len(sh) > 1 and sh[1][0] == "kw" else None
                if smtlex.is_exit(c):
                    segs.append("success\n" if ps else "")
                    break
                if head == "echo" and len(sh) == 4 and sh[2][0] == "str":
                    segs.append(re.escape(sh[2][1] + "\n"))
                elif head == "set-option" and len(sh) == 5 and sh[2] == ("key", ":print-success") and sh[3][1] in ("true", "false"):
                    ps = sh[3][1] == "true"
                    segs.append("success\n" if ps else "")
                elif head == "check-sat" and len(sh) == 3:
                    if logic:
                        segs.append("sat\n")
                    else:
                        segs.append(re.escape('(error "Illegal command before set-logic: check-sat")\n'))
                        status = 1
                elif head == "set-logic" and not logic:
                    logic = True
                    segs.append("success\n" if ps else "")
                elif head in SILENT and (logic or head == "set-info"):
                    segs.append("success\n" if ps else "")
                else:
                    raise Unpredictable("command %r not in the predictor's table" % head)
    return "".join(segs), status


def cause_of(text):
    """why pipe and file mode may legitimately (= known) differ on this text"""
    try:
        toks, echoed, st = smtlex.tokenize(text, cr_is_ws=True)
    except smtlex.LexFatal:
        return "lexer-fatal"
    escq = False
    for k, v, a, b in toks:
        if k == "str" and re.search(r'(?<!\\)(\\\\)*\\"', text[a + 1:b - 1]):
            escq = True
    if escq:
        return "string-escaped-quote"
    if echoed:
        return "string-lone-backslash"
    if not smtlex.CR_WS and any(k == "ws" and v == "\r" for k, v, _, _ in toks):
        return "cr-not-whitespace"
    return None


def nontrivial(text):
    try:
        toks, _, _ = smtlex.tokenize(text, cr_is_ws=True)
    except smtlex.LexFatal:
        return False
    ncmd = sum(1 for t in toks if t[0] == "kw" and t[1] in smtlex.KEYWORDS[8:])
    tricky = any(k in ("comment", "str", "qsym") and re.search(r'[()";|]', v[1:] if k == "comment" else v) for k, v, _, _ in toks)
    return ncmd >= 3 and tricky


# ------------------------------------------------------------------------------------------------
# the check
# ------------------------------------------------------------------------------------------------

def shrink(text_cmds, differs):
    """greedy removal of commands while the two modes still differ"""
    cur = list(text_cmds)
    changed = True
    while changed and len(cur) > 1:
        changed = False
        for i in range(len(cur)):
            cand = cur[:i] + cur[i + 1:]
            if differs("".join(cand)):
                cur, changed = cand, True
                break
    return "".join(cur)


def run(ctx):
    exe, log = vlib.build_extracted("pipe")
    model = None
    if not exe:
        # the model no longer builds (a proof obligation or the extraction broke): the property itself is still
        # judged on the binary below (file vs pipe on valid scripts), only the model comparisons are skipped
        ctx.tie_broken("extraction-pipe", log)
        esc, lbe, cr_ws = False, True, False
    else:
        model = Model(exe)
        v = model.query([("(exit)", None, [], None)])[0]
        esc, lbe = v["esc"] == "1", v["lbe"] == "1"
        cr_ws = model.query([("\r(exit)", None, [], None)])[0]["valid"] == "1"
    smtlex.LONE_BS_ECHO, smtlex.CR_WS = lbe, cr_ws
    ctx.extra["model_variant"] = dict(scanner_has_string_escape=esc, lexer_echoes_lone_backslash=lbe, cr_is_white_space=cr_ws)
    if esc:
        ctx.note("pipe scanner has a string-escape state: pipe_eq_file_refuted is vacuous, pipe_eq_file needs no escaped-quote guard")
    if not lbe:
        ctx.note("lexer has a rule for a single backslash in literals: pipe_eq_file_lone_backslash_refuted is vacuous, lex_echo is empty")

    rng = ctx.rng
    cases = []
    # corpus first
    for p in sorted(glob.glob(os.path.join(vlib.VERIF, "corpus", "C20", "*.json"))):
        try:
            c = json.load(open(p))
            cases.append(dict(text=unhx(c["script_hex"]), cmds=[unhx(x) for x in c.get("cmds_hex", [])] or None,
                              cat=c.get("cat", "corpus"), valid=c.get("valid", True), chunkings=c.get("chunkings"), name=os.path.basename(p)))
        except Exception as e:
            ctx.note("corpus file %s unreadable: %s" % (p, e))
    counts = dict(layout=60, escq=25, lonebs=15, crlf=6, poststop=20) if ctx.quick else \
        dict(layout=1200, escq=250, lonebs=150, crlf=50, poststop=300)
    for cat, n in counts.items():
        for _ in range(n):
            cases.append(gen_script(rng, cat))
    # invalid tails after exit (model-vs-binary only)
    for _ in range(15 if ctx.quick else 150):
        c = gen_script(rng, "poststop")
        c["text"] += rng.choice([")", "))", "(foo)", " (check-sat", "(echo \"x\") )", ") (echo \"y\")", "(exit))"])
        c["valid"], c["cmds"], c["cat"] = False, None, "poststop-invalid"
        cases.append(c)

    # pass 1: frames (oracle-free)
    p1 = model.query([(c["text"], None, [], None) for c in cases]) if model else [None] * len(cases)
    strace_budget = 6 if ctx.quick else 40
    n_unpred = 0
    for c, m1 in zip(cases, p1):
        text = c["text"]
        n = len(text)
        chunkings = c.get("chunkings") or gen_chunkings(rng, n)
        cause = cause_of(text)
        # T3: the lexer model's command spans against the generator's
        model_cmds = ([unhx(h) for h in m1["cmds"].split(",")] if m1["cmds"] != "-" else []) if m1 else None
        if m1 and c.get("cmds") and cause in (None, "string-escaped-quote", "string-lone-backslash") and model_cmds != c["cmds"]:
            ctx.tie_broken("lexer-model-command-spans", "file_commands differs from the generator's spans", dict(script_hex=hx(text)))
        # oracles for frames: parser verdict of the binary itself (file mode on the frame text)
        frames = sorted({t for k, t in parse_events(m1["stream"]) if k in ("X", "K", "S")}) if m1 else []
        bad, exs, unpred = [], [], None
        need_oracle = c["cat"] in ("escq", "poststop-invalid", "corpus") or not c["valid"]
        if need_oracle:
            for fr in frames:
                rc, out, _ = run_file(fr)
                if out.startswith("Syntax error at line"):
                    unpred = "lexer exit(1) in frame"
                elif re.match(r"At line \d+: syntax error", out):
                    bad.append(fr)
                else:
                    try:
                        cm, ok, _ = smtlex.split_commands(fr)
                        if any(smtlex.is_exit(x) for x in cm):
                            exs.append(fr)
                    except smtlex.LexFatal:
                        unpred = "lexer exit(1) in frame"
        rc_f, out_f, err_f = run_file(text)
        items = [(text, lens, bad, exs if need_oracle else None) for lens in chunkings]
        ms = model.query(items) if model else [None] * len(items)
        pipe_outs = []
        for lens, m in zip(chunkings, ms):
            rc_p, out_p, err_p = run_pipe(text, lens)
            pipe_outs.append((lens, rc_p, out_p))
            key = (text, tuple(lens))
            ctx.case(key=hx(text) + ":" + ",".join(map(str, lens)), nontrivial=nontrivial(text), kind=c["cat"],
                     sample=dict(category=c["cat"], script=text[:200], chunk_lengths=lens[:12], file=dict(rc=rc_f, out=out_f[:120]),
                                 pipe=dict(rc=rc_p, out=out_p[:120]), model_reads=m["reads"][:60] if m else None))
            if rc_p < 0 or rc_p > 1 or rc_f < 0 or rc_f > 1:
                ctx.note("abnormal termination rc_file=%s rc_pipe=%s on %s (reported by C18)" % (rc_f, rc_p, hx(text)[:80]))
            # T1: model of the pipe reader against the binary
            if m is None:
                pass
            elif unpred is None and cause not in ("cr-not-whitespace", "lexer-fatal"):
                try:
                    rx, st = predict(parse_events(m["pipe"]))
                    if not re.fullmatch(rx, out_p, re.S) or st != rc_p:
                        ctx.tie_broken("pipe-model-vs-binary", "script %r chunks %s: model events %s predict status %d / output %r; binary status %d output %r"
                                       % (text[:300], lens[:20], m["pipe"][:200], st, rx[:200], rc_p, out_p[:200]),
                                       dict(script_hex=hx(text), chunk_lengths=lens))
                except Unpredictable as e:
                    n_unpred += 1
                    ctx.count("unpredicted:" + str(e)[:40])
            else:
                ctx.count("model-comparison-skipped:" + (unpred or cause))
            # read sizes (sampled): the model's read_pieces against strace
            if m is not None and strace_budget > 0 and len(lens) > 1 and max(lens) > 15 and unpred is None:
                strace_budget -= 1
                chunks, i = [], 0
                for k in lens:
                    chunks.append(B(text[i:i + k]))
                    i += k
                sizes, _ = pipe_feed.strace_reads([vlib.opensmt_bin(), "-p"], chunks)
                if sizes is None:
                    ctx.note("strace not available: read sizes not confirmed")
                    strace_budget = 0
                else:
                    got = [s for s in sizes if s > 0]
                    exp = [int(x) for x in m["reads"].split(",")] if m["reads"] != "-" else []
                    ctx.count("strace-read-sizes-compared")
                    if got != exp:
                        ctx.tie_broken("read-sizes-model-vs-strace", "chunks %s: model reads %s, strace saw %s" % (lens, exp, got),
                                       dict(script_hex=hx(text), chunk_lengths=lens))
        # T2: file mode model (valid scripts)
        if ms[0] is not None and c["valid"] and cause not in ("cr-not-whitespace", "lexer-fatal"):
            try:
                rx, st = predict(parse_events(ms[0]["file"]))
                if not re.fullmatch(rx, out_f, re.S) or st != rc_f:
                    ctx.tie_broken("file-model-vs-binary", "script %r: model %s predicts %r status %d; binary %r status %d"
                                   % (text[:300], ms[0]["file"][:200], rx[:200], st, out_f[:200], rc_f), dict(script_hex=hx(text)))
            except Unpredictable as e:
                ctx.count("unpredicted-file:" + str(e)[:40])
        # the property itself: same stdout and status in both modes, for every chunking (valid scripts)
        if c["valid"]:
            for lens, rc_p, out_p in pipe_outs:
                if (rc_p, out_p) != (rc_f, out_f):
                    sig = cause or ("unexplained:" + c["cat"])
                    small = text
                    if c.get("cmds") and cause not in ("cr-not-whitespace",):
                        def differs(t, lens=lens):
                            if cause_of(t) != cause:
                                return False
                            a = run_file(t)
                            b = run_pipe(t, [len(t)])
                            return (a[0], a[1]) != (b[0], b[1])
                        if differs(text):
                            small = shrink(c["cmds"], differs)
                    a, b = run_file(small), run_pipe(small, [len(small)] if small != text else lens)
                    ctx.violation(sig, "pipe mode and file mode differ on a syntactically valid script (%s): file status %d output %r, pipe status %d output %r"
                                  % (sig, a[0], a[1][:100], b[0], b[1][:100]),
                                  dict(script=small, script_hex=hx(small), chunk_lengths=[len(small)] if small != text else lens,
                                       file=dict(rc=a[0], out=a[1]), pipe=dict(rc=b[0], out=b[1]),
                                       how="printf script > f.smt2; opensmt f.smt2; python3 harness/pipe_feed.py f.smt2 <lens> -- opensmt -p"))
                    break
            outs = {(r, o) for _, r, o in pipe_outs}
            if len(outs) > 1 and cause is None:
                ctx.violation("chunking-dependent-output", "pipe output depends on how the valid script is split across reads",
                              dict(script=text, script_hex=hx(text), runs=[dict(chunk_lengths=l, rc=r, out=o) for l, r, o in pipe_outs]))
    ctx.extra["unpredicted_cases"] = n_unpred
