"""C14 — term constructors return equivalent terms."""
import glob
import os

import vlib

META = dict(
    title="Term constructors return terms equivalent to the operator applied to the arguments",
    category="proof",
    technique="Coq proof (constructor models over a deep embedding with SMT-LIB semantics) + exact correspondence of the "
              "extracted model with Logic/ArithLogic through a C++ harness + evaluation of every tuple by the extracted evaluator",
    level_text="Theorems in Properties_C14.v: for every argument list of well-formed terms, every interpretation (all integer "
               "assignments on Int) and every PTRef order, each modelled constructor returns a term with the value of the "
               "operator applied to the arguments. On every run the extracted models are compared exactly (modulo order of "
               "commutative arguments) with the working tree's constructors on generated tuples, and each tuple is also "
               "evaluated under a grid of interpretations with the extracted evaluator.",
    level_note="Trusted: Coq kernel, extraction, ocaml/ctors_driver.ml (parsing, interpretation grid, array semantics on a "
               "finite universe, sorting of commutative arguments), harness/h_terms.cc. Modelled rather than verified: the "
               "C++; FastRational arithmetic inside the constructors is taken as exact (C15); hash-consing as structural "
               "equality (C13).",
    design_ref="DESIGN.md §7 C14, design/C14.md",
    trusted_base=["Coq 8.16.1 kernel",
                  "extraction: Require Import ExtrOcamlBasic ExtrOcamlString; no Extract Constant / Extract Inductive of our own",
                  "ocaml/ctors_driver.ml + ocaml/bits.ml", "harness/h_terms.cc linked against the working-tree libopensmt.a"],
    assumptions=["FastRational arithmetic used inside the constructors is exact (C15)",
                 "hash-consing: equal PTRef iff structurally equal term (C13)",
                 "constants of an uninterpreted sort created with Logic::mkConst denote pairwise distinct elements"],
    rule="recipes = nested constructor calls of depth <= 3 over 3 variables per sort and constants (0, ±1, ±2, 1/2, "
         "2^31-1, 2^32, 2^63, 10^20 ...), argument lists built from a small pool with repeated, complementary, negated and "
         "scaled members, shuffled; every constructor call made while building a recipe is one case; logics QF_UF, QF_AX, "
         "QF_LRA, QF_LIA, QF_LIRA, QF_UFLRA, QF_UFLIA, ALL with the declaration order of the variables permuted; "
         "non-trivial = a simplifying constructor with at least one argument; distinct = distinct (logic, op, printed arguments)",
)

INT_CONSTS = ["0", "1", "-1", "2", "-2", "3", "-3", "4", "6", "2147483647", "-2147483648", "4294967296",
              "9223372036854775808", "100000000000000000000"]
REAL_CONSTS = ["0", "1", "-1", "2", "-2", "3", "1/2", "-1/2", "0.5", "1/3", "-3/2", "2/4", "2147483647", "4294967296",
               "9223372036854775808", "100000000000000000000", "1.0", "0.0"]
DIVISORS = ["0", "1", "-1", "2", "-2", "3", "-3", "7", "-7", "2147483648", "-4294967296"]

LOGICS = ["QF_UF", "QF_AX", "QF_LRA", "QF_LIA", "QF_LIRA", "QF_UFLRA", "QF_UFLIA", "ALL"]
PROPS = {  # ints, reals, ufs, arrays
    "QF_UF": (0, 0, 1, 0), "QF_AX": (0, 0, 0, 1), "QF_LRA": (0, 1, 0, 0), "QF_LIA": (1, 0, 0, 0), "QF_LIRA": (1, 1, 0, 0),
    "QF_UFLRA": (0, 1, 1, 0), "QF_UFLIA": (1, 0, 1, 0), "ALL": (1, 1, 1, 1)}


class Gen:
    def __init__(self, rng, logic):
        self.r = rng
        self.lg = logic
        self.ints, self.reals, self.ufs, self.arrs = PROPS[logic]
        self.hasU = self.ufs or self.arrs

    def pick(self, l):
        return l[self.r.randrange(len(l))]

    def sorts(self):
        s = ["B"]
        if self.ints:
            s.append("I")
        if self.reals:
            s.append("R")
        if self.hasU:
            s.append("U")
        if self.arrs:
            s.append("A")
        return s

    def leaf(self, s):
        r = self.r
        if s == "B":
            return self.pick(["b0", "b1", "b2", "b0", "b1", "true", "false"])
        if s == "I":
            return self.pick(["i0", "i1", "i2"]) if r.random() < 0.6 else "#i" + self.pick(INT_CONSTS)
        if s == "R":
            return self.pick(["r0", "r1", "r2"]) if r.random() < 0.6 else "#r" + self.pick(REAL_CONSTS)
        if s == "U":
            return self.pick(["u0", "u1", "u2"]) if r.random() < 0.75 else "#u" + self.pick(["0", "1", "2"])
        return self.pick(["a0", "a1", "a2"])

    def nary(self, s, d, lo, hi, negate=None, scale=None):
        """argument list from a small pool, with repeats / complements / scaled copies, shuffled"""
        r = self.r
        n = r.randint(lo, hi)
        pool = [self.term(s, d) for _ in range(max(1, min(n, r.randint(1, 3))))]
        out = []
        for _ in range(n):
            t = self.pick(pool)
            x = r.random()
            if negate and x < 0.3:
                t = negate(t)
            elif scale and x < 0.45:
                t = scale(t)
            out.append(t)
        r.shuffle(out)
        return out

    def num_const(self, s):
        return ("#i" + self.pick(INT_CONSTS)) if s == "I" else ("#r" + self.pick(REAL_CONSTS))

    def term(self, s, d):
        r = self.r
        if d <= 0 or r.random() < 0.15:
            return self.leaf(s)
        d -= 1
        if s == "B":
            ops = ["and", "or", "not", "xor", "=>", "ite", "=", "distinct", "and", "or", "="]
            if self.ints or self.reals:
                ops += ["<=", "<", ">=", ">", "<=", "<", "=", "="]
            if self.ufs:
                ops += ["p"] + (["pi"] if self.ints else [])
            op = self.pick(ops)
            neg = lambda t: "(not %s)" % t
            if op in ("and", "or"):
                a = self.nary("B", d, 0, 4, negate=neg)
                if a and r.random() < 0.3:  # nested same operator
                    a[0] = "(%s %s)" % (op, " ".join(self.nary("B", d, 2, 3, negate=neg)))
                return "(%s%s)" % (op, "".join(" " + x for x in a))
            if op == "not":
                return "(not %s)" % self.term("B", d)
            if op in ("xor", "=>"):
                a = self.nary("B", d, 2, 2, negate=neg)
                return "(%s %s %s)" % (op, a[0], a[1])
            if op == "ite":
                return "(ite %s %s %s)" % (self.term("B", d), self.term("B", d), self.term("B", d))
            if op in ("=", "distinct"):
                s2 = self.pick(self.sorts())
                lo, hi = (2, 4) if op == "=" else (1, 4)
                if s2 == "A" and r.random() < 0.5:
                    s2 = "U"
                a = self.nary(s2, d, lo, hi, negate=neg if s2 == "B" else None,
                              scale=(lambda t: self.scaled(s2, t)) if s2 in "IR" else None)
                return "(%s %s)" % (op, " ".join(a))
            if op in ("<=", "<", ">=", ">"):
                s2 = self.pick([x for x in self.sorts() if x in "IR"])
                a = self.nary(s2, d, 2, 2 if r.random() < 0.8 else 3, scale=lambda t: self.scaled(s2, t))
                return "(%s %s)" % (op, " ".join(a))
            if op == "p":
                return "(p %s)" % self.term("U", d)
            return "(pi %s)" % self.term("I", d)
        if s in "IR":
            ops = ["+", "+", "-", "neg", "*", "*", "ite"]
            ops += ["div", "mod"] if s == "I" else ["/"]
            if self.ufs:
                ops.append("hi" if s == "I" else "hr")
            op = self.pick(ops)
            if op == "+":
                a = self.nary(s, d, 1, 4, scale=lambda t: self.scaled(s, t))
                return "(+ %s)" % " ".join(a)
            if op == "-":
                a = self.nary(s, d, 1, 3, scale=lambda t: self.scaled(s, t))
                return "(- %s)" % " ".join(a)
            if op == "neg":
                return "(neg %s)" % self.term(s, d)
            if op == "*":
                x = r.random()
                if x < 0.6:
                    a = [self.num_const(s), self.term(s, d)]
                elif x < 0.75:
                    a = [self.num_const(s), self.num_const(s), self.term(s, d)]
                elif x < 0.85:
                    a = [self.num_const(s), self.term(s, d), self.term(s, d)]
                elif x < 0.93:
                    a = [self.term(s, d), self.term(s, d)]
                else:
                    a = [self.term(s, d)]
                r.shuffle(a)
                return "(* %s)" % " ".join(a)
            if op == "ite":
                return "(ite %s %s %s)" % (self.term("B", d), self.term(s, d), self.term(s, d))
            if op in ("div", "mod"):
                dv = "#i" + self.pick(DIVISORS) if r.random() < 0.9 else self.term("I", d)
                return "(%s %s %s)" % (op, self.term("I", d), dv)
            if op == "/":
                dv = "#r" + self.pick(REAL_CONSTS + ["3", "-4", "1/7"]) if r.random() < 0.9 else self.term("R", d)
                return "(/ %s %s)" % (self.term("R", d), dv)
            return "(%s %s)" % (op, self.term(s, d))
        if s == "U":
            ops = ["ite"]
            if self.ufs:
                ops += ["f", "g", "f"]
            if self.arrs:
                ops += ["select", "select"]
            op = self.pick(ops)
            if op == "ite":
                return "(ite %s %s %s)" % (self.term("B", d), self.term("U", d), self.term("U", d))
            if op == "f":
                return "(f %s)" % self.term("U", d)
            if op == "g":
                return "(g %s %s)" % (self.term("U", d), self.term("U", d))
            return "(select %s %s)" % (self.term("A", d), self.term("U", d))
        # arrays
        if r.random() < 0.7:
            return "(store %s %s %s)" % (self.term("A", d), self.term("U", d), self.term("U", d))
        return "(ite %s %s %s)" % (self.term("B", d), self.term("A", d), self.term("A", d))

    def scaled(self, s, t):
        c = self.pick(["-1", "2", "-2", "3", "-1", "1/2" if s == "R" else "4", "-3/2" if s == "R" else "-6"])
        return "(* #%s%s %s)" % ("i" if s == "I" else "r", c, t)

    def recipe(self):
        s = self.pick(["B", "B", "B"] + [x for x in self.sorts() if x != "B"])
        return self.term(s, 3)


# Tuples aimed at the two defect classes seen by hand (DESIGN.md §9 #12 and the mkTimes one found here).
DIRECTED = [
    "QF_LIA (= #i007 #i7)", "QF_UFLIA (= #i007 #i7)", "ALL (= #i007 #i7)", "QF_LIA (distinct #i007 #i7 #i8)",
    "QF_UFLIA (distinct #i007 #i7)", "QF_LIA (= #i-0 #i0)", "QF_UFLIA (= #i-0 #i0)", "QF_UFLIA (= i0 #i007 #i7)",
    "QF_LIA (+ i0 #i-0)", "QF_LIA (* i0 #i01)", "QF_LIA (<= #i007 #i7)", "QF_UFLIA (ite (= #i00 #i0) i0 i1)",
    "QF_LIA (* #i2 (+ i0 #i1) (+ i1 #i2))", "QF_LRA (* #r1 (+ r0 #r1) (+ r1 #r2))", "QF_LRA (* (+ r0 #r1) (+ r1 r2) #r1/2)",
    "QF_LIA (* #i3 (+ i0 i1) (+ i0 i1))", "QF_LRA (* #r2 (+ r0 #r1) r1 (+ r1 #r2))", "QF_LRA (* (+ r0 #r1) (+ r1 #r2))",
    "QF_LIA (* #i0 i0 i1)", "QF_LIA (* i0 i1)", "QF_UF (distinct b0 b1 b2)", "QF_UF (distinct u0)", "QF_UF (distinct #u0 #u1 #u2)",
    "QF_UF (distinct #u0 #u1 #u0)", "QF_UF (= #u0 #u1)", "QF_UF (= u0 u1 u0)", "QF_AX (select (store a0 u0 u1) u0)",
    "QF_AX (= (store a0 u0 u1) a0)", "QF_LIA (div i0 #i0)", "QF_LIA (mod i0 #i0)", "QF_LRA (/ r0 #r0)", "QF_LRA (/ r0 r1)",
    "QF_LIA (div #i-7 #i-2)", "QF_LIA (mod #i-7 #i-2)", "QF_LIA (div #i7 #i-2)", "QF_LIA (mod #i-9223372036854775808 #i4294967296)",
    "QF_LIA (<= (* #i2 i0) (+ (* #i4 i1) #i3))", "QF_LIA (= (* #i2 i0) (+ (* #i4 i1) #i3))", "QF_LRA (= (* #r2 r0) (+ (* #r4 r1) #r3))",
    "QF_LIA (> (* #i-6 i0) (+ (* #i4 i1) #i3))", "QF_LRA (>= (* #r-6 r0) (+ (* #r4 r1) #r3))",
]


# ---- untrusted search with z3 for a tuple whose tie is broken but the grid found no separating assignment ----
import re as _re


def _smt(t):
    """printed term (harness syntax) -> SMT-LIB"""
    def lit(m):
        kind, v = m.group(1), m.group(2)
        neg = v.startswith("-")
        v = v[1:] if neg else v
        if "/" in v:
            n, d = v.split("/")
            body = "(/ %s.0 %s.0)" % (n, d)
        else:
            body = v + (".0" if kind == "r" else "")
        return "(- %s)" % body if neg else body
    t = _re.sub(r"#([ir])(-?[0-9/]+)", lit, t)
    t = _re.sub(r"#u([0-9]+)", r"cu\1", t)
    return t.replace("(neg ", "(- ")


def z3_search(lg, op, args, res):
    """returns an assignment string 'x=v ...' or None"""
    if any(x in " ".join(args) + res for x in ("select", "store", "(f ", "(g ", "(p ", "(hi ", "(hr ", "(pi ")):
        return None
    decl = []
    for k in range(3):
        decl += ["(declare-fun b%d () Bool)" % k, "(declare-fun i%d () Int)" % k, "(declare-fun r%d () Real)" % k,
                 "(declare-fun u%d () U)" % k, "(declare-fun cu%d () U)" % k]
    lhs = "(%s %s)" % ("-" if op == "neg" else op, " ".join(_smt(a) for a in args))
    script = "(declare-sort U 0)\n" + "\n".join(decl) + "\n(assert (distinct cu0 cu1 cu2))\n" + \
        "(assert (not (= %s %s)))\n(check-sat)\n(get-model)\n" % (lhs, _smt(res))
    rc, out = vlib.run_ref("z3", script, timeout=10)
    if not out.startswith("sat"):
        return None
    asg = []
    for m in _re.finditer(r"\(define-fun ([bir][0-2]) \(\) (?:Bool|Int|Real)\s+([^\n]*)\)\s*\n", out):
        name, val = m.group(1), m.group(2).strip()
        val = val.replace(".0", "")
        mm = _re.fullmatch(r"\(- (.*)\)", val)
        neg = bool(mm)
        if mm:
            val = mm.group(1)
        mm = _re.fullmatch(r"\(/ ([0-9]+) ([0-9]+)\)", val)
        if mm:
            val = "%s/%s" % (mm.group(1), mm.group(2))
        if not _re.fullmatch(r"[0-9/]+|true|false", val):
            continue
        asg.append("%s=%s%s" % (name, "-" if neg else "", val))
    return " ".join(asg)


def parse_verdict(line):
    d = {}
    for f in line.split("\t"):
        k, _, v = f.partition("=")
        d[k] = v
    return d


def run(ctx):
    exe, log = vlib.build_extracted("ctors")
    if not exe:
        ctx.tie_broken("extraction-ctors", log)
        return
    h, hlog = vlib.compile_harness("h_terms")
    if not h:
        ctx.tie_broken("harness-h_terms", hlog)
        return
    rng = ctx.rng
    lines = []
    for p in sorted(glob.glob(os.path.join(vlib.VERIF, "corpus", "C14", "*.txt"))):
        lines += [l.strip() for l in open(p) if l.strip() and not l.startswith("#")]
    lines += DIRECTED
    n_rec = 6400 if ctx.quick else 300000
    per = max(1, n_rec // len(LOGICS))
    # exhaust the distinct classes of one QF_UF object first so that the O(n^2) expansion is exercised as well
    for lg in LOGICS:
        g = Gen(rng, lg)
        for k in range(per):
            if k % 150 == 0:
                lines.append("!new %s %d" % (lg, rng.randrange(1 << 30)))
            lines.append("%s %s" % (lg, g.recipe()))
    if True:
        lines.append("!new QF_UF %d" % rng.randrange(1 << 30))
        for k in range(40):
            lines.append("QF_UF (distinct u0 u1 (f %s))" % ("(f " * k + "u2" + ")" * k))
        g = Gen(rng, "QF_UF")
        for k in range(60):
            a = g.nary("U", 2, 3, 4)
            lines.append("QF_UF (distinct %s)" % " ".join(a))
    rc, out = vlib.sh(h, input="\n".join(lines) + "\n", timeout=3000)
    recs = [l for l in out.split("\n") if l.startswith("R\t")]
    bad = [l for l in out.split("\n") if l.startswith("X\t")]
    if rc != 0 or out.count("\nE") + out.startswith("E") < len(lines):
        ctx.tie_broken("h_terms-run", "rc=%s, %d of %d directives answered; %s" % (rc, out.count("E\n"), len(lines), out[-300:]))
        return
    if bad:
        ctx.tie_broken("h_terms-recipe", bad[0][:300])
    # distinct records only
    seen, uniq = set(), []
    for l in recs:
        f = l.split("\t")
        key = (f[1], f[2]) + tuple(f[6:]) + (f[4],)
        if key in seen:
            continue
        seen.add(key)
        uniq.append(l)
    rc2, out2 = vlib.sh(exe, input="\n".join(uniq) + "\n", timeout=3000)
    ver = out2.split("\n")
    if rc2 != 0 or len(ver) < len(uniq):
        ctx.tie_broken("ctors-model-run", "rc=%s lines %d/%d %s" % (rc2, len(ver), len(uniq), out2[-300:]))
        return
    n_unfixed = n_expanded = n_nc = n_z3 = 0
    for l, vl in zip(uniq, ver):
        f = l.split("\t")
        lg, op, res, rt, args = f[1], f[2], f[3], f[5], f[6:]
        v = parse_verdict(vl)
        recipe = "%s (%s%s)" % (lg, op, "".join(" " + a for a in args)) if op != "const" else "%s %s" % (lg, args[0])
        passthrough = op in ("f", "g", "p", "hi", "hr", "pi", "select", "store", "const")
        ctx.case(key=(lg, op) + tuple(args), nontrivial=bool(args) and not passthrough,
                 kind="%s/%s" % (op, "exc" if res.startswith("exc") or res == "undef" else "term"),
                 sample=dict(recipe=recipe, impl=res, model=v.get("model"), tie=v.get("T"), sem=v.get("S")))
        case = dict(recipe=recipe, impl=res, model=v.get("model"), verdict=vl,
                    how="echo '%s' | build/harness/h_terms   (records) | build/ocaml/ctors/vmodel" % recipe)
        if op == "const":
            continue
        T, S, W = v.get("T"), v.get("S", ""), v.get("W")
        if T in ("bad", "error"):
            ctx.tie_broken("ctors-driver", vl[:300], case)
            continue
        if rt.startswith("diff"):
            ctx.tie_broken("front-end-path", "resolveTerm gives %s, the constructor %s" % (rt[5:], res), case)
        if W == "0":
            ctx.tie_broken("wf-invariant", "an argument built through the API is not well-formed (wsort/nf)", case)
        if W == "2" and T == "diff":
            ctx.tie_broken("ctors-correspondence:" + op, "model %s, implementation %s, args %s" % (v.get("model"), res, args), case)
            if not S.startswith("cex:") and n_z3 < 5 and not (res.startswith("exc") or res == "undef"):
                # the grid found nothing: ask z3 (untrusted) for a separating assignment, confirm it with the extracted eval
                n_z3 += 1
                asg = z3_search(lg, op, args, res)
                if asg is not None:
                    rc3, out3 = vlib.sh(exe, input="\t".join(["V", asg, op, res] + args) + "\n", timeout=60)
                    v3 = parse_verdict(out3.split("\n")[0])
                    if v3.get("S", "").startswith("cex:"):
                        S = v3["S"]
        if T == "ok-unfixed":
            n_unfixed += 1
            # since fix d3a0236 the theorem that applies is mkTimes_equiv (fixed = true): the old variant is a broken tie
            ctx.tie_broken("ctors-correspondence:*", "implementation matches only the unfixed mkTimes model (a sum among the "
                           "factors is dropped): %s -> %s" % (args, res), case)
        if T == "ok-expanded":
            n_expanded += 1
        if W == "1":
            n_nc += 1
        if S.startswith("cex:"):
            if T == "ok-unfixed":
                sig = "mkTimes-drops-sum"
            elif W == "1":
                sig = "noncanonical-literal:" + op
            else:
                sig = "not-equivalent:%s:%s" % (op, lg)
            ctx.violation(sig, "%s returns %s, not equivalent to the operator applied to the arguments: %s" % (recipe, res, S[4:]),
                          dict(case, assignment=S[4:]))
    ctx.count("distinct-expanded", n_expanded)
    ctx.count("mkTimes-unfixed-variant", n_unfixed)
    ctx.count("noncanonical-literal-args", n_nc)
    ctx.note("model variant of mkTimes matching the implementation: %s" % ("unfixed (drops all but the last sum)" if n_unfixed else "fixed"))
