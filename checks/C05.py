"""C05 — definitive answers do not depend on the solver configuration."""
import answercheck

META = dict(
    title="Definitive answers do not depend on the solver configuration",
    category="proof",
    technique="Coq corollary of answer correctness + per-run configuration matrix whose contradictions are decided by the Coq-verified evaluator",
    level_text="PARTIAL (inherits C01/C02). Proved (Properties_C05.v): if every configuration's definitive answers are correct no two configurations "
               "contradict; a validated model decides which side of a contradiction is wrong; satisfiability does not depend on the declared logic. "
               "Per run: generated scripts under 8 option vectors (engines default/lookahead/picky/ghost, incremental off, proof/core/interpolant "
               "tracking, substitutions off, restart and minimisation settings, seeds) plus the embedding into a more expressive logic; every pair "
               "of answers is compared.",
    level_note="Trusted: as C01/C02. The hypotheses of c05_corollary (C01 and C02 for every configuration) are discharged per run, not for all inputs.",
    design_ref="DESIGN.md §7 C05",
    trusted_base=["Coq 8.16.1 kernel", "coq/Sem", "lib/answercheck.py configuration table (answercheck.CONFIGS, EMBED)"],
    assumptions=["hypotheses unsat_correct / sat_correct of c05_corollary are what C01/C02 establish per run"],
    rule="lib/scriptgen.py scripts, each run under 8 option vectors (default + 7 PRNG-chosen of 13) and one logic embedding; a case = one script with "
         ">= 2 comparable answer vectors; non-trivial = at least one definitive answer; distinct = script text",
)


def run(ctx):
    answercheck.sweep(ctx, "C05", 45 if ctx.quick else 360, 8, judge_sat=False, judge_unsat=False, compare_configs=True, embed=True,
                      gen_kwargs=dict(p_incremental=0.3, p_big=0.2), all_configs=not ctx.quick)

    # dense in the special top-level shapes (equality diamonds, distinct after merges, Bool-argument UFs): pure UF and UF+arithmetic
    answercheck.sweep(ctx, "C05", 40 if ctx.quick else 320, 5, judge_sat=False, judge_unsat=False, compare_configs=True, embed=True,
                      gen_kwargs=dict(p_incremental=0.3, p_big=0.0, p_special=0.6, stream=1), logics=["QF_UF", "QF_UF", "QF_UF", "QF_UFLIA", "QF_UFLRA"])

    # directed family: difference logic with constants at the word / double / int64 boundaries, stated in QF_IDL/QF_RDL
    # and in the embedding logic QF_LIA/QF_LRA
    import C02
    import solvercheck as sc
    for text, logic, c in C02.dl_boundary_scripts(ctx.rng, 24 if ctx.quick else 200):
        res = {}
        for lg in (logic, answercheck.EMBED[logic]):
            t = answercheck.with_options(text, [], lg)
            rc, r, out, err = sc.run_aligned(t, timeout=10)
            a = answercheck.answers_of(text, r, out) if rc in (0, 1) else None
            res[lg] = a[0][1] if a else "none"
        ctx.case(key=text, nontrivial=True, kind="dl-boundary:%s" % "/".join(res.values()), sample=dict(script=text, answers=res))
        if set(res.values()) == {"sat", "unsat"}:
            ctx.violation("contradiction:%s:embed%s" % (logic, ":const>2^53" if any(int(x) > 2**53 for x in __import__("re").findall(r"[0-9]{16,}", text)) else ""),
                          "the same assertions are answered %s" % res, dict(script=text, answers=res))

    # directed family: uninterpreted symbols over Bool arguments (Booleans seen only by the theory solver), default vs
    # non-incremental (SatELite preprocessing) vs lookahead
    bu = C02.bool_uf_scripts(ctx.rng, 70 if ctx.quick else 560)
    cfgs = ["default", "non-incremental", "no-subst", "proofs"]
    bu = [(t, lg) for t, lg in bu if "(push" not in t and t.count("(check-sat)") == 1]     # non-incremental mode: one query
    jobs = [(t, c, answercheck.CONFIGS[c], None, 10, False, False, lg) for t, lg in bu for c in cfgs]
    results = answercheck.run_jobs(jobs)
    for i, (t, lg) in enumerate(bu):
        d = {}
        for j, c in enumerate(cfgs):
            rc, res, out, err, tt, judged = results[i * len(cfgs) + j]
            a = answercheck.answers_of(t, res, out) if rc in (0, 1) else None
            if a:
                d[c] = [x[1] for x in a]
        ctx.case(key=("bool-uf", t), nontrivial=len(d) > 1, kind="bool-uf:%d-configs" % len(d))
        cs = sorted(d)
        for x in range(len(cs)):
            for y in range(x + 1, len(cs)):
                for k, (p, q) in enumerate(zip(d[cs[x]], d[cs[y]])):
                    if {p, q} == {"sat", "unsat"}:
                        ctx.violation("contradiction:%s:%s+%s:bool-uf%s" % (lg, cs[x], cs[y], ":incremental" if "(push" in t else ""),
                                      "configurations %s and %s give contradicting answers (%s / %s) on check %d (Bool-argument uninterpreted symbols)" % (cs[x], cs[y], p, q, k + 1),
                                      dict(script=t, configs=[cs[x], cs[y]], answers=[d[cs[x]], d[cs[y]]]))
