"""C19 — a rejected command leaves the solver state unchanged."""
import re

import names_tie as nt
import scriptgen_names as sg
import vlib

META = dict(
    title="A rejected command leaves the solver state unchanged",
    category="proof",
    technique="Coq proof on a model of the interpreter's bookkeeping (state machine over abstract commands) + state-level "
              "correspondence with the real interpreter after every command (harness) + end-to-end script pairs "
              "(with / without injected rejected commands) judged semantically with z3 as an untrusted oracle",
    level_text="Properties_C19.v: on the model of the code as it is, every rejected command outside three patterns returns the "
               "identical state (c19_rejected_is_noop_partial); the three patterns are refuted with witnesses and shown to change "
               "state always; with the three repairs the full statement holds (c19_rejected_is_noop_repaired).  On every run the "
               "extracted model is compared with the state of the real interpreter after every command of generated scripts "
               "with injected rejected commands, and each script is run with and without the injected commands: answers, "
               "errors and (semantically) models, values, cores, interpolants and assignments must agree.",
    level_note="Trusted: Coq kernel, extraction, ocaml/names_driver.ml, harness/h_book.cc, lib/scriptgen_names.py, lib/names_tie.py, "
               "the judging code in this file; z3 only decides satisfiability of validation queries (a wrong z3 answer could hide "
               "or fake a semantic difference; textual equality needs no oracle).  Solver-internal state after an exception "
               "(half-built terms, hash-consing order) is covered only through the end-to-end pairs.",
    design_ref="DESIGN.md §7 C19, design/C19.md",
    trusted_base=["Coq 8.16.1 kernel", "extraction: Require Import ExtrOcamlBasic ExtrOcamlString; no Extract Constant / Inductive of our own",
                  "ocaml/names_driver.ml", "harness/h_book.cc compiled against the working tree", "lib/scriptgen_names.py, lib/names_tie.py",
                  "z3 4.8.12 as satisfiability oracle for semantic judging of differing outputs (search only)"],
    assumptions=["the satisfiability answer of check-sat is an input of the bookkeeping model",
                 "equal text of generated assertion bodies <=> equal hash-consed term (checked through the state comparison)"],
    rule="valid histories (QF_UF/QF_LRA/QF_LIA; named assertions, nested names, define-fun, push/pop, check-sat, get-model/get-value/"
         "get-unsat-core/get-assignment/get-interpolants) with 1..3 injected commands of 23 rejected kinds at PRNG positions (single "
         "kind in ~70% of the scripts); a case is non-trivial when at least one injected command is followed by a query; "
         "distinct = distinct script text",
)

KINDS = sg.Gen.INJECT_KINDS + ("before-set-logic",)
QUERY_KINDS = ("get-model-wrong", "get-core-wrong", "get-itp-wrong", "get-value-bad")


# ---- s-expressions ------------------------------------------------------------------------------
def sexprs(text):
    toks = re.findall(r"\(|\)|\|[^|]*\||\"[^\"]*\"|[^\s()]+", text)
    pos = 0

    def rd():
        nonlocal pos
        t = toks[pos]
        pos += 1
        if t == "(":
            l = []
            while pos < len(toks) and toks[pos] != ")":
                l.append(rd())
            pos += 1
            return l
        return t
    out = []
    while pos < len(toks):
        if toks[pos] == ")":
            pos += 1
            continue
        out.append(rd())
    return out


def show(e):
    return e if isinstance(e, str) else "(" + " ".join(show(x) for x in e) + ")"


# ---- the script-without, as the property reads it: an assertion stack with names ---------------------
class Track:
    def __init__(self, g):
        self.g = g
        self.frames = [[]]        # (formula, name) per level
        self.names = [dict()]     # name -> term text (top-level and nested), per level
        self.glob_names = {}

    def step(self, c, accepted):
        if not accepted:
            return
        if c.kind in ("assert", "assert-fun"):
            self.frames[-1].append((c.meta["formula"], c.meta.get("name")))
            tgt = self.glob_names if self.g.glob else self.names[-1]
            if c.meta.get("name") is not None:
                tgt["n%d" % c.meta["name"]] = c.meta["formula"]
            for n, t in c.meta.get("inner", []):
                tgt["n%d" % n] = t
        elif c.kind == "push":
            for _ in range(int(c.text.split()[1].rstrip(")"))):
                self.frames.append([])
                self.names.append({})
        elif c.kind == "pop":
            for _ in range(int(c.text.split()[1].rstrip(")"))):
                if len(self.frames) > 1:
                    self.frames.pop()
                    self.names.pop()

    def current(self):
        return [a for f in self.frames for a in f]

    def name_map(self):
        m = dict(self.glob_names)
        for d in self.names:
            m.update(d)
        return m

    def snapshot(self):
        return dict(cur=self.current(), names=self.name_map())


def decl_text(g):
    ls = []
    if g.logic == "QF_UF":
        ls += ["(declare-sort U 0)", "(declare-fun g (U) U)"]
    ls += ["(declare-fun %s () Bool)" % b for b in g.bools]
    ls += ["(declare-fun %s () %s)" % (x, g.sort) for x in ("x0", "x1", "x2")]
    return "\n".join(ls) + "\n"


def z3_status(text):
    rc, out = vlib.run_ref("z3", text, timeout=20)
    lines = [l.strip() for l in out.strip().split("\n") if l.strip()]
    if any("error" in l for l in lines):
        return "error:" + " ".join(lines)[:200]
    return lines[-1] if lines else "none"


def valid_output(g, c, snap, out):
    """is `out` (answer of query command c) correct for the assertions/names of the script-without at that point?
    -> (True/False/None, reason)   None = cannot judge"""
    cur, names = snap["cur"], snap["names"]
    asserts = "".join("(assert %s)\n" % f for f, _ in cur)
    try:
        es = sexprs(out)
    except Exception:
        return False, "unparsable output"
    if c.kind == "get-unsat-core":
        if not es or not isinstance(es[0], list):
            return False, "no core list"
        core = es[0]
        named_cur = {("n%d" % n): f for f, n in cur if n is not None}
        for n in core:
            if n not in named_cur:
                return False, "core mentions %s which names no current assertion" % n
        txt = decl_text(g) + "".join("(assert %s)\n" % f for f, n in cur if n is None) + \
            "".join("(assert %s)\n" % named_cur[n] for n in core) + "(check-sat)\n"
        r = z3_status(txt)
        return (r == "unsat"), "core + unnamed assertions: z3 says %s" % r
    if c.kind == "get-assignment":
        if not es or not isinstance(es[0], list):
            return (out.strip() == ")"), "empty assignment"
        extra = ""
        for p in es[0]:
            if not (isinstance(p, list) and len(p) == 2):
                return False, "malformed pair"
            n, v = p
            if n not in names:
                return False, "assignment mentions %s which is not in scope" % n
            if v in ("true", "false"):
                extra += "(assert (= %s %s))\n" % (names[n], v)
        r = z3_status(decl_text(g) + asserts + extra + "(check-sat)\n")
        return (r == "sat"), "assertions + assignment: z3 says %s" % r
    if c.kind == "get-interpolants":
        if not es or not isinstance(es[0], list):
            return False, "no interpolant list"
        itps = es[0]
        groups = c.meta["groups"]
        if len(itps) != len(groups) - 1:
            return False, "%d interpolants for %d groups" % (len(itps), len(groups))
        named_cur = {("n%d" % n): f for f, n in cur if n is not None}
        for j, I in enumerate(itps):
            A_names = ["n%d" % n for grp in groups[:j + 1] for n in grp]
            if any(n not in named_cur for n in A_names):
                return None, "group names a non-assertion"
            A = [named_cur[n] for n in A_names]
            used = set(A_names)
            B = [f for f, n in cur if n is None or ("n%d" % n) not in used]
            r1 = z3_status(decl_text(g) + "".join("(assert %s)\n" % f for f in A) + "(assert (not %s))\n(check-sat)\n" % show(I))
            r2 = z3_status(decl_text(g) + "".join("(assert %s)\n" % f for f in B) + "(assert %s)\n(check-sat)\n" % show(I))
            if r1 != "unsat" or r2 != "unsat":
                return False, "interpolant #%d %s: A and not I: %s; I and B: %s" % (j, show(I), r1, r2)
        return True, "ok"
    if g.logic == "QF_UF":
        return None, "values of uninterpreted sorts are not judged"
    if c.kind == "get-model":
        if not es or not isinstance(es[0], list):
            return False, "no model"
        defs = [d for d in es[0] if isinstance(d, list) and d and d[0] == "define-fun"]
        have = {d[1] for d in defs}
        need = set(g.bools + ["x0", "x1", "x2"])
        if not need <= have:
            return False, "model lacks %s" % sorted(need - have)
        txt = "".join(show(d) + "\n" for d in defs if d[1] in need) + asserts + "(check-sat)\n"
        r = z3_status(txt)
        return (r == "sat"), "model + assertions: z3 says %s" % r
    if c.kind == "get-value":
        if not es or not isinstance(es[0], list):
            return False, "no value list"
        extra = ""
        for p in es[0]:
            if not (isinstance(p, list) and len(p) == 2):
                return False, "malformed pair"
            extra += "(assert (= %s %s))\n" % (show(p[0]), show(p[1]))
        r = z3_status(decl_text(g) + asserts + extra + "(check-sat)\n")
        return (r == "sat"), "assertions + values: z3 says %s" % r
    return None, "not a judged query"


def scenarios(rng):
    """the three modelled defects as fixed script pairs (run first, every time)"""
    out = []
    C = sg.Cmd
    def named(g, lit, n):
        t, a = g.aterm(("lit", lit), {}, n)
        return C("(assert %s)" % t, "A" + a, "assert", formula=g.plain(("lit", lit)), name=n, inner=[])
    def plain(g, lit):
        t, a = g.aterm(("lit", lit))
        return C("(assert %s)" % t, "A" + a, "assert", formula=g.plain(("lit", lit)), name=None, inner=[])
    for lg in ("QF_LRA", "QF_LIA"):
        # 1. rejected non-Bool assert, then A: x0<=0, B: x0-x2>4, C: 5<=x2 and interpolants for A | B | C  (DESIGN.md §9 #7)
        g = sg.Gen(rng, logic=lg, mode="itp", glob=False)
        cs = g.header()
        cs.append(g.inject("nonbool-assert"))
        cs += [named(g, (4, True), 0), named(g, (9, False), 1), named(g, (8, True), 2), C("(check-sat)", "C?", "check-sat"),
               C("(get-interpolants n0 n1 n2)", "I0/1/2", "get-interpolants", groups=[[0], [1], [2]])]
        out.append((g, cs, ["nonbool-assert"]))
    for lg in sg.LOGICS:
        # 2. a name entered by a term whose command is rejected, then a valid use of that name
        g = sg.Gen(rng, logic=lg, mode="core", glob=False)
        cs = g.header()
        cs.append(C("(assert (and (! p0 :named n1) zz))", "A0:1:n1=%d,x" % g.tid("p0"), "inject:named-then-fail", injected=True, inj="named-then-fail"))
        cs += [named(g, (1, True), 1), plain(g, (1, False)), C("(check-sat)", "C?", "check-sat"), C("(get-unsat-core)", "K", "get-unsat-core")]
        out.append((g, cs, ["named-then-fail"]))
        # 3. (pop 3) at level 2
        g = sg.Gen(rng, logic=lg, mode="core", glob=False)
        cs = g.header()
        cs += [C("(push 1)", "U1", "push"), plain(g, (0, True)), C("(push 1)", "U1", "push"),
               C("(pop 3)", "P3", "inject:pop-too-many", injected=True, inj="pop-too-many"),
               plain(g, (0, False)), C("(check-sat)", "C?", "check-sat")]
        out.append((g, cs, ["pop-too-many"]))
    return out


def first_divergence(ctx, g, cmds, s1, s2):
    """first non-injected command whose answer in the run with injections (segments s1, indexed like cmds) is not
    acceptable for the script without them (segments s2): (index, cmd, with, without, kind_with, kind_without, reason)"""
    tr = Track(g)
    j = 0
    for i, c in enumerate(cmds):
        if c.injected:
            continue
        a, b = s1[i].strip(), s2[j].strip()
        snap = tr.snapshot()
        tr.step(c, nt.resp_kind(b) != "err")
        j += 1
        if a == b:
            continue
        ka, kb = nt.resp_kind(a), nt.resp_kind(b)
        judged = None
        if c.kind.startswith("get-") and ka == "out" and kb == "out":
            okw, why = valid_output(g, c, snap, a)
            if okw is True:
                if ctx:
                    ctx.count("differs-but-valid:" + c.kind)
                continue
            if okw is None:
                if ctx:
                    ctx.count("differs-not-judged:" + c.kind)
                continue
            okb, whyb = valid_output(g, c, snap, b)
            if okb is not True:
                if ctx:
                    ctx.count("baseline-invalid:" + c.kind)
                    ctx.note("baseline output of %s is itself not valid (%s): other property" % (c.kind, whyb))
                continue
            judged = why
        return (i, c, a, b, ka, kb, judged)
    return None


def pick_variant(ctx, exe, runs, lines):
    """the model variant (which repairs) that reproduces the implementation's state after every command"""
    diffs = {}
    for v in nt.VARIANTS:
        models, mrc = nt.run_model(exe, v, lines)
        if mrc != 0 or len(models) != len(runs):
            ctx.tie_broken("book-model-run", "driver rc=%s variant %s: %d results for %d scripts" % (mrc, v, len(models), len(runs)))
            return None, None
        first = None
        for (g, cmds, segs, dumps, rc, tail), model in zip(runs, models):
            d = nt.compare(cmds, segs, dumps, model)
            if d:
                first = (d, cmds)
                break
        if first is None:
            return v, models
        diffs[v] = first
    d, cmds = diffs[nt.AS_IS]
    ctx.tie_broken("interpreter-state-vs-model", "no model variant reproduces the interpreter; against the as-is model: %s" % d,
                   dict(script=sg.render(cmds[:d["at"] + 1]), diff=d))
    models, _ = nt.run_model(exe, nt.AS_IS, lines)
    return nt.AS_IS, models


def run(ctx):
    import time
    from concurrent.futures import ThreadPoolExecutor
    t0 = time.time()
    # the model and the harness serve the state-level tie; the end-to-end search below needs neither and always runs
    exe, log = vlib.build_extracted("names")
    if not exe:
        ctx.tie_broken("extraction-names", log)
    hb, l2 = vlib.compile_harness("h_book", flags=("-DNDEBUG",))
    if not hb:
        ctx.tie_broken("harness-build", l2)
    sigs = {}
    ctx.extra["divergence_signatures"] = sigs
    rng = ctx.rng
    npairs = 150 if ctx.quick else 4000
    nnested = 130 if ctx.quick else 3000
    todo = scenarios(rng)
    for k in range(npairs):
        g = sg.Gen(rng, glob=(rng.random() < 0.1))
        if rng.random() < 0.7 or k < len(KINDS):
            kinds = [KINDS[k % len(KINDS)]]
        else:
            kinds = rng.sample(KINDS, rng.randint(2, 3))
        if "get-itp-wrong" in kinds and g.mode != "itp" and rng.random() < 0.5:
            g.mode = "itp"
        cmds = sg.history_with_injections(g, rng.randint(10, 34), kinds, rng.randint(1, 3))
        todo.append((g, cmds, kinds))
    # rejected commands at depth >= 1 (also between a check-sat and its queries), then pops, then uses of everything live
    NEST = [k for k in KINDS if k not in ("before-set-logic", "set-logic-again", "set-option-late")]
    for k in range(nnested):
        g = sg.Gen(rng, glob=(rng.random() < 0.08))
        kinds = [NEST[k % len(NEST)]] if rng.random() < 0.75 else rng.sample(NEST, 2)
        cmds = sg.history_nested(g, kinds, rng.randint(1, 2))
        todo.append((g, cmds, kinds))
    pool = ThreadPoolExecutor(max_workers=4)
    bin_with = list(pool.map(lambda t: nt.run_binary(t[1]), todo))
    bin_without = list(pool.map(lambda t: nt.run_binary([c for c in t[1] if not c.injected]), todo))
    t1 = time.time()
    # ---- state-level tie on the scripts WITH the injected commands -----------------------------------
    models, runs = None, None
    if exe and hb:
        runs, lines = [], []
        for (g, cmds, kinds), (segs, dumps, rc, tail) in zip(todo, pool.map(lambda t: nt.run_harness(hb, t[1], t[0].NF), todo)):
            runs.append((g, cmds, segs, dumps, rc, tail))
            lines.append(sg.abstract_line(cmds, nt.answers_of(cmds, segs), g.NF))
        variant, models = pick_variant(ctx, exe, runs, lines)
        if variant is not None:
            ctx.extra["model_variant"] = dict(bits=variant, repairs=[n for n, b in zip(nt.FIX_NAMES, variant) if b == "1"] or ["none (code as it is)"])
            if variant != nt.AS_IS:
                ctx.note("the interpreter matches the model variant %s (repairs: %s)" % (variant, ctx.extra["model_variant"]["repairs"]))
    ctx.extra["timing"] = dict(binary_s=round(t1 - t0, 1), harness_model_s=round(time.time() - t1, 1))
    # ---- end-to-end pairs ------------------------------------------------------------------------------
    for idx, ((g, cmds, kinds), bw, bwo) in enumerate(zip(todo, bin_with, bin_without)):
        model = models[idx] if models else None
        hsegs = runs[idx][2] if runs else None
        text = sg.render(cmds)
        inj_idx = [i for i, c in enumerate(cmds) if c.injected]
        without = [c for c in cmds if not c.injected]
        # model prediction: which injected commands change the state (None: no model available)
        changing = None
        if model is not None:
            cm, _ = nt.canon([m[2] for m in model])
            changing = [i for i in inj_idx if i < len(model) and i > 0 and cm[i] != cm[i - 1]]
        followed = any(c.kind.startswith("get-") or c.kind == "check-sat" for c in cmds[(inj_idx[0] if inj_idx else len(cmds)):] if not c.injected)
        ctx.case(key=text, nontrivial=bool(inj_idx) and followed, kind="inject:" + "+".join(sorted(set(c.meta["inj"] for c in cmds if c.injected)) or ["none"]),
                 sample=dict(script=text[:700], injected=[cmds[i].text for i in inj_idx],
                             model_says_state_changes=[cmds[i].text for i in changing] if changing is not None else "no model"))
        rc1, s1, t1_, e1 = bw
        rc2, s2, t2_, e2 = bwo
        for i in inj_idx:
            ctx.count("injected:%s:%s:%s" % (cmds[i].meta["inj"], nt.resp_kind(s1[i]) if i < len(s1) else "?",
                                             "?" if changing is None else ("state-changes" if i in changing else "no-op")))
        if rc2 < 0 or rc2 >= 128 or len(s2) < len(without):
            ctx.note("baseline script terminates abnormally (rc=%s): not a C19 matter, pair skipped" % rc2)
            ctx.count("pair-skipped:baseline-crash")
            continue
        if rc1 < 0 or rc1 >= 128 or len(s1) < len(cmds):
            first = cmds[changing[0]].meta["inj"] if changing else "unexplained(%s)" % "+".join(sorted(set(kinds)))
            ctx.violation("%s:crash" % first, "the script with the rejected command(s) terminates abnormally (rc=%s), the script without does not" % rc1,
                          dict(with_script=text, without_script=sg.render(without), rc=rc1, stderr=e1[:300]))
            continue
        not_rejected = [i for i in inj_idx if nt.resp_kind(s1[i]) != "err" and cmds[i].meta["inj"] not in QUERY_KINDS]
        if not_rejected:
            ctx.count("pair-skipped:injection-not-rejected:" + cmds[not_rejected[0]].meta["inj"])
            continue
        diverged = first_divergence(ctx, g, cmds, s1, s2)
        if diverged is None:
            continue
        i, c, a, b, ka, kb, judged = diverged
        modelled = [k for k in (changing or []) if k < i]
        cands = modelled or [k for k in inj_idx if k < i]
        culprit = cands[0] if cands else None
        if len(set(cmds[k].meta["inj"] for k in cands)) > 1:
            # several candidate kinds precede the divergence: find the one that reproduces it on its own
            culprit = None
            for k in cands:
                only = [c2 for j2, c2 in enumerate(cmds) if not c2.injected or j2 == k]
                rck, sk, tk, ek = nt.run_binary(only)
                if rck < 0 or rck >= 128 or len(sk) < len(only):
                    culprit = k
                    break
                dk = first_divergence(None, g, only, sk, s2)
                if dk is not None and dk[1] is c:
                    culprit = k
                    break
        if culprit is not None:
            cause = cmds[culprit].meta["inj"]
            shown = [cmds[culprit].text]
            # the smallest pair: only the culprit injected
            with_script = sg.render([c2 for j2, c2 in enumerate(cmds) if not c2.injected or j2 == culprit][:len(cmds)])
        else:
            cause = "+".join(sorted(set(cmds[k].meta["inj"] for k in cands))) or "none"
            shown = [cmds[k].text for k in cands][:3]
            with_script = text
        if not modelled:
            cause = "unexplained(%s)" % cause
        sig = "%s:%s" % (cause, c.kind)
        sigs[sig] = sigs.get(sig, 0) + 1
        what = "after the rejected %s, %s answers %r where the script without it answers %r%s" % (
            shown, c.text, a[:160], b[:160], (" -- " + judged) if judged else "")
        ctx.violation(sig, what, dict(with_script=text, without_script=sg.render(without), command=c.text, with_output=a, without_output=b,
                                       injected=[cmds[k].text for k in inj_idx], culprit=shown,
                                       model_says_state_changes=[cmds[k].text for k in changing] if changing is not None else "no model",
                                       logic=g.logic, mode=g.mode, how="opensmt <with_script> vs opensmt <without_script>: compare the answers of `command`"))
        if not modelled and model is not None:
            ctx.tie_broken("divergence-without-modelled-state-change", "%s: %s" % (sig, what[:300]), dict(with_script=text))
    ctx.extra["timing"]["total_s"] = round(time.time() - t0, 1)
