"""C16 — numeric literals are read and printed exactly."""
import glob
import itertools
import os
import re
import sys
from fractions import Fraction

import vlib
import numgen

sys.path.insert(0, os.path.join(vlib.VERIF, "translate"))

META = dict(
    title="Numeric literals are read and printed exactly",
    category="proof",
    technique="Coq proof over a faithful model of the readers/printers (string automata, GMP base-0 parsing, regex ASTs of the lexer "
              "rules regenerated from the .ll file with a verified derivative matcher) + exact correspondence of the extracted model "
              "with the working tree on exhaustive short strings, long random literals, the flex scanner's token stream and the "
              "opensmt binary's get-value output",
    level_text="Theorems in Properties_C16.v: accepted decimals denote their exact value for any length and any leading/trailing "
               "zeros (decimal_value), fractions without leading zeros likewise (fraction_value_partial), every TK_NUM/TK_DEC token "
               "of the lexer is read exactly and stored exactly by mkConst (lex_num_exact, lex_dec_exact, token_mkconst_exact, "
               "get_str_parse_roundtrip), the base-10 repair of normalize reads every fraction exactly (fraction_value_fixed), "
               "what the solver prints reads back to the same rational "
               "for every rational (print_parse_roundtrip), plus machine-checked counterexamples for the parts of the property that "
               "are false on the faithful model (fraction_value_refuted, accepts_only_wf_refuted, lex_num_refuted, ...). The model "
               "(isIntString, isRealString, stringToRational, normalize/GMP, FastRational(const char*), ArithLogic::mkConst, "
               "termToSMT2String of constants, FastRational::print/get_str, the lexer's INITIAL rules) is compared exactly with the "
               "implementation on every run.",
    level_note="Trusted: Coq kernel, extraction (ExtrOcamlBasic, ExtrOcamlString), the OCaml drivers, the C++ harness (signal "
               "handlers turn SIGFPE/SIGSEGV inside a call into the word CRASH), translate/realstring.py and translate/lexnum.py "
               "(they regenerate Gen_RealString.v / Gen_LexNum.v from the source text; a change they do not recognise breaks the tie), "
               "the model of GMP's mpz_set_str/mpq_set_str/mpq_canonicalize (transcribed from GMP 6.x sources, exercised by the "
               "exhaustive comparison). Modelled, not verified: the C++; bison grammar and Interpret beyond number tokens are "
               "covered only by the script correspondence.",
    design_ref="DESIGN.md §7 C16, design/C16.md",
    trusted_base=["Coq 8.16.1 kernel", "extraction: Require Import ExtrOcamlBasic ExtrOcamlString; no Extract Constant / Extract Inductive of our own",
                  "ocaml/num_driver.ml + ocaml/bits.ml", "harness/h_num.cc (with the generated smt2newparser.hh of the build tree) linked against the working-tree libopensmt.a",
                  "translate/realstring.py, translate/lexnum.py", "model of GMP string parsing in coq/Num/LitModel.v",
                  "python fractions.Fraction and a 30-line s-expression evaluator for the property-level judgement"],
    assumptions=["GMP behaves as its documented/source behaviour transcribed in LitModel.v (checked on every compared string)"],
    rule="L: every string over {0-9 - . / x e} up to length 4, every string of length 5 over {0,1,2,7,8,9,-,.,/,x,e} and of length 6 over "
         "{0,1,8,-,.,/,x,e} (quick: 4.8*10^5 strings; thorough: full alphabet up to length 5, reduced alphabets at lengths 6 and 7: "
         "4.7*10^6) plus PRNG literals of 40-200 digits (decimals with leading/trailing zeros, fractions with and "
         "without leading zeros, signs, damaged variants); non-trivial = the string contains a digit. T: token streams of all strings "
         "up to length 4 and of the long literals. Q: pairs of spellings of Int constants. P: boundary-aimed rationals. F: scripts "
         "(assert (= x <lit>)) (check-sat) (get-value (x)) in QF_LRA and QF_LIA for all strings over {0,1,5,9,-,.,/} up to length 3 "
         "(4 thorough) and long literals. distinct = distinct case line",
)

TRIVIAL_REJECT = {"I0 R0 S:exc | api | nonnum | nonnum", "I0 R0 S:0 | api | nonnum | nonnum", "I0 R0 S:1 | api | nonnum | nonnum"}
FULL = "0123456789-./xe"
A11 = "012789-./xe"
A8 = "018-./xe"
FE = "0159-./"

RE_INT = re.compile(r"^-?\d+$")
RE_DEC = re.compile(r"^-?\d+(\.\d+)?$")
RE_FRAC = re.compile(r"^-?\d+/\d+$")
# what the front end may accept as ONE literal: SMT-LIB numerals / decimals, plus OpenSMT's documented extensions
# (a leading minus sign, n/d with numerals n and d)
RE_FE_NUM = re.compile(r"^-?(0|[1-9]\d*)$")
RE_FE_DEC = re.compile(r"^-?\d+\.\d+$")
RE_FE_FRAC = re.compile(r"^-?(0|[1-9]\d*)/[1-9]\d*$")
# the core SMT-LIB forms, which must not be rejected
RE_CORE_NUM = re.compile(r"^(0|[1-9]\d*)$")
RE_CORE_DEC = re.compile(r"^(0|[1-9]\d*)\.\d+$")


def api_expected(s):
    """(kind, value) the property asks for:  ('int', v) | ('real', v) | ('reject', None)."""
    if RE_INT.match(s):
        return "int", Fraction(s)
    if RE_DEC.match(s):
        return "real", Fraction(s)
    if RE_FRAC.match(s):
        n, d = s.split("/")
        if int(d) == 0:
            return "reject", None
        return "real", Fraction(int(n), int(d))
    return "reject", None


# ---- tiny reader for printed values -------------------------------------------------------------
def sexpr_tokens(t):
    return re.findall(r"\(|\)|[^\s()]+", t)


def parse_sexpr(toks, i=0):
    if toks[i] == "(":
        l = []
        i += 1
        while toks[i] != ")":
            e, i = parse_sexpr(toks, i)
            l.append(e)
        return l, i + 1
    return toks[i], i + 1


def eval_num(e):
    if isinstance(e, str):
        if not re.match(r"^(0|[1-9]\d*)(\.\d+)?$", e):
            raise ValueError("not an SMT-LIB numeral/decimal: " + e)
        return Fraction(e)
    if len(e) == 2 and e[0] == "-":
        return -eval_num(e[1])
    if len(e) == 3 and e[0] == "/":
        return eval_num(e[1]) / eval_num(e[2])
    raise ValueError("unexpected term %r" % (e,))


def read_value(text):
    toks = sexpr_tokens(text)
    e, i = parse_sexpr(toks)
    if i != len(toks):
        raise ValueError("trailing text")
    return eval_num(e)


def long_literals(rng, n):
    out = []
    for _ in range(n):
        k = rng.random()
        nd = rng.randint(40, 200)
        digs = "".join(rng.choice("0123456789") for _ in range(nd))
        sign = "-" if rng.random() < 0.4 else ""
        if k < 0.15:
            s = sign + "0" * rng.randint(0, 5) + digs
        elif k < 0.55:
            p = rng.randint(1, nd - 1)
            s = sign + "0" * rng.randint(0, 4) + digs[:p] + "." + "0" * rng.randint(0, 6) + digs[p:] + "0" * rng.randint(0, 8)
        elif k < 0.7:
            s = sign + "0" * rng.randint(1, 3) + "." + "0" * rng.randint(0, 30) + digs
        elif k < 0.85:
            p = rng.randint(1, nd - 1)
            a, b = digs[:p].lstrip("0") or "1", digs[p:].lstrip("0") or "1"
            s = sign + a + "/" + b
        elif k < 0.93:
            p = rng.randint(1, nd - 1)
            s = sign + "0" * rng.randint(1, 2) + digs[:p] + "/" + "0" * rng.randint(0, 2) + digs[p:]
        else:
            p = rng.randint(0, nd - 1)
            s = sign + digs[:p] + rng.choice(["..", "-", "/", "e", "x", ".", "/."]) + digs[p:]
        out.append(s)
    return out


def par_run(exe, text_lines, nproc=8, timeout=3000):
    """run a line-by-line filter on contiguous chunks in parallel; returns (ok, list of output lines)."""
    import subprocess
    import threading
    n = len(text_lines)
    if n < 2000:
        nproc = 1
    nproc = min(nproc, max(1, n))
    chunks = [text_lines[k::nproc] for k in range(nproc)]      # interleaved: expensive cases are spread evenly
    chunks = [c for c in chunks if c]
    outs = [None] * len(chunks)
    rcs = [None] * len(chunks)

    def work(k):
        try:
            p = subprocess.run([exe], input="".join(l + "\n" for l in chunks[k]), stdout=subprocess.PIPE, stderr=subprocess.STDOUT,
                               text=True, errors="replace", timeout=timeout)
            rcs[k], outs[k] = p.returncode, p.stdout
        except subprocess.TimeoutExpired:
            rcs[k], outs[k] = -9, ""
    ths = [threading.Thread(target=work, args=(k,)) for k in range(len(chunks))]
    for t in ths:
        t.start()
    for t in ths:
        t.join()
    res = [""] * n
    ok = True
    for k, c in enumerate(chunks):
        ls = outs[k].split("\n")
        if rcs[k] != 0 or len(ls) < len(c):
            ok = False
        res[k::len(chunks)] = (ls + [""] * len(c))[:len(c)]
    return ok, res


SEEN = {}


def violation(ctx, sig, what, replay):
    """ctx.violation re-reads the known-findings files on every call: report each signature a few times only."""
    SEEN[sig] = SEEN.get(sig, 0) + 1
    if SEEN[sig] <= 3:
        ctx.violation(sig, what, replay)


def regenerate_files():
    """translators: source text -> coq/Num/Gen_*.v.  Runs when the module is imported, i.e. BEFORE bin/check builds the
    Coq development, so that the proofs are always checked against the model fragments of the tree under test."""
    import realstring
    import lexnum
    import normbase
    changed = realstring.main(vlib.REPO, os.path.join(vlib.COQ, "Num", "Gen_RealString.v"))
    changed |= lexnum.main(vlib.REPO, os.path.join(vlib.COQ, "Num", "Gen_LexNum.v"))
    changed |= normbase.main(vlib.REPO, os.path.join(vlib.COQ, "Num", "Gen_Normalize.v"))
    return changed


try:
    REGEN = ("ok", regenerate_files())
except Exception as _e:          # a change of the source the translators do not recognise
    REGEN = ("error", "%s: %s" % (type(_e).__name__, _e))


def regenerate(ctx):
    if REGEN[0] == "error":
        ctx.tie_broken("translator", REGEN[1])
        return False
    if REGEN[1]:
        ctx.note("generated model fragments (Gen_RealString.v / Gen_LexNum.v / Gen_Normalize.v) were rewritten from this tree before the proofs were checked")
    m = re.search(r"normalize_base : N := (\d+)", open(os.path.join(vlib.COQ, "Num", "Gen_Normalize.v")).read())
    ctx.note("normalize() passes base %s to mpq_set_str: model variant string_to_rational_b %s (%s)" %
             (m.group(1), m.group(1), "octal/hex prefixes honoured: fraction_value_refuted applies" if m.group(1) == "0"
              else "decimal only: fraction_value_fixed applies"))
    ic = re.search(r"int_const_canonical : bool := (\w+)", open(os.path.join(vlib.COQ, "Num", "Gen_Normalize.v")).read())
    ctx.note("mkConst(sort_INT, name) names the constant by %s: %s applies" %
             (("the canonical spelling", "int_const_identity_fixed") if ic and ic.group(1) == "true" else ("the raw text", "int_const_identity_refuted")))
    return True


def case_batches(ctx, rng, longs, size=600000):
    lines = []

    def flush():
        nonlocal lines
        out, lines = lines, []
        return out
    for p in sorted(glob.glob(os.path.join(vlib.VERIF, "corpus", "C16", "*.txt"))):
        for l in open(p):
            l = l.rstrip("\n")
            if l and not l.startswith("#"):
                lines.append((l, "corpus"))
    lines.append(("L <empty>", "L:exhaustive"))
    for n in range(1, 5 if ctx.quick else 6):
        for t in itertools.product(FULL, repeat=n):
            lines.append(("L " + "".join(t), "L:exhaustive"))
            if len(lines) >= size:
                yield flush()
    for alpha, n in (((A11, 5), (A8, 6)) if ctx.quick else ((A11, 6), (A8, 7))):
        for t in itertools.product(alpha, repeat=n):
            lines.append(("L " + "".join(t), "L:exhaustive-reduced-digits"))
            if len(lines) >= size:
                yield flush()
    for s in longs:
        lines.append(("L " + s, "L:long"))
    for n in range(1, 5):
        for t in itertools.product(FULL, repeat=n):
            lines.append(("T " + "".join(t), "T:exhaustive"))
    for s in longs[:1500]:
        lines.append(("T " + s, "T:long"))
    for s in ["(assert (= (+ x 007) 7))", "(= x 1.50 -2/3 #b01 #xfF :k)", "(push 1)(pop 1)(get-value (x))", "1.5.5 00.50 0/1 -0 --1 1-2"]:
        lines.append(("T " + s, "T:script"))
    for _ in range(400):
        a = str(abs(numgen.rand_int(rng)))
        z = "0" * rng.randint(0, 3)
        sg = rng.choice(["", "-"])
        b = rng.choice([sg + z + a, sg + a, a, str(abs(numgen.rand_int(rng)))])
        lines.append(("Q %s %s" % (rng.choice([a, sg + z + a]), b), "Q:int-const-spellings"))
    for _ in range(4000 if ctx.quick else 40000):
        n = numgen.rand_int(rng)
        d = abs(numgen.rand_int(rng)) or 1
        if rng.random() < 0.4:
            d = rng.randint(1, 12)
        lines.append(("P %d/%d" % (n, d), "P:print"))
    yield flush()


def process(ctx, rng, exe, h, lines, samples, state):
    ok1, lm = par_run(exe, [l for l, _ in lines])
    if not ok1:
        ctx.tie_broken("num-correspondence-run", "the model driver failed on some chunk")
        return False
    # the scanner's catch-all rule calls exit(1): texts with a predicted ERROR token are not sent to it
    send = [(l, k) if not (l.startswith("T ") and "ERROR" in m) else ("L <empty>", k) for (l, k), m in zip(lines, lm)]
    ok2, li = par_run(h, [l for l, _ in send])
    if not ok2:
        ctx.tie_broken("num-correspondence-run", "the harness failed on some chunk; last output lines: %s" % " / ".join(x for x in li[-400:] if x)[-300:])
        return False

    for ((line, kind), (sent, _), m, i) in zip(lines, send, lm, li):
        op, arg = line[0], line[2:]
        ctx.case(key=line, nontrivial=any(c.isdigit() for c in arg), kind=kind)
        if kind not in samples and rng.random() < (0.0005 if kind.startswith("L:exh") or kind.startswith("T:exh") else 0.02) and any(c.isdigit() for c in arg):
            samples[kind] = dict(case=line, model=m[:300], impl=i[:300])
        if sent != line:
            continue
        if op == "L":
            arg = "" if arg == "<empty>" else arg
            ok = m == i
            if not ok and "garbage" in m:
                # value of a FastRational built from an unparsable string: whatever the recycled mpq_t held
                state["n_garbage"] += 1
                ok = (re.sub(r"Int garbage [^|]*", "Int * ", m) == re.sub(r"Int \S+ [^|]*", "Int * ", i) if "garbage |" in m + " |" and "Int garbage garbage" in m
                      else re.sub(r"Int \S+ ", "Int * ", m) == re.sub(r"Int \S+ ", "Int * ", i))
            if not ok and "nonnum" in m and "CRASH" in i and arg in ("/", "-", "+", "*"):
                ok = m == i.replace("CRASH", "nonnum")     # Logic::mkConst on an operator name: see judge_api
            if not ok:
                ctx.tie_broken("num-correspondence:L", "%r model=%s impl=%s" % (arg, m, i), dict(case=line))
            if i not in TRIVIAL_REJECT or api_expected(arg)[0] != "reject":
                judge_api(ctx, arg, i)
        elif op == "T":
            if m != i:
                ctx.tie_broken("num-correspondence:T", "%r model=%s impl=%s" % (arg, m, i), dict(case=line))
        elif op == "Q":
            if m != i:
                ctx.tie_broken("num-correspondence:Q", "%r model=%s impl=%s" % (arg, m, i), dict(case=line))
            a, b = arg.split()
            want = "true" if int(a) == int(b) else "false"
            for logic, got in zip(("QF_LIA", "QF_UFLIA"), i.split()):
                if got != want:
                    violation(ctx, "api:int-const-identity", "mkEq(mkConst(Int,%r), mkConst(Int,%r)) in %s is %s: equal values spelled differently are "
                                  "different constant terms" % (a, b, logic, got), dict(case=line, impl=i, how="echo '%s' | build/harness/h_num" % line))
        elif op == "P":
            mf, jf = [x.strip() for x in m.split(";")], [x.strip() for x in i.split(";")]
            q = Fraction(*map(int, arg.split("/")))
            if (mf[0], mf[1], mf[3]) != (jf[0], jf[1], jf[3]):
                ctx.tie_broken("num-correspondence:P", "%s model=%s impl=%s" % (arg, m, i), dict(case=line))
            if mf[2] != mf[0]:
                ctx.tie_broken("model-roundtrip", "%s: the model's reader does not read back the model's print: %s" % (arg, m), dict(case=line))
            try:
                ok = read_value(jf[1]) == q and Fraction(jf[0]) == q
            except Exception:
                ok = False
            if not ok:
                violation(ctx, "print:value", "the value %s is printed as %r (termToSMT2String) / %r (get_str), which does not denote it" % (q, jf[1], jf[0]),
                              dict(case=line, impl=i, how="echo '%s' | build/harness/h_num" % line))
    return True


def run(ctx):
    rng = ctx.rng
    regenerate(ctx)
    exe, log = vlib.build_extracted("num")
    if not exe:
        ctx.tie_broken("extraction-num", log)
        return
    h, hlog = vlib.compile_harness("h_num", flags=("-DNDEBUG", "-I" + os.path.join(vlib.IMPL, "src", "parsers", "smt2new")))
    if not h:
        ctx.tie_broken("harness-h_num", hlog)
        return

    # ------------------------------------------------------------------ cases, in batches (memory)
    samples = {}
    state = dict(n_garbage=0)
    longs = long_literals(rng, 3000 if ctx.quick else 40000)
    for lines in case_batches(ctx, rng, longs):
        if not process(ctx, rng, exe, h, lines, samples, state):
            return
    ctx.note("Int constants built from an unparsable spelling (value undefined, compared up to the value): %d" % state["n_garbage"])

    # ------------------------------------------------------------------ front end
    frontend(ctx, rng, exe, longs, samples)
    order = ["L:exhaustive", "L:exhaustive-reduced-digits", "L:long", "T:exhaustive", "Q:int-const-spellings", "P:print", "F:QF_LRA", "F:QF_LIA", "T:long"]
    ctx.samples = [samples[k] for k in order if k in samples][:6]


def judge_api(ctx, s, impl):
    """property-level judgement of one API literal, independent of the model."""
    parts = [p.strip() for p in impl.split("|")]
    if len(parts) != 4:
        return
    kind, val = api_expected(s)
    how = "echo 'L %s' | build/harness/h_num" % (s or "<empty>")
    for logic, got in zip(("QF_LRA", "QF_LIA", "QF_LIRA"), parts[1:]):
        if logic == "QF_LRA":
            want = "real" if kind in ("int", "real") else "reject"
        elif logic == "QF_LIA":
            want = "int" if kind == "int" else "reject"
        else:
            want = kind
        w = got.split(" ", 2)
        if got in ("api", "nonnum"):
            if want != "reject":
                sig = "api:fraction-leading-zero" if "/" in s else "api:rejects-wellformed"
                violation(ctx, sig, "%s: mkConst(%r) is rejected (%s) although it is a well-formed literal of value %s" % (logic, s, got, val), dict(literal=s, impl=impl, how=how))
            continue
        if got == "strconv":
            violation(ctx, "api:strconv-exception", "%s: mkConst(%r): isRealString accepts the text, stringToRational throws strConvException, which is "
                          "not derived publicly from std::exception and is not an ApiException" % (logic, s), dict(literal=s, impl=impl, how=how))
            continue
        if got == "CRASH":
            sig = "api:fraction-zero-denominator-crash" if re.search(r"/0*$", s) and RE_FRAC.match(s) else "api:operator-name-segv"
            violation(ctx, sig, "%s: mkConst(%r) crashes (SIGFPE in mpq_canonicalize for a zero denominator / SIGSEGV in PtStore::lookupSymbol "
                          "for an operator name without arguments)" % (logic, s), dict(literal=s, impl=impl, how=how))
            continue
        if len(w) == 3 and w[0] in ("Int", "Real"):
            if want == "reject":
                cls = "leading-dot" if re.match(r"^-?\.\d+$", s) else "bare-minus" if s == "-" else "other"
                lead0 = RE_FRAC.match(s) and (re.match(r"^-?0\d", s) or re.search(r"/0\d", s))
                violation(ctx, "api:fraction-leading-zero" if lead0 else "api:accepts-malformed:" + cls, "%s: mkConst(%r) yields the %s constant %s although the text is not a well-formed literal" %
                              (logic, s, w[0], w[1]), dict(literal=s, impl=impl, how=how))
                continue
            try:
                held, shown = Fraction(w[1]), read_value(w[2])
            except Exception:
                held = shown = None
            if w[0].lower() != want or held != val or shown != val:
                lead0 = "/" in s and (re.match(r"^-?0\d", s) or re.search(r"/0\d", s))
                violation(ctx, "api:fraction-leading-zero" if lead0 else "api:wrong-value",
                              "%s: mkConst(%r) holds %s %s and prints %s; the literal denotes %s (%s)" % (logic, s, w[0], w[1], w[2], val, want),
                              dict(literal=s, impl=impl, expected=str(val), how=how))
            continue
        violation(ctx, "api:unexpected", "%s: mkConst(%r) -> %s" % (logic, s, got), dict(literal=s, impl=impl, how=how))


def fe_expected(s, logic):
    """('value', v) | ('reject', None) for the text s written where a term is expected."""
    if RE_FE_NUM.match(s):
        return "value", Fraction(s)
    if logic == "QF_LRA":
        if RE_FE_DEC.match(s):
            return "value", Fraction(s)
        if RE_FE_FRAC.match(s):
            n, d = s.split("/")
            return "value", Fraction(int(n), int(d))
    return "reject", None


def frontend(ctx, rng, exe, longs, samples):
    lits = []
    maxlen = 3 if ctx.quick else 4
    for n in range(1, maxlen + 1):
        for t in itertools.product(FE, repeat=n):
            lits.append("".join(t))
    for _ in range(250 if ctx.quick else 3000):
        lits.append("".join(rng.choice(FE) for _ in range(rng.randint(4, 7))))
    lits += [s for s in longs if not any(c in s for c in "xe")][:250 if ctx.quick else 3000]
    lits = list(dict.fromkeys(lits))
    # model: the token stream of each text
    rc, out = vlib.sh(exe, input="".join("T %s\n" % s for s in lits), timeout=600)
    toks = out.split("\n")
    # and what mkConst makes of single-token literals
    rc, out = vlib.sh(exe, input="".join("L %s\n" % s for s in lits), timeout=600)
    mk = out.split("\n")
    for logic, sort, col in (("QF_LRA", "Real", 1), ("QF_LIA", "Int", 2)):
        single, risky = [], []
        pred = {}
        for s, t, m in zip(lits, toks, mk):
            tl = t.split(" ")
            if len(tl) == 1 and tl[0].split(":")[0] in ("NUM", "DEC"):
                r = m.split("|")[col].strip()
                w = r.split(" ", 2)
                pred[s] = ("value", w[2]) if len(w) == 3 else ("error", r)
                single.append(s)
            else:
                if any(x in ("SYM:-", "SYM:/", "SYM:+", "SYM:*") for x in tl):
                    pred[s] = ("operator", t)
                    risky.append(s)
                elif all(x.split(":")[0] in ("NUM", "DEC") for x in tl):
                    pred[s] = ("split", t)
                    single.append(s)
                else:
                    pred[s] = ("error", t)
                    single.append(s)
        results = {}
        for k in range(0, len(single), 80):
            chunk = single[k:k + 80]
            results.update(run_script(logic, sort, chunk))
            for s in chunk:
                if s not in results:          # the batch died: one by one
                    results.update(run_script(logic, sort, [s]))
        for s in risky:
            results.update(run_script(logic, sort, [s]))
        for s in lits:
            rc, block = results.get(s, (None, "(no output)"))
            ctx.case(key="F %s %s" % (logic, s), nontrivial=any(c.isdigit() for c in s), kind="F:" + logic)
            kind_p, what = pred[s]
            if "F:" + logic not in samples and kind_p == "value" and rng.random() < 0.05:
                samples["F:" + logic] = dict(literal=s, logic=logic, output=block, model_prediction=what)
            has_err = "(error" in block
            m = re.search(r"\(\(x (.*)\)\)\s*$", block.strip().split("\n")[-1]) if block.strip() else None
            got_val = m.group(1) if (m and block.strip().startswith("sat") and not has_err) else None
            crashed = rc is not None and rc < 0
            # --- tie: what the model predicts
            if kind_p == "value" and got_val != what:
                ctx.tie_broken("frontend-prediction", "%s %r: model predicts the value %s, output: %s" % (logic, s, what, block[:200]), dict(literal=s, logic=logic))
            if kind_p == "error" and not has_err:
                ctx.tie_broken("frontend-prediction", "%s %r: model predicts a rejection (%s), output: %s" % (logic, s, what, block[:200]), dict(literal=s, logic=logic))
            # --- property
            want, val = fe_expected(s, logic)
            script = make_script(logic, sort, [s])
            if crashed:
                violation(ctx, "frontend:operator-symbol-segv", "%s: the text %r in term position kills the solver (signal %d): an operator symbol "
                              "without arguments reaches PtStore::lookupSymbol" % (logic, s, -rc), dict(script=script, output=block))
            elif got_val is not None and want == "value":
                try:
                    ok = read_value(got_val) == val
                except Exception:
                    ok = False
                if not ok:
                    violation(ctx, "frontend:wrong-value", "%s: literal %s (= %s) gives: %s" % (logic, s, val, block[:200]), dict(script=script, output=block, expected=str(val)))
            elif want == "value":
                # rejected: not allowed for the core SMT-LIB numerals / decimals
                if RE_CORE_NUM.match(s) or (logic == "QF_LRA" and RE_CORE_DEC.match(s)):
                    violation(ctx, "frontend:rejects-wellformed", "%s: the literal %s is not accepted: %s" % (logic, s, block[:200]), dict(script=script, output=block))
            elif not has_err:
                violation(ctx, "frontend:lex-split" if kind_p == "split" else "frontend:accepts-malformed",
                              "%s: the malformed literal %r is accepted without any diagnostic (read as the tokens %s): %s" %
                              (logic, s, what, block.replace("\n", " ")[:120]), dict(script=script, output=block))


def make_script(logic, sort, lits):
    s = "(set-option :produce-models true)\n(set-logic %s)\n(declare-fun x () %s)\n" % (logic, sort)
    for k, l in enumerate(lits):
        s += '(echo "@%d")\n(push 1)\n(assert (= x %s))\n(check-sat)\n(get-value (x))\n(pop 1)\n' % (k, l)
    return s + '(echo "@end")\n'


def run_script(logic, sort, lits):
    rc, so, se = vlib.run_opensmt(make_script(logic, sort, lits), timeout=60)
    blocks = re.split(r"(?m)^@(\d+|end)\n", so)
    # blocks = [pre, '0', text0, '1', text1, ..., 'end', '']
    res = {}
    tags = blocks[1::2]
    texts = blocks[2::2]
    complete = "end" in tags
    for tag, text in zip(tags, texts):
        if tag == "end":
            continue
        k = int(tag)
        if len(lits) == 1:
            res[lits[k]] = (rc if not complete else 0, text)
        elif complete or k < len(tags) - 1 - (0 if complete else 0):
            # in an aborted batch the last block seen is the one that died: leave it (and the rest) for a single run
            if complete or k < len(tags) - 1:
                res[lits[k]] = (0, text)
    if len(lits) == 1 and lits[0] not in res:
        res[lits[0]] = (rc, so)
    return res
