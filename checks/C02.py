"""C02 — a sat answer is never given for an unsatisfiable assertion set."""
import random
import answercheck

META = dict(
    title="A sat answer is never given for an unsatisfiable assertion set",
    category="proof",
    technique="Coq-verified evaluator certifying every sat answer with the solver's own model + Coq proofs about the clausal translation (regenerated Tseitin templates) ; untrusted oracles only for logics without models",
    level_text="PARTIAL. Proved for all inputs (Properties_C02.v): a model accepted by the verified evaluator witnesses satisfiability (so each `sat` "
               "answer that passes is certified correct, whatever the search did); the Tseitin clause templates regenerated from Tseitin.cc on every "
               "run define exactly `aux <-> op(args)` (so a satisfying assignment of the clauses satisfies the formula). Per run: every `sat` "
               "answer on generated scripts (emphasis: integer problems, difference logic with constants beyond 2^31/2^53/2^63, UF+arithmetic) "
               "under several option vectors is certified through get-model; a sat answer whose model is rejected is referred to z3+cvc5.",
    level_note="Trusted: Coq kernel, coq/Sem semantics, extraction, lib/smtlib.py, translate/tseitin_templates.py (pattern-based; fails loudly). "
               "z3/cvc5 untrusted: an `unsat` from both without certificate is labelled ORACLE-ONLY. Array logics have no models: oracle agreement only.",
    design_ref="DESIGN.md §7 C02",
    translators=["tseitin_templates.py"],
    trusted_base=["Coq 8.16.1 kernel", "coq/Sem/Eval.v (SMT-LIB semantics)", "extraction ExtrOcamlBasic/ExtrOcamlString", "lib/smtlib.py, lib/solvercheck.py, lib/answercheck.py",
                  "translate/tseitin_templates.py"],
    assumptions=["generated scripts are well-sorted SMT-LIB"],
    rule="lib/scriptgen.py scripts with p(big constants)=0.45 under the default and two PRNG-chosen option vectors; case = one check-sat answer `sat` "
         "with its get-model output; non-trivial = non-empty active assertion set; distinct = (script, config, check index)",
)


DL_BOUNDS = [2**31 - 1, 2**31, 2**32, 2**53 - 1, 2**53, 2**53 + 1, 2**62, 2**63 - 2]


def dl_boundary_scripts(rng, n):
    """Directed family: difference constraints whose constants straddle word / double / int64 boundaries; each
    script is unsatisfiable by construction (x - y <= c and x - y >= c + 1, or a 3-cycle with total weight -1)."""
    out = []
    for i in range(n):
        c = rng.choice(DL_BOUNDS) + rng.randint(-1, 1)
        if rng.random() < 0.5:
            c = -c
        logic = rng.choice(["QF_IDL", "QF_IDL", "QF_RDL"])
        s = "Int" if logic == "QF_IDL" else "Real"
        lit = lambda v: ("(- %d)" % -v) if v < 0 else "%d" % v
        if rng.random() < 0.6:
            body = ["(assert (<= (- x y) %s))" % lit(c), "(assert (>= (- x y) %s))" % lit(c + 1)]
        else:
            d = rng.randint(-5, 5)
            body = ["(assert (<= (- x y) %s))" % lit(c), "(assert (<= (- y z) %s))" % lit(d), "(assert (<= (- z x) %s))" % lit(-c - d - 1)]
        out.append(("\n".join(["(set-option :produce-models true)", "(set-logic %s)" % logic] +
                              ["(declare-fun %s () %s)" % (v, s) for v in "xyz"] + body + ["(check-sat)", "(get-model)"]) + "\n", logic, c))
    return out


def dl_graph_scripts(rng, n):
    """Directed family: conjunctions of difference constraints forming random weighted digraphs on 5-7 vertices with
    8-14 edges, asserted in random order (negative cycles reachable over several paths of different length); half of them
    in a push/pop history that re-asserts a prefix."""
    out = []
    for i in range(n):
        logic = rng.choice(["QF_IDL", "QF_RDL"])
        srt = "Int" if logic == "QF_IDL" else "Real"
        nv = rng.randint(5, 7)
        vs = ["x%d" % j for j in range(nv)]
        edges = []
        for _ in range(rng.randint(8, 14)):
            a, b = rng.sample(vs, 2)
            edges.append("(assert (<= (- %s %s) %s))" % (a, b, ("(- %d)" % -w if w < 0 else "%d" % w) if (w := rng.randint(-6, 7)) is not None else ""))
        # often close a cycle through a chain so that cycles of length >= 4 exist
        if rng.random() < 0.7:
            chain = rng.sample(vs, rng.randint(4, min(6, nv)))
            for a, b in zip(chain, chain[1:] + chain[:1]):
                w = rng.randint(-3, 2)
                edges.append("(assert (<= (- %s %s) %s))" % (a, b, "(- %d)" % -w if w < 0 else "%d" % w))
        rng.shuffle(edges)
        lines = ["(set-option :produce-models true)", "(set-logic %s)" % logic] + ["(declare-fun %s () %s)" % (v, srt) for v in vs]
        if rng.random() < 0.5:
            k = rng.randint(2, len(edges) - 2)
            lines += edges[:k] + ["(push 1)"] + edges[k:] + ["(check-sat)", "(get-model)", "(pop 1)", "(check-sat)", "(get-model)"]
        else:
            lines += edges + ["(check-sat)", "(get-model)"]
        out.append(("\n".join(lines) + "\n", logic))
    return out


def dl_detour_scripts(rng, n):
    """Directed family: a cycle of 4-6 difference constraints of total weight -1 (unsat) or 0 (sat), mostly 0-weight
    edges, plus 1-3 longer detours through extra vertices between vertices of the cycle, asserted in random order —
    shortest-path / consequence searches must re-expand a vertex that is reached again over a shorter path."""
    out = []
    for i in range(n):
        logic = rng.choice(["QF_IDL", "QF_IDL", "QF_RDL"])
        srt = "Int" if logic == "QF_IDL" else "Real"
        k = rng.randint(4, 6)
        cyc = ["c%d" % j for j in range(k)]
        total = rng.choice([-1, -1, 0])
        ws = [0] * k
        ws[rng.randrange(k)] = total
        if rng.random() < 0.4:
            a, b = rng.sample(range(k), 2)
            d = rng.randint(1, 3)
            ws[a] += d
            ws[b] -= d
        lit = lambda w: "(- %d)" % -w if w < 0 else "%d" % w
        edges = ["(assert (<= (- %s %s) %s))" % (cyc[j], cyc[(j + 1) % k], lit(ws[j])) for j in range(k)]
        extra = []
        det_starts = []
        for dj in range(rng.randint(1, 3)):
            a = rng.randrange(k)
            det_starts.append(a)
            b = (a + rng.randint(2, k - 1)) % k
            m = "d%d" % dj
            extra.append(m)
            edges.append("(assert (<= (- %s %s) %s))" % (cyc[a], m, lit(rng.randint(0, 2))))
            edges.append("(assert (<= (- %s %s) %s))" % (m, cyc[b], lit(rng.randint(2, 6))))
        rng.shuffle(edges)
        # the solver only notices an inconsistency when the closing edge is asserted after its negation became a consequence:
        # usually put a cycle edge last, and the cycle edge ENTERING the start of a detour just before it (the consequence search
        # started by that edge is the one that meets the join vertex over two paths)
        if rng.random() < 0.8:
            jlast = rng.randrange(k)
            last = "(assert (<= (- %s %s) %s))" % (cyc[jlast], cyc[(jlast + 1) % k], lit(ws[jlast]))
            edges.remove(last)
            if rng.random() < 0.7 and det_starts:
                a = rng.choice(det_starts)
                pre = "(assert (<= (- %s %s) %s))" % (cyc[(a - 1) % k], cyc[a], lit(ws[(a - 1) % k]))
                if pre in edges:
                    edges.remove(pre)
                    edges.append(pre)
            edges.append(last)
        # without model production in most cases: an accepted negative cycle makes the model computation diverge, which hides the
        # wrong answer behind a timeout (then the oracles judge the sat answer)
        wm = rng.random() < 0.35
        lines = (["(set-option :produce-models true)"] if wm else []) + ["(set-logic %s)" % logic] + ["(declare-fun %s () %s)" % (v, srt) for v in cyc + extra]
        lines += edges + ["(check-sat)"] + (["(get-model)"] if wm else [])
        out.append(("\n".join(lines) + "\n", logic))
    return out


def lattice_scripts(rng, n):
    """Directed family (QF_LIA / QF_UFLIA): constraints that are feasible over the rationals but not over the integers
    (parity equations a*x + b*y = c with gcd(a,b) not dividing c, open unit strips 0 < 2x-2y < 2, small lattice-free
    triangles), posed in the second or later check-sat of a push/pop history whose first checks are satisfiable."""
    out = []
    for i in range(n):
        vs = ["x", "y", "z"]
        def warm():
            a, b = rng.sample(vs, 2) if rng.random() < 0.5 else rng.sample(["u", "w"], 2)
            return "(assert (<= (+ %s %s) %d))" % (a, b, rng.randint(3, 9))
        k = rng.random()
        if k < 0.15:
            g = rng.choice([2, 3, 4, 6])
            a, b = g * rng.randint(1, 3), g * rng.randint(1, 3)
            c = g * rng.randint(-3, 3) + rng.randint(1, g - 1)
            hard = ["(assert (= (+ (* %d x) (* %d y)) %d))" % (a, b, c)]
        elif k < 0.3:
            m = rng.choice([2, 3, 5])
            hard = ["(assert (< 0 (- (* %d x) (* %d y))))" % (m, m), "(assert (< (- (* %d x) (* %d y)) %d))" % (m, m, m)]
        else:
            # a random lattice-free polygon inside the box [-8,8]^2: real-feasible (some vertex satisfies all constraints),
            # no integer point (exhaustive over the box) -- needs branch-and-bound or cuts, not just bound tightening
            from fractions import Fraction
            hard = None
            for _ in range(400):
                cs = [(rng.randint(-4, 4), rng.randint(-4, 4), rng.randint(-6, 6)) for _ in range(rng.randint(3, 4))]
                cs = [c for c in cs if (c[0], c[1]) != (0, 0)]
                if len(cs) < 3:
                    continue
                allc = cs + [(1, 0, 8), (-1, 0, 8), (0, 1, 8), (0, -1, 8)]
                sat_pt = False
                for i1 in range(len(allc)):
                    for i2 in range(i1 + 1, len(allc)):
                        a1, b1, c1 = allc[i1]
                        a2, b2, c2 = allc[i2]
                        det = a1 * b2 - a2 * b1
                        if det == 0:
                            continue
                        px, py = Fraction(c1 * b2 - c2 * b1, det), Fraction(a1 * c2 - a2 * c1, det)
                        if all(a * px + b * py <= c for a, b, c in allc):
                            sat_pt = True
                            break
                    if sat_pt:
                        break
                if not sat_pt:
                    continue
                if any(all(a * ix + b * iy <= c for a, b, c in cs) for ix in range(-8, 9) for iy in range(-8, 9)):
                    continue
                hard = ["(assert (<= (+ (* %s x) (* %s y)) %s))" % tuple(("(- %d)" % -v if v < 0 else "%d" % v) for v in c) for c in cs]
                hard += ["(assert (<= (- 8) x))", "(assert (<= x 8))", "(assert (<= (- 8) y))", "(assert (<= y 8))"]
                break
            if hard is None:
                hard = ["(assert (<= (- (* 3 x) y) 2))", "(assert (<= (- (* 2 y) x) (- 1)))", "(assert (<= (- (- x) y) 0))"]
        lines = ["(set-option :produce-models true)", "(set-logic QF_LIA)"] + ["(declare-fun %s () Int)" % v for v in vs + ["u", "w"]]
        lines += ["(push 1)", warm(), warm(), warm(), "(check-sat)", "(get-model)", "(pop 1)"]
        if rng.random() < 0.5:
            lines += ["(push 1)"]
        lines += [warm()] + hard + ["(check-sat)", "(get-model)"]
        out.append(("\n".join(lines) + "\n", "QF_LIA"))
    return out


def cnf_tie(ctx, n):
    """clauses handed to the SAT engine vs the preprocessed formula, judged by the extracted verified truth table"""
    import os, random
    import concurrent.futures as cf
    import vlib, scriptgen, cnftie
    import solvercheck as sc
    exe, log = vlib.build_extracted("cnf")
    if not exe:
        ctx.tie_broken("extraction-cnf", log)
        return

    def one(i):
        rng = random.Random(ctx.seed * 49979687 + i)
        opts = rng.choice([(), (), (":produce-interpolants true",), (":produce-unsat-cores true",), (":incremental 0",)])
        text, meta = scriptgen.gen_script(rng, incremental=rng.random() < 0.5 and opts != (":incremental 0",), queries=(), produce_models=False,
                                          options=opts, logics=["QF_BOOL", "QF_BOOL", "QF_UF", "QF_LRA", "QF_LIA", "QF_IDL", "QF_UFLRA"], depth=rng.choice([2, 3, 3]))
        tr = os.path.join(vlib.BUILD, "tmp", "c02_%d_%d.trace" % (os.getpid(), i))
        os.makedirs(os.path.dirname(tr), exist_ok=True)
        if os.path.exists(tr):
            os.remove(tr)
        rc, out, err = vlib.run_opensmt(text, timeout=10, env_extra={"OPENSMT_VERIF_TRACE": tr})
        qs, stats = (None, {})
        if os.path.exists(tr) and rc in (0, 1):
            s0 = sc.Script(text)
            s0.run()
            try:
                qs, stats = cnftie.queries_from_trace(tr, s0.sig)
            except Exception as e:       # glue problem: reported as a broken tie below
                qs, stats = None, {"exception": repr(e)}
        if os.path.exists(tr):
            os.remove(tr)
        return text, meta, rc, qs, stats, opts
    with cf.ThreadPoolExecutor(max_workers=12) as ex:
        res = list(ex.map(one, range(n)))
    lines, owner = [], []
    for text, meta, rc, qs, stats, opts in res:
        if rc not in (0, 1):
            continue
        if qs is None:
            ctx.tie_broken("cnf-trace-reading", str(stats), dict(script=text))
            continue
        for q in qs:
            lines.append(q[2])
            owner.append((text, q, opts))
        ctx.case(key=("cnf", text), nontrivial=len(qs) > 2, kind="cnf-tie:%s:checks=%d" % (meta["logic"], stats.get("checks", 0)),
                 sample=dict(script=text, queries=len(qs), atoms=stats.get("atoms")))
        ctx.count("cnf-tie:skipped-too-many-atoms", stats.get("skipped-too-many-atoms", 0))
    if not lines:
        return
    rc, out = vlib.sh([exe], input="\n".join(lines) + "\n", timeout=900)
    verdicts = out.split("\n")
    if rc != 0 or len(verdicts) < len(lines):
        ctx.tie_broken("cnf-driver", out[-300:])
        return
    ctx.count("cnf-tie:validity-queries", len(lines))
    for (text, q, opts), v in zip(owner, verdicts):
        if v != "valid":
            kind = q[1]
            ctx.tie_broken("cnf-correspondence:" + kind,
                           "check %d: %s is not valid (%s): %s" % (q[0], kind, v, q[3][:200]), dict(script=text, options=list(opts), formula=q[2][:2000]))


def bool_uf_scripts(rng, n):
    """Uninterpreted symbols over Bool arguments; some Booleans occur only inside such applications, so nothing but the
    theory solver sees them (the Boolean domain has two elements: pigeonhole conflicts)."""
    import scriptgen
    out = []
    for i in range(n):
        r = random.Random(rng.randint(0, 2**40))
        lg = r.choice(["QF_UF", "QF_UF", "QF_UFLIA", "QF_UFLRA"])
        t, meta = scriptgen.gen_script(r, logic=lg, incremental=r.random() < 0.3, force_bargs=True, queries=("model",), nassert=r.randint(2, 5))
        out.append((t, lg))
    return out


def directed(ctx, scripts, tag, cfg="default"):
    import solvercheck as sc
    jobs = [(t, cfg, answercheck.CONFIGS[cfg], None, 10, True, False, lg) for t, lg in scripts]
    for (t, lg), (rc, res, out, err, tt, judged) in zip(scripts, answercheck.run_jobs(jobs)):
        ans = answercheck.answers_of(t, res, out) if rc in (0, 1) else None
        if not ans:
            ctx.count("%s:no-answer" % tag)
            continue
        for k, a, frames, sig, model in ans:
            v = judged.get(k)
            ctx.case(key=(t, k), nontrivial=True, kind="%s:%s:%s:%s" % (tag, lg, a, v[0] if v else "-"), sample=dict(script=t, check_index=k, answer=a))
            if a == "sat" and v and v[0] == "refuted-oracles":
                A = sc.active_assertions(frames)
                ctx.violation("wrong-sat:refuted-oracles:%s:%s" % (answercheck.signature_tail(lg, cfg, A, "(push" in t), tag),
                              "answered sat (own model rejected by the verified evaluator: %s) while z3 and cvc5 say unsat (ORACLE-ONLY), family %s" % (v[1], tag),
                              dict(script=t, check_index=k))


def run(ctx):
    import solvercheck as sc
    directed(ctx, dl_graph_scripts(ctx.rng, 60 if ctx.quick else 480), "dl-graph")
    directed(ctx, dl_detour_scripts(ctx.rng, 240 if ctx.quick else 1900), "dl-detour")
    directed(ctx, lattice_scripts(ctx.rng, 80 if ctx.quick else 640), "lattice")
    bu = bool_uf_scripts(ctx.rng, 120 if ctx.quick else 960)
    directed(ctx, bu, "bool-uf")
    directed(ctx, [(t, lg) for t, lg in bu if "(push" not in t and t.count("(check-sat)") == 1], "bool-uf", cfg="non-incremental")
    cnf_tie(ctx, 90 if ctx.quick else 720)
    answercheck.run_corpus(ctx, "C02", judge_sat=True, judge_unsat=False)
    for text, logic, c in dl_boundary_scripts(ctx.rng, 40 if ctx.quick else 320):
        rc, res, out, err = sc.run_aligned(text, timeout=10)
        ans = answercheck.answers_of(text, res, out) if rc in (0, 1) else None
        if not ans:
            ctx.count("dl-boundary:no-answer")
            continue
        k, a, frames, sig, model = ans[0]
        ctx.case(key=text, nontrivial=True, kind="dl-boundary:%s:%s" % (logic, a), sample=dict(script=text, answer=a))
        if a == "sat":
            A = sc.active_assertions(frames)
            v, detail = sc.judge_sat(sig, logic, sc.decl_lines(text), A, model)
            if v != "certified":
                ctx.violation("wrong-sat:%s:%s" % (v, answercheck.signature_tail(logic, "default", A)),
                              "answered sat for difference constraints that are unsatisfiable by construction (cycle of weight -1); own model rejected by the verified evaluator (%s)" % detail,
                              dict(script=text, constant=str(c)))
    answercheck.sweep(ctx, "C02", 50 if ctx.quick else 400, 2, judge_sat=True, judge_unsat=False,
                      gen_kwargs=dict(p_incremental=0.35, p_big=0.0, p_special=0.6, stream=1), logics=["QF_UF", "QF_UF", "QF_UF", "QF_UFLIA", "QF_UFLRA"])
    answercheck.sweep(ctx, "C02", 90 if ctx.quick else 720, 3, judge_sat=True, judge_unsat=False,
                      gen_kwargs=dict(p_incremental=0.35, p_big=0.45),
                      logics=["QF_LIA", "QF_LIA", "QF_IDL", "QF_IDL", "QF_RDL", "QF_UFLIA", "QF_UFLRA", "QF_LRA", "QF_UF", "QF_BOOL"])
