"""C25 — asynchronous stop never produces a wrong answer (partial)."""
import math
import os
import shutil
import sys
import time

import vlib
import conclib

sys.path.insert(0, os.path.join(vlib.VERIF, "translate"))
import stop_flag  # noqa: E402

META = dict(
    title="Asynchronous stop never produces a wrong answer",
    category="proof",
    technique="Coq proof over the control skeleton of solve_/search/eliminate and MainSolver::check with an adversarial stop flag "
              "(inner steps abstract) + translator regenerating flag atomicity and poll sites from the source + API harness issuing "
              "stop requests from a second thread at PRNG-chosen moments + ThreadSanitizer",
    level_text="PARTIAL. Proved for every instantiation of the work between two polls: a stop request before any micro-step makes the "
               "skeleton return unknown or exactly the answer of the undisturbed run (stop_answer_safe, check_stop_answer_safe), with "
               "the closed form `unknown iff the request is visible before the last poll` (stop_prediction). The state AFTER an "
               "interrupted call (c25_state_after_stop) is stated over a constant regenerated from search(): when the conflict found by "
               "propagate() is handled before the poll, then relative to sound inner steps (hypotheses naming C01/C02) any behaviour of "
               "the flag gives unknown or the truth, leaves the frame bookkeeping untouched and the state good "
               "(stop_answer_correct, stop_then_state_consistent); when the poll comes first, a sound instantiation exists for which "
               "the next check-sat answers sat on an unsatisfiable problem. The lookahead loop does not read the flag "
               "(lookahead_ignores_stop: recorded liveness gap, allowed by the property). Not proved: real interleavings and the C++ "
               "memory model - runtime behaviour a Gallina model cannot exhibit; the flag as a memory location is modelled only as "
               "'conflicting unordered accesses to a non-atomic object' (c25_flag_discipline, over the declared types regenerated "
               "from the source).",
    level_note="Which branches are the proved ones follows the source: since /repo 26adfbb search() handles a conflict before the poll "
               "(poll_after_conflict = false: c25_state_after_stop is the positive statement) and since c9d9bc3 both flags are "
               "std::atomic<bool> (atomic = true: no trace has a data race); before those commits the refutation branches were proved and "
               "the check exhibited a deterministic wrong `sat` after a stop (corpus/C25, still run first on every check) and the "
               "ThreadSanitizer race (known_findings/C25.json, now `fixed`). Trusted: Coq kernel, extraction, ocaml/conc_driver.ml, "
               "translate/stop_flag.py (pattern recognition), harness/h_stop.cc, the poll-counter hook in okContinue (add-only, raises "
               "the flag from the polling thread), ThreadSanitizer, z3 (oracle for the reference answers, notes only). Timing-based "
               "requests explore the moments the scheduler happens to give; hook-based requests are exact and compared with the model.",
    design_ref="DESIGN.md §7 C25, design/C25.md",
    trusted_base=["Coq 8.16.1 kernel; vm_compute in the examples and race_plain_flag",
                  "extraction: Require Import ExtrOcamlBasic ExtrOcamlString; no Extract Constant / Extract Inductive of our own",
                  "ocaml/conc_driver.ml", "translate/stop_flag.py -> coq/Conc/Gen_StopFlag.v", "harness/h_stop.cc",
                  "g++ -fsanitize=thread (ThreadSanitizer)", "z3 as untrusted oracle (notes only)"],
    assumptions=["C01/C02: every piece of solver work between two polls preserves the consistency of the solver state with the assertion "
                 "stack and reports sat/unsat only when true (Section hypotheses of stop_answer_correct)",
                 "no happens-before edge exists between the requesting and the solving thread (the API offers none)"],
    rule="instances: pigeon-hole style QF_UF/QF_LRA/QF_LIA (unsat n+1 into n, sat n into n, also with coefficients beyond 2^40), random "
         "3-SAT near the threshold, PRNG big-coefficient LRA/LIA, PRNG QF_UF, trivial ones; each answered within 5 s by the working-tree "
         "binary (reference, cross-checked with z3). trials per instance: no request; request before check(); request after a PRNG spin "
         "count / PRNG microseconds (log-uniform up to 1.5x the instance's solving time) after the solving thread announced check(); "
         "solver-local and global requests; with the counter hook also 'visible at poll n' for n around 0 and around the poll count. "
         "A trial is non-trivial when the request was issued (all but the reference trials); distinct = (instance text, trial).",
)

_tr = {}
_saved = set()


def prepare(ctx):
    r = stop_flag.regenerate(vlib.REPO)
    _tr.update(r)
    if not r["ok"]:
        ctx.tie_broken("stop-flag-translator", "translate/stop_flag.py does not recognise the stop-flag code any more: " + r["detail"])


def _lap(ctx, label):
    now = time.time()
    ctx.extra.setdefault("stage_seconds", {})[label] = round(now - getattr(ctx, "_lap", ctx.t0), 1)
    ctx._lap = now


def logu(rng, hi):
    """log-uniform integer in [0, hi]"""
    return int(math.exp(rng.random() * math.log(hi + 1))) - 1 if hi > 0 else 0


def make_instances(ctx):
    rng = ctx.rng
    cands = []
    if ctx.quick:
        cands += [("php-uf-unsat", conclib.pigeon("QF_UF", 8, 7, rng=rng)), ("php-lra-unsat-big", conclib.pigeon("QF_LRA", 8, 7, rng=rng, big=True)),
                  ("php-lia-unsat", conclib.pigeon("QF_LIA", 8, 7, rng=rng)), ("php-lra-sat", conclib.pigeon("QF_LRA", 24, 24, rng=rng)),
                  ("php-lia-sat-big", conclib.pigeon("QF_LIA", 24, 24, rng=rng, big=True)), ("3sat", conclib.sat3(rng, 260)),
                  ("3sat", conclib.sat3(rng, 200, 4.3))]
        nr = 2
    else:
        for _ in range(3):
            cands += [("php-uf-unsat", conclib.pigeon("QF_UF", 8, 7, rng=rng)), ("php-uf-unsat", conclib.pigeon("QF_UF", 9, 8, rng=rng)),
                      ("php-lra-unsat", conclib.pigeon("QF_LRA", 8, 7, rng=rng)), ("php-lra-unsat-big", conclib.pigeon("QF_LRA", 8, 7, rng=rng, big=True)),
                      ("php-lia-unsat", conclib.pigeon("QF_LIA", 8, 7, rng=rng)), ("php-lia-unsat-big", conclib.pigeon("QF_LIA", 7, 6, rng=rng, big=True)),
                      ("php-lra-sat", conclib.pigeon("QF_LRA", 30, 30, rng=rng)), ("php-lra-sat-big", conclib.pigeon("QF_LRA", 24, 24, rng=rng, big=True)),
                      ("php-lia-sat", conclib.pigeon("QF_LIA", 30, 30, rng=rng)), ("php-uf-sat", conclib.pigeon("QF_UF", 12, 12, rng=rng)),
                      ("3sat", conclib.sat3(rng, 260)), ("3sat", conclib.sat3(rng, 300)), ("3sat", conclib.sat3(rng, 220, 4.3))]
        nr = 8
    for _ in range(nr):
        cands += [("rnd-arith-big", conclib.arith_big(rng, rng.choice(["QF_LRA", "QF_LIA"]))), ("rnd-uf", conclib.uf_random(rng)),
                  ("rnd-lia-cuts", conclib.lia_cuts(rng)), ("trivial", conclib.trivial(rng))]
    # option vectors that change what runs before / instead of the CDCL search: the default is :incremental true
    # (no SatELite preprocessing at all); :incremental false turns variable elimination / subsumption on;
    # :pure-lookahead uses the lookahead solver; :produce-proofs switches the preprocessor off again and logs
    # the resolution proof.  Small instances on which elimination really happens get an exhaustive sweep of the
    # stop moment (marked sweep).
    NONINC = [(":incremental", "false")]
    small = [("php-bool", conclib.pigeon("QF_UF", 4, 3, rng=rng)), ("php-bool", conclib.pigeon("QF_UF", 5, 4, rng=rng)),
             ("xor-chain-unsat", conclib.xor_chain(rng, rng.randint(6, 10), False)), ("xor-chain-sat", conclib.xor_chain(rng, rng.randint(6, 10), True)),
             ("3sat-small", conclib.sat3(rng, 20, 4.3)), ("3sat-small", conclib.sat3(rng, 24, 4.0)),
             ("php-lra", conclib.pigeon("QF_LRA", 4, 3, rng=rng)), ("php-lia-big", conclib.pigeon("QF_LIA", 4, 3, rng=rng, big=True)),
             ("rnd-uf", conclib.uf_random(rng))]
    if not ctx.quick:
        small += [("php-bool", conclib.pigeon("QF_UF", 6, 5, rng=rng)), ("xor-chain-unsat", conclib.xor_chain(rng, 14, False)),
                  ("3sat-small", conclib.sat3(rng, 30, 4.2)), ("php-lra", conclib.pigeon("QF_LRA", 5, 4, rng=rng, big=True)),
                  ("rnd-arith-big", conclib.arith_big(rng, "QF_LRA")), ("rnd-lia-cuts", conclib.lia_cuts(rng))]
    for fam, txt in small:
        cands.append((fam + "+noninc!sweep", conclib.with_options(txt, NONINC)))
    for fam, txt in small[:3] + small[6:7]:
        cands.append((fam + "+lookahead!sweep", conclib.with_options(txt, [(":pure-lookahead", "true")])))
        cands.append((fam + "+noninc+proofs!sweep", conclib.with_options(txt, [(":produce-proofs", "true")] + NONINC)))
    # the medium instances again with the preprocessor on
    for fam, txt in list(cands[:7 if ctx.quick else 13]):
        if not fam.startswith("corpus"):
            cands.append((fam + "+noninc", conclib.with_options(txt, NONINC)))
    corpus = []
    cdir = os.path.join(vlib.VERIF, "corpus", "C25")
    if os.path.isdir(cdir):
        for f in sorted(os.listdir(cdir)):
            if f.endswith(".smt2"):
                corpus.append(("corpus-" + f[:-5], open(os.path.join(cdir, f)).read()))
    cands = corpus + cands
    out = []
    for fam, t in cands:
        t0 = time.time()
        rc, o, e = vlib.run_opensmt(t + "(check-sat)\n", timeout=5)
        dt = time.time() - t0
        ans = [l for l in o.split("\n") if l.strip() in ("sat", "unsat")]
        if rc == 0 and len(ans) == 1:
            out.append(dict(family=fam.split("!")[0], sweep=fam.endswith("!sweep"), text=t, ref=ans[0].strip(), secs=dt))
    return out


def replay(ctx):
    """bin/check C25 --replay <violation json>: repeat the saved harness process and judge its last trial again"""
    import json
    import re
    v = json.load(open(ctx.replay_path))
    rp = v.get("replay") or {}
    m = re.search(r"run (\S+)/i\*\.smt2 < (\S+)", str(rp.get("how", "")))
    if not m:
        ctx.note("replay: nothing to re-run in %s (ThreadSanitizer reports are re-obtained by the normal run)" % ctx.replay_path)
        return False
    h, hlog = vlib.compile_harness("h_stop")
    if not h:
        ctx.tie_broken("harness-h_stop", hlog)
        return True
    d = m.group(1)
    paths = sorted(os.path.join(d, f) for f in os.listdir(d) if f.endswith(".smt2"))
    rc, out = vlib.sh([h, "run"] + paths, input=open(m.group(2)).read(), timeout=3000)
    lines = [l for l in out.split("\n") if l.startswith("trial ")]
    ref = rp.get("reference")
    if not lines:
        ctx.violation(v["signature"], "replay: h_stop died rc=%s: %s" % (rc, out[-300:]), rp)
        return True
    f = dict(x.split("=", 1) for x in lines[-1].split()[2:] if "=" in x)
    ctx.case(key="replay:" + lines[-1], nontrivial=True, kind="replay", sample=dict(line=lines[-1], reference=ref))
    if f["r1"] not in ("unknown", ref) or f["r2"] not in ("unknown", ref) or "bad" in (f["m1"], f["m2"]):
        ctx.violation(v["signature"], "replay reproduces: %s (reference %s)" % (lines[-1], ref), rp)
    else:
        ctx.note("replay does not reproduce: %s (reference %s)" % (lines[-1], ref))
    return True


def run(ctx):
    if getattr(ctx, "replay_path", None) and replay(ctx):
        return
    _lap(ctx, "coq+build")
    # atomic: True / False as declared in the source; None when the translator did not recognise the code
    # (tie already reported broken in prepare; the implementation is still searched for a failing trial)
    atomic = _tr["atomic"] if _tr.get("ok") else None
    ctx.note("translator: %s; anchors %s" % (_tr.get("detail"), _tr.get("anchors")))
    for n in _tr.get("notes", []):
        ctx.note("translator: " + n)
    if _tr.get("ok") and _tr.get("polls_elsewhere"):
        ctx.tie_broken("poll-inside-atomic-work", "%d call(s) of okContinue() outside the poll sites of the model (solve_, search, the loop "
                       "heads of eliminate / backwardSubsumptionCheck): the work between two polls is no longer one sound step "
                       "(c25_model_matches_source_polls)" % _tr["polls_elsewhere"])
    if _tr.get("ok") and not _tr["polls_lookahead"]:
        ctx.note("liveness gap (allowed by C25): LookaheadSMTSolver::solve_ never polls the stop flag; a request during a lookahead "
                 "search is ignored until the search ends (theorem lookahead_ignores_stop)")
    exe, log = vlib.build_extracted("conc")
    if not exe:
        ctx.tie_broken("extraction-conc", log)
        return
    rc, out = vlib.sh(exe, input="consts\n", timeout=60)
    if atomic is not None and ("atomic=%s" % ("true" if atomic else "false")) not in out:
        ctx.tie_broken("gen-stopflag-stale", "extracted constant says %r, translator says atomic=%s" % (out.strip(), atomic))
        return
    h, hlog = vlib.compile_harness("h_stop")
    if not h:
        ctx.tie_broken("harness-h_stop", hlog)
        return

    # ---- the extracted skeleton on PRNG scripts: stop at poll n vs the proved closed form -----------------
    reqs, meta = [], []
    for _ in range(150 if ctx.quick else 2000):
        ds = ctx.rng.choice(["0", "1"])
        ev = []
        if ds == "1":
            for _e in range(ctx.rng.randint(0, 3)):
                ev.append("e+")
            ev.append(ctx.rng.choice(["e.", "e.", "e.", "e!"]))
        for _s in range(ctx.rng.randint(1, 4)):
            ev.append(ctx.rng.choice(["i-", "i-", "i-", "iF"]))
            if ev[-1] == "i-":
                for _i in range(ctx.rng.randint(0, 5)):
                    ev += [ctx.rng.choice(["p-", "p-", "p+"]), "r-"]
                c = ctx.rng.choice(["p-", "p-", "p+"])
                ev += [c, ctx.rng.choice(["rU", "rU", "rT", "rF"] if c == "p-" else ["rF", "r-", "rU"])]
            if ev[-1] in ("iF", "rT", "rF"):
                break
        else:
            ev += ["i-", "p-", ctx.rng.choice(["rT", "rF"])]
        n = ctx.rng.randint(0, 14)
        reqs += ["stop %s -1 %s" % (ds, " ".join(ev)), "stop %s %d %s" % (ds, n, " ".join(ev))]
        meta.append((ds, n, ev))
    rc, out = vlib.sh(exe, input="\n".join(reqs) + "\n", timeout=600)
    lines = out.strip().split("\n")
    if rc != 0 or len(lines) != len(reqs):
        ctx.tie_broken("stop-model-scripts", "rc=%s lines %d/%d %s" % (rc, len(lines), len(reqs), out[-300:]))
    else:
        preds = []
        for k, (ds, n, ev) in enumerate(meta):
            r0, N = lines[2 * k].split()
            preds.append("predict %s %s %d" % (N, r0, n) if r0 != "none" else "consts")
        rc, pout = vlib.sh(exe, input="\n".join(preds) + "\n", timeout=600)
        pl = pout.strip().split("\n")
        for k, (ds, n, ev) in enumerate(meta):
            r0, N = lines[2 * k].split()
            r1 = lines[2 * k + 1].split()[0]
            ctx.case(key="script:%s:%d:%s" % (ds, n, " ".join(ev)), nontrivial=True, kind="model-script:" + ("seen" if n < int(N) else "not-seen"),
                     sample=dict(script=" ".join(ev), do_simp=ds, stop_at_poll=n, nostop="%s after %s polls" % (r0, N), with_stop=lines[2 * k + 1]) if k < 2 else None)
            if r0 != "none" and pl[k] != r1:
                ctx.tie_broken("stop-model-vs-theorem", "extracted skeleton gives %s, stop_prediction gives %s (script %s, n=%d)" % (r1, pl[k], " ".join(ev), n))
            if r1 not in ("U", r0):
                ctx.tie_broken("stop-model-vs-theorem", "extracted skeleton answers %s with a stop, %s without (contradicts stop_answer_safe)" % (r1, r0))
    _lap(ctx, "model-scripts")

    # ---- instances and their reference answers --------------------------------------------------------------
    insts = make_instances(ctx)
    if len(insts) < 6:
        ctx.tie_broken("instances", "only %d instances answered within 5 s by the working-tree binary" % len(insts))
        return
    nz = 0
    for it in insts:
        z = conclib.oracle(it["text"], timeout=20)
        it["z3"] = z
        if z in ("sat", "unsat") and z != it["ref"]:
            nz += 1
            ctx.note("z3 says %s, OpenSMT says %s without any stop (C01/C02 business): %s" % (z, it["ref"], it["text"][:160].replace("\n", " ")))
    ctx.note("%d instances (%s); reference answers agree with z3 on %d, z3 unknown on %d, disagree on %d" % (
        len(insts), ", ".join(sorted({i["family"] for i in insts})), sum(1 for i in insts if i["z3"] == i["ref"]),
        sum(1 for i in insts if i["z3"] == "unknown"), nz))
    _lap(ctx, "instances")
    d, paths = conclib.write_instances("C25", [i["text"] for i in insts])
    try:
        # which build is this: with the counter hook?
        rc, out = vlib.sh([h, "run"] + paths[:1], input="0 none\n", timeout=120)
        hook = "hook=1" in out
        ctx.note("counter hook (proposed_hooks/C25_stop_counter.diff) %s in this build" % ("present: exact stop points compared with the model" if hook else "absent: timing-based requests only"))
        trials = []
        per = 8 if ctx.quick else 14
        for k, it in enumerate(insts):
            trials.append((k, "none", "-", 0))
            trials.append((k, "pre", "local", 0))
            trials.append((k, "pre", "global", 0))
            us_hi = int(it["secs"] * 1.5e6) + 200
            for _ in range(per):
                which = ctx.rng.choice(["local", "global", "global"])
                if ctx.rng.random() < 0.5:
                    trials.append((k, "spin", which, logu(ctx.rng, 30_000_000)))
                else:
                    trials.append((k, "us", which, logu(ctx.rng, us_hi)))
        res = run_trials(ctx, h, paths, trials, insts)
        if res is None:
            return
        judge(ctx, insts, trials, res, atomic, paths)
        _lap(ctx, "timed-trials")
        if hook:
            N = {}
            for t, r in zip(trials, res):
                if t[1] == "none":
                    N[t[0]] = int(r["polls"])
            ptr = [(k, "none", "-", 0) for k in range(len(insts))] * 2
            for k, it in enumerate(insts):
                n0 = N.get(k, 0)
                pts = {0, 1, 2, max(0, n0 - 2), max(0, n0 - 1), n0, n0 + 1} | {ctx.rng.randrange(n0 + 3) for _ in range(6 if ctx.quick else 14)}
                if it.get("sweep") and n0 <= (700 if ctx.quick else 3000):
                    # every stop moment, global (so that it can be reset and the NEXT check-sat judged)
                    for n in range(n0 + 1):
                        ptr.append((k, "poll", "global", n))
                    pts = {p_ for p_ in pts if ctx.rng.random() < 0.3}
                for n in sorted(pts):
                    ptr.append((k, "poll", ctx.rng.choice(["local", "global"]), n))
                if n0 > 0:      # the request lands on the last poll and is reset: the next check-sat must still be right
                    ptr.append((k, "poll", "global", n0 - 1))
            ptr += [(k, "none", "-", 0) for k in range(len(insts))]
            pres = run_trials(ctx, h, paths, ptr, insts)
            if pres is not None:
                judge(ctx, insts, ptr, pres, atomic, paths)
                # the undisturbed run must be the same run every time for the closed form to apply
                Ns = {}
                for t, r in zip(ptr, pres):
                    if t[1] == "none":
                        Ns.setdefault(t[0], set()).add(int(r["polls"]))
                unstable = sorted(k for k, s in Ns.items() if len(s) > 1)
                if unstable:
                    ctx.count("instances-with-history-dependent-run", len(unstable))
                    ctx.note("%d of %d instances (%s) do not repeat their own undisturbed run inside one process (poll counts e.g. %s): "
                             "exact prediction skipped for them, per-trial consistency still checked. Cause seen in the source: process-wide "
                             "static counters (LASolver::shouldTryCutFromProof, Enode::cgid_ctr) - the C24 findings" % (
                                 len(unstable), len(insts), ", ".join(sorted({insts[k]["family"] for k in unstable})), sorted(Ns[unstable[0]])))
                m = {"sat": "T", "unsat": "F", "unknown": "U"}
                pt = [(t, r) for t, r in zip(ptr, pres) if t[1] == "poll"]
                rq = ["predict %d %s %d" % (min(Ns[t[0]]), m[insts[t[0]]["ref"]], t[3]) for t, _ in pt]
                rc, pout = vlib.sh(exe, input="\n".join(rq) + "\n", timeout=600)
                pl = pout.strip().split("\n")
                for (t, r), p in zip(pt, pl):
                    n, polls, fam = t[3], int(r["polls"]), insts[t[0]]["family"]
                    # stop_effective / stop_not_seen, per trial: seen at poll n <=> more than n polls happened
                    # Exact poll count until return: n+1 (seen by solve_'s loop head) or n+2 (seen in search, then solve_'s head).
                    # With the preprocessor on, the model merges the simplifier's nested poll sites (per variable, inside
                    # backwardSubsumptionCheck, per round) into one; a request seen at an inner site is seen again at the
                    # enclosing ones before `cleanup`, so there only "seen <=> more than n polls" is compared.
                    simp = ":incremental false" in insts[t[0]]["text"]
                    if r["r1"] == "unknown" and (polls <= n or (not simp and polls > n + 2)):
                        ctx.tie_broken("stop-prediction-polls", "%s: request visible at poll %d, unknown after %d polls; the model allows %s" % (
                            fam, n, polls, "more than %d" % n if simp else "%d or %d" % (n + 1, n + 2)))
                    if r["r1"] in ("sat", "unsat") and polls > n:
                        ctx.tie_broken("stop-seen-but-definitive", "%s: the request was raised at poll %d (%d polls done) and check() still answered %s; "
                                       "stop_effective says unknown" % (fam, n, polls, r["r1"]), dict(instance=insts[t[0]]["text"], poll=n))
                    if t[0] not in unstable and m.get(r["r1"]) != p:
                        ctx.tie_broken("stop-prediction", "instance %s (%s polls, %s): request visible at poll %d gives %s, the model predicts %s" % (
                            fam, sorted(Ns[t[0]]), insts[t[0]]["ref"], n, r["r1"], p), dict(instance=insts[t[0]]["text"], poll=n))
            _lap(ctx, "poll-trials")

        # ---- the flags as memory locations: ThreadSanitizer ---------------------------------------------------
        ts, tlog = conclib.build_tsan_small("h_stop_tsan", os.path.join(vlib.VERIF, "harness", "h_stop.cc"), ["src/api/GlobalStop.cc"])
        env = dict(os.environ)
        env.update(conclib.TSAN_ENV)
        seen_race = set()
        if not ts:
            ctx.tie_broken("tsan-build-h_stop", tlog)
        else:
            for _ in range(3):
                cmd = [ts, "flagrace", "200000"]
                rc, out = vlib.sh(cmd, env=env, timeout=300)
                reps = conclib.tsan_reports(out)
                ctx.case(key="flagrace:%d" % ctx.evaluations, nontrivial=True, kind="tsan-flagrace", sample=dict(cmd="h_stop_tsan flagrace 200000", reports=len(reps)))
                report_races(ctx, reps, "h_stop_tsan flagrace 200000", seen_race, atomic)
                if reps:
                    break
        if not ctx.quick:
            lib, llog = conclib.build_tsan_lib()
            hx = None
            if not lib:
                ctx.tie_broken("tsan-library-build", llog)
            else:
                hx, hl = conclib.compile_tsan_harness("h_stop", lib)
                if not hx:
                    ctx.tie_broken("tsan-harness-build", hl)
            if hx:
                small = [k for k, it in enumerate(insts) if it["secs"] < 0.5][:12]
                tt = []
                for k in small:
                    for _ in range(3):
                        tt.append((k, ctx.rng.choice(["spin", "us"]), ctx.rng.choice(["local", "global"]), logu(ctx.rng, 20000)))
                rc, out = vlib.sh([hx, "run"] + paths, env=env, input="".join("%d %s %s %d\n" % t for t in tt), timeout=3000)
                reps = conclib.tsan_reports(out)
                got = [l for l in out.split("\n") if l.startswith("trial ")]
                for t in tt:
                    ctx.case(key="tsanlib:%s:%s" % (insts[t[0]]["text"], t[1:]), nontrivial=True, kind="tsan-library-trial")
                if len(got) != len(tt):
                    ctx.violation("stop:crash-under-tsan", "h_stop under ThreadSanitizer printed %d of %d trials (rc=%s): %s" % (len(got), len(tt), rc, out[-300:]),
                                  dict(out=out[-2000:]))
                report_races(ctx, reps, "h_stop_tsanlib run <instances> (whole library under TSan)", seen_race, atomic)
            _lap(ctx, "tsan-library")
        if atomic is False and not seen_race:
            ctx.note("atomic=false but ThreadSanitizer reported no race on a stop flag in this run")
    finally:
        shutil.rmtree(d, ignore_errors=True)


def report_races(ctx, reps, how, seen, atomic):
    for rp in reps:
        pre = "stop-flag-race" if atomic is False else ("stop-flag-race-despite-atomic" if atomic else "stop-flag-race-declaration-not-recognised")
        if rp["flag_global"]:
            sig = pre + ":globalStopFlag"
        elif rp["flag_local"]:
            sig = pre + ":stopFlag"
        else:
            sig = "race:" + (rp["frames"][0].split(" ")[0] if rp["frames"] else (rp["location"] or rp["kind"]))
        if sig in seen:
            continue
        seen.add(sig)
        if sig.startswith("stop-flag-race") and atomic:
            ctx.tie_broken("stop-flag-translator-vs-tsan", "translator says the flags are atomic, ThreadSanitizer reports " + sig)
        ctx.violation(sig, "ThreadSanitizer: %s between the requesting and the solving thread at %s (%s)" % (
            rp["kind"], "; ".join(rp["frames"]) or rp["location"], how), dict(how=how, env=conclib.TSAN_ENV, report=rp["text"]))


def trial_line(t):
    return ("%d none\n" % t[0]) if t[1] == "none" else ("%d %s %s %d\n" % t)


def save_run(name, paths, trials, upto):
    """everything needed to repeat a harness process: the instance files and the trial list up to the failing trial"""
    d = os.path.join(os.environ.get("VERIF_REPLAY_DIR", os.path.join(vlib.VERIF, "replays")), "C25", name)
    if name in _saved or len(_saved) >= 8:
        return "see %s (first occurrence kept)" % d
    _saved.add(name)
    shutil.rmtree(d, ignore_errors=True)
    os.makedirs(d)
    for p in paths:
        shutil.copy(p, d)
    with open(os.path.join(d, "trials.txt"), "w") as f:
        f.write("".join(trial_line(t) for t in trials[:upto + 1]))
    return "build/harness/h_stop run %s/i*.smt2 < %s/trials.txt   (the last line of the output is the failing trial)" % (d, d)


def run_trials(ctx, h, paths, trials, insts):
    inp = "".join(trial_line(t) for t in trials)
    rc, out = vlib.sh([h, "run"] + paths, input=inp, timeout=3000)
    lines = [l for l in out.split("\n") if l.startswith("trial ")]
    if rc != 0 or len(lines) != len(trials):
        done = len(lines)
        bad = trials[done] if done < len(trials) else None
        how = save_run("crash", paths, trials, min(done, len(trials) - 1))
        ctx.violation("stop:crash:%s" % (insts[bad[0]]["family"] if bad else "-"), "h_stop died (rc=%s) after %d of %d trials%s: %s" % (
            rc, done, len(trials), (" in trial %s" % (bad,)) if bad else "", out[-300:]), dict(rc=rc, trial=bad, out=out[-2000:], how=how))
        return None
    res = []
    for l in lines:
        f = dict(x.split("=", 1) for x in l.split()[2:] if "=" in x)
        res.append(f)
    return res


def judge(ctx, insts, trials, res, atomic, paths):
    sticky = 0
    for idx, (t, r) in enumerate(zip(trials, res)):
        it = insts[t[0]]
        ref = it["ref"]
        stopped = t[1] != "none"
        kind = "%s:%s:%s->%s" % (it["family"], t[1], t[2], r["r1"])
        ctx.case(key="%s|%s" % (it["text"], t[1:]), nontrivial=stopped, kind=kind,
                 sample=dict(family=it["family"], reference=ref, trial="%s %s %s" % t[1:], first=r["r1"], second=r["r2"], polls=r["polls"])
                 if (r["r1"] == "unknown" and t[1] in ("spin", "us", "poll")) else None)
        wrong = r["r1"] not in ("unknown", ref) or r["r2"] not in ("unknown", ref) or "bad" in (r["m1"], r["m2"])
        rep = dict(trial="%d %s %s %d" % t, result=r, reference=ref, z3=it.get("z3"),
                   how=save_run("wrong_%s_%s" % (it["family"], t[1]), paths, trials, idx) if wrong else None)
        if t[1] == "none":
            if r["r1"] != ref:
                ctx.tie_broken("reference-answer", "harness without any request answers %s, the binary %s (%s)" % (r["r1"], ref, it["family"]))
            continue
        if r["r1"] in ("sat", "unsat") and r["r1"] != ref:
            ctx.violation("stop:wrong-answer:%s" % it["family"], "check() with a %s stop request (%s %d) answered %s; without a request the answer is %s (z3: %s)" % (
                t[2], t[1], t[3], r["r1"], ref, it["z3"]), rep)
        elif r["r1"] not in ("sat", "unsat", "unknown"):
            ctx.violation("stop:error:%s" % it["family"], "check() with a %s stop request (%s %d) returned %s" % (t[2], t[1], t[3], r["r1"]), rep)
        lost = ref == "unsat" and r["r1"] == "unknown" and r["r2"] == "sat"
        if (r["m1"] == "bad" or r["m2"] == "bad") and not lost:
            ctx.violation("stop:bad-model:%s" % it["family"], "model after a stop request does not satisfy the assertions (%s)" % (r,), rep)
        # state consistency: the next check-sat (no new request; a global request has been reset)
        if lost and _tr.get("ok") and _tr.get("poll_after_conflict"):
            ctx.violation("stop:lost-conflict:%s" % it["family"],
                          "unsatisfiable instance (%s; z3: %s): check() with a %s stop request (%s %d) answered unknown, the request was reset, and the "
                          "NEXT check() answered sat (model %s) - the search was interrupted on the poll right after propagate() had found the "
                          "level-0 conflict and cancelUntil(0) forgot it; model: c25_state_after_stop / stop_state_refuted" % (
                              it["family"], it["z3"], t[2], t[1], t[3], r["m2"]), rep)
        elif r["r2"] in ("sat", "unsat") and r["r2"] != ref:
            ctx.violation("stop:wrong-second-answer:%s" % it["family"], "after %s from a stopped check(), the next check() answered %s; the answer is %s" % (
                r["r1"], r["r2"], ref), rep)
        elif r["r2"] not in ("sat", "unsat", "unknown"):
            ctx.violation("stop:error:%s" % it["family"], "second check() returned %s" % r["r2"], rep)
        elif r["r2"] == "unknown":
            if t[2] == "global":
                ctx.violation("stop:second-check-unknown:%s" % it["family"], "after a global request was reset, the next check() still answers unknown", rep)
            else:
                sticky += 1
    if sticky:
        ctx.count("second-check-unknown-after-local-stop", sticky)
        ctx.note("%d trials: after a solver-local notifyStop() every later check() answers unknown - CoreSMTSolver::stopFlag is never reset and the "
                 "API has no way to clear it (allowed by C25: unknown is never wrong; recorded)" % sticky)
