"""C08 — interpolants are Craig interpolants for the requested split."""
import concurrent.futures as cf
import glob
import os
import random
import vlib
import itpcheck
import itpmodel
import scriptgen_itp

META = dict(
    title="Interpolants are Craig interpolants for the requested split",
    category="proof",
    technique="Coq proof of the labelled interpolation systems (all six algorithms, every valid refutation) + Farkas leaf interpolants + "
              "front-end mask model; per-run decision of every returned interpolant by certified satisfiability (z3/cvc5 propose, Coq-verified evaluator confirms)",
    level_text="PARTIAL. Proved for all inputs (Properties_C08.v): for every valid resolution refutation of A/\\B, every locality-preserving labelling "
               "(McMillan, Pudlak, McMillan', PS, PSw, PSs are shown to be such) and every theory interpolator meeting the leaf contract, the interpolant "
               "computed as in InterpolationContext.cc satisfies A|=I, I/\\B|=false, atoms(I) shared (labelled_itp_correct); Farkas / dual Farkas "
               "interpolants of a valid certificate are interpolants over Q with shared variables (farkas_itp_correct, dual_farkas_itp_correct), "
               "decomposed ones for any given decomposition (partial), the `factor` algorithm is implied by A and REFUTED as an interpolant "
               "(flexible_itp_refuted); the front end's request->mask mapping is right under stated conditions and REFUTED in general "
               "(request_mask_correct / _refuted, four witnesses). Per run, independent of the internals: every interpolant the working-tree binary "
               "returns on generated unsat scripts (QF_UF, QF_LRA, QF_LIA, propositional; every value of the six interpolation options; push/pop "
               "histories; unnamed, duplicate and rejected assertions) is decided against the property's own statement: A/\\~I and I/\\B are "
               "given to z3 and cvc5 and a model found is confirmed by the Coq-verified SMT-LIB evaluator; symbols are compared syntactically. "
               "NOT proved for all inputs: the EUF interpolator (UFInterpolator.cc), the search for Farkas decompositions, proof reduction, frame "
               "literals of incremental solving, the link between the solver's actual proof DAG and the model (no hook exports it).",
    level_note="Trusted: Coq kernel; coq/Sem (SMT-LIB semantics) + extraction; lib/smtlib.py reader/elaborator; lib/itpcheck.py (script interpretation: which "
               "assertions are current, which names a request mentions); z3/cvc5 are untrusted for `sat` (models are re-validated) but an `unsat` "
               "agreement of both is taken as the absence of a counterexample.",
    design_ref="DESIGN.md §7 C08 / design/C08.md",
    trusted_base=["Coq 8.16.1 kernel", "coq/Sem/Eval.v as SMT-LIB semantics, extraction ExtrOcamlBasic/ExtrOcamlString",
                  "ocaml/sem_driver.ml, ocaml/itp_driver.ml, ocaml/bits.ml", "lib/smtlib.py, lib/solvercheck.py, lib/itpcheck.py, lib/scriptgen_itp.py",
                  "z3 4.8.12 and cvc5 1.0.3: `unsat` from both = no counterexample found (untrusted for `sat`: models re-validated)"],
    assumptions=["a Craig-interpolant violation on the generated scripts is witnessed by a model that z3 or cvc5 finds (small QF_UF/QF_LRA/QF_LIA formulas)",
                 "certificate validity of LRA conflicts is C26's subject (hypothesis valid_cert of farkas_itp_correct)"],
    coq_targets=["Extract/Extract_itp.vo", "Extract/Extract_sem.vo"],
    rule="corpus/C08/*.smt2 first; then lib/scriptgen_itp.py scripts: logic in {QF_UF, QF_LRA, QF_LIA, propositional}, 2-6 named assertions from unsat "
         "families (arithmetic cycles, Farkas combinations, integer cuts, EUF chains, split/implication chains, random CNF, z3-filtered random formulas), "
         "PRNG option vector over :interpolation-bool-algorithm 0-5, :interpolation-euf-algorithm {0,2,3,4,5}, :interpolation-lra-algorithm {0,2,3,4,5}, "
         ":interpolation-lra-factor, :proof-reduce, :simplify-interpolants 0-4; 30% push/pop histories; 1-3 requests per unsat check with 2-5 groups "
         "(names or (and ...)); case = one returned interpolant; non-trivial = interpolant other than true/false; distinct = (script, query, position)",
)


class Rec:
    """records the calls a Judge makes so that worker threads never touch the shared context"""

    def __init__(self):
        self.ev = []

    def case(self, **kw):
        self.ev.append(("case", kw))

    def count(self, kind, n=1):
        self.ev.append(("count", dict(kind=kind, n=n)))

    def violation(self, signature, what, replay):
        self.ev.append(("violation", dict(signature=signature, what=what, replay=replay)))

    def tie_broken(self, name, detail, case=None):
        self.ev.append(("tie_broken", dict(name=name, detail=detail, case=case)))

    def replay(self, ctx):
        for k, kw in self.ev:
            getattr(ctx, k)(**kw)


def one(args):
    pid, seed, idx, kgroups = args[:4]
    kind = args[4] if len(args) > 4 else "general"
    rng = random.Random(seed * 7919 + idx + {"general": 0, "boolsweep": 1000003, "decomp": 2000003}[kind])
    rec = Rec()
    try:
        if kind == "boolsweep":
            text, meta = scriptgen_itp.gen_boolsweep(rng, kgroups=kgroups)
        elif kind == "decomp":
            text, meta = scriptgen_itp.gen_decomp(rng, kgroups=kgroups)
        else:
            text, meta = scriptgen_itp.gen(rng, kgroups=kgroups)
        rec.count("family:%s" % "+".join(meta["families"][:1]))
        rec.count("logic:%s" % meta["logic"])
        for f in meta["features"]:
            rec.count("feature:%s" % f)
        itpcheck.Judge(rec, pid).script(text, meta)
    except Exception:
        import traceback
        rec.tie_broken("check-crashed", traceback.format_exc()[-1500:])
    return rec


def sweep(ctx, pid, n, kgroups, nbool=0, ndecomp=0):
    # 0. pattern tie between coq/Front/ItpRequest.v and src/api/Interpret.cc (which model variant describes the tree)
    ff = itpcheck.front_facts()
    if "error" in ff:
        ctx.tie_broken("front-end-model:source-pattern", ff["error"])
    else:
        ctx.note("front end recognised in src/api/Interpret.cc: %s; get_assertion_index = first equal term; `assertions` never shrunk" % ff["variant"])
        ctx.count("front-end-variant:%s" % ff["variant"])
    # 1. corpus (regression inputs, known findings) — sequentially
    for f in sorted(glob.glob(os.path.join(vlib.VERIF, "corpus", "C08", "*.smt2")) + glob.glob(os.path.join(vlib.VERIF, "corpus", "C09", "*.smt2"))):
        if pid == "C09" and "/C08/" in f and "path" not in os.path.basename(f):
            continue
        itpcheck.Judge(ctx, pid).script(open(f).read(), None, origin=f)
        ctx.count("corpus-file")
    # 2. the extracted Coq model on generated refutations (instance check of the theorems on the extracted code)
    try:
        itpmodel.mask_witnesses(ctx)
        itpmodel.selftest(ctx, ctx.rng, 12 if ctx.quick else 150, want_path=(pid == "C09"))
    except RuntimeError as e:
        ctx.tie_broken("extracted-model:build", str(e))
    # 3. generated scripts
    jobs = [(pid, ctx.seed, i, kgroups) for i in range(n)]
    # focused sweeps: propositional instances under every :simplify-interpolants level x PRNG bool algorithm (decided by exhaustive
    # verified evaluation), Farkas conflicts aimed at the decomposing LRA algorithms under :interpolation-lra-algorithm 4, 5 and one other
    jobs += [(pid, ctx.seed, i, kgroups, "boolsweep") for i in range(nbool)]
    jobs += [(pid, ctx.seed, i, kgroups, "decomp") for i in range(ndecomp)]
    with cf.ThreadPoolExecutor(max_workers=12) as ex:
        for rec in ex.map(one, jobs):
            rec.replay(ctx)
    ctx.note("thorough-tier comparison of the extracted `itp` with the solver's interpolant on the solver's own proof is NOT run: no hook exports the proof DAG "
             "with partition masks and leaf interpolants (DESIGN §5 H7 was not added); the extracted model is exercised on generated refutations instead")


def run(ctx):
    sweep(ctx, "C08", 80 if ctx.quick else 400, None, nbool=90 if ctx.quick else 450, ndecomp=130 if ctx.quick else 650)
