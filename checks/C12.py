"""C12 — every clause the SAT engine learns or derives is implied by the clauses known at that moment (RUP)."""
import concurrent.futures
import hashlib
import json
import os

import vlib
import sattrace
import scriptgen_sat as sg

META = dict(
    title="Every clause the SAT engine learns is implied by known clauses (RUP)",
    category="proof",
    technique="Coq proof (RUP checker sound for all clause lists; verified DPLL; model of first-UIP analysis, "
              "minimisation, SatELite resolvents/strengthening proved to yield implied clauses) + trace refinement: "
              "every learnt/derived/final clause of every traced run is replayed through the extracted checker",
    level_text="rup_sound, dpll_sound/complete, analyze_implied/analyze_asserting, elim_resolvents_sound, strengthen_sound, "
               "asymm_sound hold for all inputs (Coq). Per run: each l/d/f event of the hooked solver's trace must pass the "
               "extracted rup against the growing database of o/t events and earlier accepted clauses; a rejected clause is "
               "decided by the extracted dpll (countermodel = certified non-implied clause).",
    level_note="partial: the checker and the analysis/simplification models are proved; that the C++ follows the models is "
               "established per run by trace refinement (contract level: implied + RUP), not by a proof about the C++ text. "
               "Trusted: Coq kernel, extraction, ocaml/sat_driver.ml (int<->positive conversion), the OPENSMT_VERIF hooks, "
               "lib/sattrace.py.",
    design_ref="DESIGN.md §7 C12 / design/C12.md",
    trusted_base=["Coq 8.16.1 kernel", "extraction: Require Import ExtrOcamlBasic ExtrOcamlString; no Extract Constant of our own",
                  "ocaml/sat_driver.ml (decimal int <-> positive/Z/N, line protocol)", "OPENSMT_VERIF clause-trace hooks (H1) in /repo",
                  "lib/sattrace.py, lib/scriptgen_sat.py"],
    assumptions=["theory clauses (t events) are taken as known clauses here; their T-validity is property C11"],
    needs_impl=True,
    rule="scripts from lib/scriptgen_sat.py (QF_UF/LRA/LIA/IDL/RDL; random 2-3-clauses near threshold, nested Boolean structure, "
         "pigeon-hole, disjunctive scheduling, equality diamonds; push/pop histories with named assertions) x option vectors "
         "(default, SatELite on via :incremental false (+asymm, +grow), pure-lookahead, picky, ghost-vars, produce-proofs, random seeds, "
         "fast restarts, random polarity); a case = one checked clause (l/d/f event); non-trivial = clause with >= 1 literal; "
         "distinct = distinct (script, config, event index)",
)

QUICK_SCRIPTS = 210
QUICK_CONFIGS = ["default", "satelite", "lookahead"]          # every script x these 3 (satelite: non-incremental variant)
EXTRA_CONFIGS = ["picky", "ghost", "proofs", "seed", "restarts", "rndpol", "satelite-asymm", "satelite-noasymm-grow"]


def engine_of(cfg):
    return {"lookahead": "lookahead", "picky": "picky", "ghost": "ghost"}.get(cfg, "cdcl" if not cfg.startswith("satelite") else "cdcl+satelite")


def corpus_cases():
    d = os.path.join(vlib.VERIF, "corpus", "C12")
    out = []
    if os.path.isdir(d):
        for f in sorted(os.listdir(d)):
            if f.endswith(".json"):
                try:
                    out.append(json.load(open(os.path.join(d, f))))
                except Exception:
                    pass
    return out


def run(ctx):
    exe, log = vlib.build_extracted("sat")
    if not exe:
        ctx.tie_broken("extraction-sat", log)
        return
    rng = ctx.rng
    nscripts = QUICK_SCRIPTS if ctx.quick else 1500
    size = 1 if ctx.quick else 2
    jobs = []          # (script text, cfg, meta)
    for c in corpus_cases():
        jobs.append((c["script"], c.get("config", "corpus"), dict(logic=c.get("logic", "?"), family="corpus")))
    for i in range(nscripts):
        s_inc = sg.gen_script(rng, size=size if rng.random() < 0.7 else size + 1)
        seed = rng.randint(1, 10 ** 6)
        cfgs = list(QUICK_CONFIGS)
        # one or two further option vectors per script, rotating
        cfgs.append(EXTRA_CONFIGS[i % len(EXTRA_CONFIGS)])
        if not ctx.quick:
            cfgs.append(EXTRA_CONFIGS[(i * 3 + 1) % len(EXTRA_CONFIGS)])
            cfgs.append(EXTRA_CONFIGS[(i * 5 + 2) % len(EXTRA_CONFIGS)])
        s_non = None
        for cfg in dict.fromkeys(cfgs):
            need_non = sg.CONFIGS[cfg][1]
            if need_non and s_inc["incremental"]:
                if s_non is None:
                    # same generator state family, single check-sat
                    s_non = sg.gen_script(rng, logic=s_inc["logic"], incremental=False, size=size, family=s_inc["family"])
                s = s_non
            else:
                s = s_inc
            jobs.append((sg.with_config(s, cfg, seed), cfg, dict(logic=s["logic"], family=s["family"])))

    # run the solver (traces), then one driver process for everything
    all_lines, owners = [], []        # owners[k] = (job index, event index) for each driver line
    runs = []
    answers = {"sat": 0, "unsat": 0, "unknown": 0, "error": 0, "timeout": 0}
    def solve(job):
        text, cfg, _ = job
        return sattrace.run_traced(text, timeout=(2 if cfg in ('lookahead', 'picky') else 5) if ctx.quick else 20)
    with concurrent.futures.ThreadPoolExecutor(max_workers=6) as pool:
        results = list(pool.map(solve, jobs))
    for j, (text, cfg, meta) in enumerate(jobs):
        rc, out, err, events = results[j]
        runs.append((text, cfg, meta, events, rc, out))
        if rc == -9:
            answers["timeout"] += 1
        for w in out.split():
            if w in ("sat", "unsat", "unknown"):
                answers[w] += 1
        if "(error" in out:
            answers["error"] += 1
        if rc not in (0, -9) and rc < 0:
            # a crash is C18's business; here it only means there is a partial trace
            ctx.count("solver-crash(rc=%d)" % rc)
        lines, idx = sattrace.driver_lines(events)
        all_lines += lines
        owners += [(j, k) for k in idx]
    if not all_lines:
        ctx.tie_broken("no-trace", "the hooked solver wrote no trace events (hooks removed or OPENSMT_VERIF not compiled in)")
        return
    try:
        rc, outs, err = sattrace.run_driver(exe, all_lines, timeout=600 if ctx.quick else 3000)
    except Exception as e:
        ctx.tie_broken("sat-driver", "the extracted checker did not finish: %s" % str(e)[:200])
        return
    if rc != 0 or len(outs) != len(all_lines):
        ctx.tie_broken("sat-driver", "rc=%s, %d answers for %d commands; %s" % (rc, len(outs), len(all_lines), err[-500:]))
        return
    traced_runs = sum(1 for r in runs if r[3])
    if traced_runs < len(runs) * 0.9:
        ctx.tie_broken("trace-missing", "only %d of %d runs produced trace events" % (traced_runs, len(runs)))
    checked = 0
    kinds_seen = set()
    for line, ans, (j, k) in zip(all_lines, outs, owners):
        if k is None or not line.startswith("C "):
            if ans.startswith("bad"):
                ctx.tie_broken("sat-driver-line", "%r -> %r" % (line[:200], ans))
            continue
        text, cfg, meta, events, _, _ = runs[j]
        ev = events[k]
        kind, lits = ev[0], ev[2]
        eng = engine_of(cfg)
        checked += 1
        kinds_seen.add((kind, eng))
        h = hashlib.md5((text + "|" + cfg).encode()).hexdigest()[:12]
        ctx.case(key=(h, k), nontrivial=len(lits) >= 1, kind="%s:%s:%s" % (kind, eng, meta["logic"]),
                 sample=dict(config=cfg, logic=meta["logic"], family=meta["family"], event=kind, clause=lits, checker=ans.split()[0]))
        if ans == "rup":
            continue
        case = dict(script=text, config=cfg, event_index=k, event_kind=kind, clause=lits, engine=eng,
                    how="OPENSMT_VERIF_TRACE=t build/impl/opensmt script.smt2; replay t through build/ocaml/sat/vmodel (lib/sattrace.driver_lines)")
        if ans.startswith("cex"):
            assign = [int(x) for x in ans.split()[1:]]
            amap = {abs(l): l > 0 for l in assign}
            # independent re-evaluation of the countermodel (python), besides the Coq theorem countermodel_sat
            ids = sattrace.canon_instances(events)
            db = [e[2] for e in events[:k] if ids[e[1]] == ids[ev[1]]]
            ok = all(sattrace.py_eval_clause(amap, c) for c in db) and not sattrace.py_eval_clause(amap, lits)
            case["assignment"] = assign
            case["countermodel_rechecked_in_python"] = ok
            ctx.tie_broken("learnt-clause-not-rup", "event %d (%s) of config %s: clause %s" % (k, kind, cfg, lits), None)
            ctx.violation("non-implied:%s:%s" % (kind, eng),
                          "a %s clause of the %s engine is not implied by the clauses known at that moment: %s falsified by a total "
                          "assignment satisfying the whole database (verified dpll)" % (dict(l="learnt", d="derived", f="final-conflict")[kind], eng, lits),
                          case)
        elif ans == "implied":
            ctx.tie_broken("not-RUP-but-implied", "event %d (%s) of config %s: clause %s is implied (verified dpll: no countermodel) but "
                           "not confirmed by reverse unit propagation" % (k, kind, cfg, lits), case)
        elif ans == "notrup":
            ctx.tie_broken("learnt-clause-not-rup", "event %d (%s) of config %s: clause %s (no search: budget of the run used up)" % (k, kind, cfg, lits), None)
        else:
            ctx.tie_broken("sat-checker-undecided", "%s for event %d (%s), config %s" % (ans, k, kind, cfg), case)
    ctx.count("runs", len(runs))
    for a, n in answers.items():
        if n:
            ctx.count("answer:" + a, n)
    ctx.extra["checked_clauses"] = checked
    ctx.extra["runs"] = len(runs)
    ctx.extra["event_kinds_x_engines"] = sorted("%s:%s" % ke for ke in kinds_seen)
    ctx.note("%d scripts, %d runs, %d trace events, %d clauses checked by the extracted rup" % (nscripts, len(runs), len(all_lines) - len(runs), checked))
    if ctx.quick and checked < 5000:
        ctx.tie_broken("too-few-clauses", "only %d learnt/derived clauses were produced by %d runs (expected >= 5000): the generator no longer "
                       "forces conflicts or the hooks no longer report them" % (checked, len(runs)))
    for need in [("l", "cdcl"), ("d", "cdcl+satelite"), ("l", "lookahead"), ("f", "cdcl")]:
        if need not in kinds_seen:
            ctx.tie_broken("event-kind-missing", "no %s event from the %s engine in this run" % need)


if __name__ == "__main__":
    import sys
    import time
    ctx = vlib.Ctx("C12", sys.argv[1] if len(sys.argv) > 1 else "quick", int(os.environ.get("VERIF_SEED", "1")))
    t = time.time()
    run(ctx)
    print("time", round(time.time() - t, 1))
    print("evaluations", ctx.evaluations, "distinct", len(ctx.nontrivial))
    print("broken", [(b[0], str(b[1])[:300]) for b in ctx.broken[:10]], len(ctx.broken))
    print("violations", [(v["signature"], v["what"][:200]) for v in ctx.violations[:10]], len(ctx.violations))
    print("known", ctx.known_hits)
    print(json.dumps(ctx.dist, indent=0, sort_keys=True)[:3000])
    print(ctx.notes, ctx.extra)
