"""C30 — check-sat always returns outside integer arithmetic."""
import concurrent.futures as cf
import os
import random
import re
import vlib
import scriptgen
import answercheck

META = dict(
    title="check-sat always returns outside integer arithmetic",
    category="proof",
    technique="Coq proof of the trail measure of restart-free CDCL(T) segments + regenerated restart policy proved unbounded + traced trail shapes replayed through the extracted progress test + wall-clock backstop on tiny instances",
    level_text="PARTIAL. Proved for all runs of the abstract machine (Properties_C30.v): a restart-free segment over n variables has < 3^n "
               "decide/propagate/backjump steps; the executable progress test is sound for the measure; the Luby restart limits REGENERATED from "
               "CoreSMTSolver::restartNextLimit on every run are unbounded. Tie per run: the (tr ...) hook events of the default engine are cut "
               "into restart-free segments and every consecutive pair of trail shapes must pass the extracted progress test. Not proved: "
               "termination inside theory solvers (Simplex pivoting, congruence closure, array lemmas) and of the lookahead engines — these are "
               "watched by a wall-clock backstop on instances of <= 12 atoms that the default engine and z3 decide instantly.",
    level_note="Trusted: Coq kernel, extraction, ocaml/measure_driver.ml, translate/restart_policy.py (pattern-based), the trail hook. "
               "A timeout is judged twice (10 s in the parallel sweep, then 60 s alone) before it is reported.",
    design_ref="DESIGN.md §7 C30, design/C30.md",
    translators=["restart_policy.py"],
    trusted_base=["Coq 8.16.1 kernel", "extraction ExtrOcamlBasic/ExtrOcamlString", "ocaml/measure_driver.ml", "translate/restart_policy.py",
                  "hook CoreSMTSolver::verifTraceTrail (/repo 806345c)"],
    assumptions=["theory check/propagate calls return (assumption th_check_terminates, watched by the wall-clock backstop)",
                 "the number of SAT variables is fixed within a segment (holds outside splitting-on-demand, i.e. outside integer arithmetic and array lemmas)"],
    rule="scripts of lib/scriptgen.py in the non-integer logics (propositional, QF_UF, QF_LRA, QF_RDL, QF_UFLRA), single-query and push/pop histories, "
         "each under the default engine with tracing and under 3 PRNG-chosen option vectors (lookahead, picky, ghost, tracking options ...); a case = "
         "one run; non-trivial = the run has >= 1 search segment with >= 2 trail snapshots or is a non-default engine run; distinct = (script, config)",
)

NONINT = ["QF_BOOL", "QF_UF", "QF_LRA", "QF_RDL", "QF_UFLRA"]


def segments(path):
    """restart-free segments of trail snapshots per solver instance: list of (instance, [ 'size:lims' ... ])."""
    segs, cur = [], {}
    for line in open(path, errors="replace"):
        if not line.startswith("(tr "):
            continue
        m = re.match(r"\(tr (\S+) (\w+) (\d+) (\d+) \(([0-9 ]*)\)\)", line.strip())
        if not m:
            return None
        inst, kind, nv, size, lims = m.groups()
        snap = "%s:%s" % (size, ",".join(lims.split()))
        if kind in ("start", "restart"):
            if inst in cur and len(cur[inst]) > 1:
                segs.append((inst, cur[inst]))
            cur[inst] = [snap] if kind == "start" else []
        else:
            cur.setdefault(inst, []).append(snap)
    for inst, s in cur.items():
        if len(s) > 1:
            segs.append((inst, s))
    return segs


def one(args):
    seed, idx = args
    rng = random.Random(seed * 611953 + idx)
    text, meta = scriptgen.gen_script(rng, incremental=rng.random() < 0.4, logics=NONINT, queries=(), produce_models=rng.random() < 0.5)
    tr = os.path.join(vlib.BUILD, "tmp", "c30_%d_%d.trace" % (os.getpid(), idx))
    os.makedirs(os.path.dirname(tr), exist_ok=True)
    if os.path.exists(tr):
        os.remove(tr)
    rc, out, err = vlib.run_opensmt(text, timeout=6, env_extra={"OPENSMT_VERIF_TRACE": tr})
    segs = segments(tr) if os.path.exists(tr) else []
    if os.path.exists(tr):
        os.remove(tr)
    runs = [("default", rc, text)]
    for c in rng.sample([c for c in answercheck.CONFIGS if c != "default"], 3):
        t = answercheck.with_options(text, answercheck.CONFIGS[c])
        rc2, out2, err2 = vlib.run_opensmt(t, timeout=6)
        runs.append((c, rc2, t))
    return text, meta, segs, runs


def run(ctx):
    exe, log = vlib.build_extracted("measure")
    if not exe:
        ctx.tie_broken("extraction-measure", log)
        return
    n = 80 if ctx.quick else 640
    with cf.ThreadPoolExecutor(max_workers=10) as ex:
        results = list(ex.map(one, [(ctx.seed, i) for i in range(n)]))
    lines, owners = [], []
    pending = {}
    for text, meta, segs, runs in results:
        if segs is None:
            ctx.tie_broken("trail-trace", "unparsable (tr ...) event", dict(script=text))
            continue
        for inst, s in segs:
            lines.append(";".join(s))
            owners.append(text)
        nseg = len(segs)
        for cfg, rc, t in runs:
            pop = "(pop" in t
            ctx.case(key=(text, cfg), nontrivial=(cfg != "default" or nseg > 0), kind="run:%s:%s" % (meta["logic"], cfg),
                     sample=dict(script=t, config=cfg, rc=rc, segments=nseg) if cfg == "default" else None)
            if rc == -9:
                eng = cfg if cfg in ("lookahead", "lookahead-deep", "picky", "ghost") else "cdcl:" + cfg
                sig = "no-answer:%s%s" % (eng, ":incremental" if "(push" in t else "")
                pending.setdefault(sig, []).append((t, cfg, meta["logic"]))
    # structured families with a size parameter (lib/scaling.py): each is decided in well under a second by the unchanged solver
    import scaling
    sjobs = []
    for fam, (fn, sizes) in sorted(scaling.FAM.items()):
        for n in sizes:
            for v in range(2 if ctx.quick else 8):
                r = random.Random(ctx.seed * 977 + v * 31 + n + sum(map(ord, fam)))
                sjobs.append((fam, n, fn(r, n)))
    with cf.ThreadPoolExecutor(max_workers=6) as ex:
        srcs = list(ex.map(lambda j: vlib.run_opensmt(j[2], timeout=10)[0], sjobs))
    for (fam, n, t), rc in zip(sjobs, srcs):
        ctx.case(key=("scaling", t), nontrivial=True, kind="scaling:%s:%d" % (fam, n), sample=dict(family=fam, size=n, rc=rc) if n == scaling.FAM[fam][1][0] else None)
        if rc == -9:
            pending.setdefault("no-answer:scaling:%s" % fam, []).append((t, "default", "family %s size %d" % (fam, n)))
    # second opinion for the first timeout of each signature: alone-ish (all in parallel), generous limit
    firsts = [(sig, v[0]) for sig, v in sorted(pending.items())]
    with cf.ThreadPoolExecutor(max_workers=8) as ex:
        again = list(ex.map(lambda x: vlib.run_opensmt(x[1][0], timeout=40)[0], firsts))
    for (sig, (t, cfg, logic)), rc2 in zip(firsts, again):
        ctx.count("timeouts:" + sig, len(pending[sig]))
        if rc2 == -9:
            ctx.violation(sig, "check-sat does not return within 40 s on a %s instance (config %s) that the default engine of the unchanged tree decides instantly" % (logic, cfg),
                          dict(script=t, config=cfg, logic=logic))
        else:
            ctx.count("slow-but-returned")
    ctx.count("segments", len(lines))
    if lines:
        rc, out = vlib.sh([exe], input="\n".join(lines) + "\n", timeout=600)
        res = out.split("\n")
        if rc != 0 or len(res) < len(lines):
            ctx.tie_broken("measure-driver", out[-300:])
            return
        nsnap = 0
        for l, r, text in zip(lines, res, owners):
            nsnap += l.count(";") + 1
            if not r.startswith("ok"):
                ctx.tie_broken("trail-measure-progress", "segment %s: %s" % (l[:200], r), dict(script=text, segment=l))
        ctx.count("snapshots", nsnap)
