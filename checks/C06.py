"""C06 — unsat cores are unsatisfiable and name current assertions only."""
import concurrent.futures as cf
import glob
import json
import os
import random
import re

import vlib
import smtlib
import solvercheck as sc
import corecheck as cc
import scriptgen_cores as G
from smtlib import sx_str, read_all, ParseError

META = dict(
    title="Unsat cores are unsatisfiable and name current assertions only",
    category="proof",
    technique="Coq proof of the core-extraction algorithm relative to proof validity and mask correctness + per-run decisive judgement "
              "of every printed core (names against the script's assertion stack, satisfiability through the Coq-verified evaluator) + "
              "replay of the traced builder state on the extracted model",
    level_text="PARTIAL. Properties_C06.v proves for every proof DAG, mask assignment and partition map: if the resolution proof is a valid "
               "refutation and every original leaf is implied by the assertions its mask denotes, the set extracted by computeClauses / "
               "mapClausesToTerms is unsatisfiable (core_unsat), likewise named + hidden and named + all unnamed current assertions "
               "(core_named_unsat, core_with_unnamed_unsat); on the repaired TermNames every printed name is live and denotes its term, "
               "without repetition (core_names_in_scope, core_names_no_repetition); on TermNames as it is this is refuted "
               "(core_names_in_scope_refuted), and mask correctness is refuted for re-asserted terms (core_unsat_reindexed_refuted). "
               "PER RUN, decisive: after every unsat answer of generated histories each (get-unsat-core) answer is parsed; every printed "
               "name must be a :named top-level assertion of an active level, no repetition; a model of the named core with all unnamed "
               "current assertions found by z3 and confirmed by the verified evaluator is a certified violation; agreement of z3 and "
               "cvc5 on unsat is ORACLE-ONLY; with :print-cores-full every printed formula must be equivalent to a current assertion "
               "(z3, ORACLE-ONLY) and the set alone unsatisfiable.",
    level_note="Trusted: Coq kernel; coq/Sem semantics; extraction; ocaml/core_driver.ml, ocaml/sem_driver.ml; lib/smtlib.py, lib/solvercheck.py, "
               "lib/corecheck.py (assertion stack with names per level), lib/scriptgen_cores.py; the trace hooks. z3/cvc5 untrusted. Not "
               "proved: validity of the solver's resolution proof and of its masks (per run only); the ite rewriting, the proof bookkeeping "
               "across pop and the partition-index map are outside the model (three known findings come from there).",
    design_ref="DESIGN.md §7 C06, design/C06.md",
    trusted_base=["Coq 8.16.1 kernel", "coq/Sem/Eval.v (SMT-LIB semantics) for certified counter-models",
                  "extraction: ExtrOcamlBasic, ExtrOcamlString only", "ocaml/core_driver.ml, ocaml/sem_driver.ml",
                  "lib/smtlib.py, lib/solvercheck.py, lib/corecheck.py, lib/scriptgen_cores.py",
                  "z3 4.8.12 + cvc5 1.0.3: unsat side ORACLE-ONLY, equivalence of printed formulas with assertions ORACLE-ONLY"],
    assumptions=["generated scripts are well-sorted SMT-LIB with all declarations first; names are never reused while live"],
    rule="lib/scriptgen_cores.py histories: contradiction kits + redundancy + noise over named/unnamed assertions, push/pop, names popped and "
         "reused for other terms, the same term named at two levels or asserted named and unnamed, :named inside larger assertions, "
         "directed histories (one term under several names of different lifetime; conjunctions re-asserted after pop in other shapes; assertions added after an unsat answer), get-unsat-core twice, repeated check-sat, :minimal-unsat-cores and :print-cores-full on/off incl. toggles in mid-script; "
         "QF_UF / QF_LRA / QF_LIA / propositional; case = one (get-unsat-core) answer after unsat; non-trivial = >= 2 current assertions "
         "and a non-empty answer; distinct = (script, query index)",
)


def bodies_equal(a, b):
    return sx_str(sc.strip_named(a)) == sx_str(sc.strip_named(b))


def evidence(blk):
    """what the traced builder state shows: a term of the extracted set that is not a current assertion (the refutation
    belongs to a popped state), a leaf mask bit that no partition carries (index overwritten by a second assertion of the
    same term), an extracted term with an ite auxiliary constant that has no name"""
    if blk is None or not blk.complete:
        return None
    ev = dict(stale=None, lost_bits=False, ite_hidden=False)
    if blk.current is not None:
        cur = set(blk.current)
        ev["stale"] = any(t not in cur for t in blk.all)
    idx = {i for _, ix, _ in blk.parts for i in ix}
    ev["lost_bits"] = any(b not in idx for _, bits in blk.leaves for b in bits)
    # a stored formula that is an ite rewriting (it cannot carry the name of the assertion it came from): among the
    # extracted terms, or -- with minimisation, where the background is taken from the current assertions -- among those
    strs = {t: s for t, _, s in blk.parts}
    pool = list(blk.all) + (list(blk.current) if (blk.minimal and blk.current is not None) else [])
    ev["ite_hidden"] = any(".ite" in strs.get(t, "") for t in pool)
    return ev


def judge_answer(st, ans, sig, logic, decls, blk):
    """Returns dict(viol=[(signature, what, extra)], labels=[...], size, skip)"""
    rec = dict(viol=[], labels=[], size=None, skip=None)
    top, unnamed, nest, allb = cc.view(st)
    full = st.opts[":print-cores-full"]
    mode = ("full" if full else "named") + ("+min" if st.opts[":minimal-unsat-cores"] else "")
    if not isinstance(ans, list) or (ans and ans[0] == "error"):
        rec["viol"].append(("no-core:%s" % mode, "get-unsat-core after unsat answered %s" % (sx_str(ans) if ans is not None else "nothing"), {}))
        return rec
    rec["size"] = len(ans)
    ev = evidence(blk)
    # root causes of the known defects, from the traced builder state when present, else from the script's history
    stale = bool(st.unsat_frames_gone) and (ev is None or ev["stale"] is None or ev["stale"])
    ite_named = any(name is not None and cc.has_nonbool_ite(body, sig) for f in st.frames for body, name, _ in f["items"])
    if ev is not None:
        # with the trace the rewriting itself is observed (a stored formula with an auxiliary ite constant); which ites are
        # rewritten is the solver's business (also Bool-sorted ones below uninterpreted functions)
        ite_named = ev["ite_hidden"] and any(name is not None and cc.has_ite(body) for f in st.frames for body, name, _ in f["items"])
    ite_any = any(cc.has_ite(b) for b in allb)
    # a current assertion whose term was asserted again later (the partition map then holds the later index only); with the
    # trace: additionally a leaf mask bit that no partition carries
    _tw = []

    def twice():      # lazily: refers undecided pairs to z3
        if not _tw:
            _tw.append((ev is None or ev["lost_bits"]) and cc.reasserted_later(st, logic, decls))
        return _tw[0]

    _rw, _ff = [], []

    def rewritten():      # lazily (violation path): may refer pairs of assertions to z3
        if not _rw:
            _rw.append(cc.preprocessed_form_is_another_assertion(st, logic, decls))
        return _rw[0]

    def false_first():    # a false assertion blames partition 0 (the first assertion of the script) although it was popped
        if not _ff:
            bit0 = ev is None or any(ix == [0] and t in blk.all for t, ix, _ in blk.parts)
            _ff.append(bit0 and cc.false_assertion_and_first_popped(st, logic, decls))
        return _ff[0]
    if ev is not None and ev["stale"]:
        rec["viol"].append(("core-term-not-current:%s" % ("false-assertion-blames-first-assertion" if false_first() else
                                                         "rewritten-form-is-another-assertion" if rewritten() else
                                                         "stale-refutation-after-pop" if st.unsat_frames_gone else "plain"),
                            "the builder's extracted set contains a top-level formula that is not among the solver's current assertions (traced: core-all vs core-current)",
                            dict(core_all=blk.all, core_current=blk.current)))

    def cause_sat():
        return "false-assertion-blames-first-assertion" if false_first() else "rewritten-form-is-another-assertion" if rewritten() else "stale-refutation-after-pop" if stale else "term-asserted-twice" if twice() else \
            "named-assertion-with-nonbool-ite" if (ite_named and not full) else "plain"
    if not full:
        if not all(isinstance(n, str) for n in ans):
            rec["viol"].append(("malformed-core:%s" % mode, "the answer is not a list of names: %s" % sx_str(ans), {}))
            return rec
        if len(set(ans)) != len(ans):
            rec["viol"].append(("name-repeated:%s" % mode, "a name is printed twice: %s" % sx_str(ans), {}))
        denoted = []          # what each printed name stands for, giving wrongly scoped names the benefit of the doubt
        for n in ans:
            if n in top:
                denoted.append(top[n])
                continue
            if n in nest:
                sub = nest[n]
                asserted = cc.equivalent_to_some(logic, decls, sub, allb)
                if asserted:
                    denoted.append(sub)
                c = "subterm-also-asserted" if asserted else "undecided" if asserted is None else "stale-refutation-after-pop" if stale else "subterm-not-asserted"
                if c == "undecided":
                    rec["labels"].append("name-check:undecided")
                    continue
                rec["viol"].append(("name-not-a-named-assertion:nested-name:%s" % c,
                                    "the core lists %s, which names a subterm of an assertion, not a top-level assertion%s"
                                    % (n, " (the subterm is also asserted, unnamed or under another name)" if asserted else ""), dict(name=n)))
            elif n in st.popped_names:
                body = st.popped_named.get(n)
                still = cc.equivalent_to_some(logic, decls, body, allb) if body is not None else False
                if still:
                    denoted.append(body)
                    c = "term-still-asserted"
                elif still is None:
                    rec["labels"].append("name-check:undecided")
                    continue
                elif false_first():
                    c = "false-assertion-blames-first-assertion"
                elif rewritten():
                    c = "rewritten-form-is-another-assertion"
                elif stale:
                    c = "stale-refutation-after-pop"
                else:
                    c = "plain"
                rec["viol"].append(("popped-name-in-core:%s" % c,
                                    "the core lists %s, a name introduced at a level that has been popped (%s)" %
                                    (n, "its term is still asserted: stale TermNames entry" if still else
                                     "an earlier unsat answer belonged to a popped level: stale refutation" if stale else "unexplained"), dict(name=n)))
            else:
                rec["viol"].append(("unknown-name-in-core", "the core lists %s, which is not a name of the script" % n, dict(name=n)))
        A = denoted + unnamed
        if "name-check:undecided" in rec["labels"]:
            v, d = "skipped(name check undecided)", None
        else:
            v, d = cc.judge_unsat(sig, logic, decls, A)
        rec["labels"].append("unsat:" + v)
        if v in ("refuted-certified", "refuted-oracles"):
            rec["viol"].append(("core-satisfiable:named:%s" % cause_sat(),
                                "the named assertions of the printed core %s together with all %d unnamed current assertions are satisfiable (%s)"
                                % (sx_str(ans), len(unnamed), "model confirmed by the verified evaluator" if v == "refuted-certified" else "z3 and cvc5"),
                                dict(model=d)))
    else:
        forms = list(ans)
        if len({sx_str(f) for f in forms}) != len(forms):
            rec["viol"].append(("formula-repeated:full", "a formula is printed twice", {}))
        ext = cc.with_aux_symbols(forms, sig, decls)
        for f in forms:
            if not cc.symbols_known(f, sig):
                aux = ext is not None
                rec["viol"].append(("full-core:formula-not-an-assertion:%s" % ("ite-auxiliary-constant" if aux and ite_any else "undeclared-symbol"),
                                    "the printed formula %s uses a symbol the script does not declare%s" %
                                    (sx_str(f)[:200], " (auxiliary constant of the ite rewriting)" if aux else ""), dict(formula=sx_str(f))))
                continue
            e = True if any(bodies_equal(f, b) for b in allb) else cc.equivalent_to_some(logic, decls, f, allb)
            if e:
                continue
            if e is None:
                rec["labels"].append("formula-check:undecided")
                continue
            was = cc.equivalent_to_some(logic, decls, f, st.popped_terms)
            c = ("false-assertion-blames-first-assertion" if false_first() else "rewritten-form-is-another-assertion" if rewritten() else
                 "stale-refutation-after-pop" if (was and stale) else "popped-assertion" if was else "plain")
            rec["viol"].append(("full-core:formula-not-a-current-assertion:%s" % c,
                                "the printed formula %s is not equivalent to any current assertion%s" %
                                (sx_str(f)[:200], " (it was asserted at a level that has been popped)" if was else ""), dict(formula=sx_str(f))))
        if ext is not None:
            v, d = cc.judge_unsat(ext[0], logic, ext[1], forms)
            rec["labels"].append("unsat:" + v)
            if v in ("refuted-certified", "refuted-oracles"):
                rec["viol"].append(("core-satisfiable:full:%s" % cause_sat(),
                                    "the printed formulas %s alone are satisfiable (%s)" % (sx_str(ans)[:300], v), dict(model=d)))
        else:
            rec["labels"].append("unsat:unreadable")
    return rec


def tie_core(b, ans, full, text, si, out, cnt):
    """replay of the traced UnsatCoreBuilder::buildBody on the extracted model (exact)"""
    if not b.complete:
        out["ties"].append(("core-trace-incomplete", "core-begin without core-all/core-split", dict(script=text, query=si)))
        return
    if b.full != full:
        out["ties"].append(("core-mode", "trace says full=%s, the script's option state says full=%s" % (b.full, full), dict(script=text, query=si)))
        return
    a = cc.driver([cc.core_request(b)])[0]
    if not a.startswith("ok "):
        out["ties"].append(("core-replay", "extracted builder answers %s" % a, dict(script=text, query=si)))
        return
    leaves, allt, named, hidden = cc.parse_core_ok(a)
    exp_named, exp_hidden = ([], []) if b.full else (b.split[2], b.split[3])
    if leaves != [c for c, _ in b.leaves] or allt != b.all or named != exp_named or hidden != exp_hidden:
        out["ties"].append(("core-replay", "extracted computeClauses/mapClausesToTerms/partitionNamedTerms: leaves %s all %s named %s hidden %s; implementation: leaves %s all %s named %s hidden %s"
                            % (leaves, allt, named, hidden, [c for c, _ in b.leaves], b.all, exp_named, exp_hidden), dict(script=text, query=si)))
        return
    cnt("tie:core-replay-exact")
    if not b.minimal and isinstance(ans, list) and not (ans and ans[0] == "error"):
        n = len(b.all) if b.full else len(exp_named)
        if n != len(ans):
            out["ties"].append(("core-printed", "builder result has %d terms, %d printed" % (n, len(ans)), dict(script=text, query=si)))


def work(job):
    seed, i, hook = job
    rng = random.Random(seed * 77773 + (i if isinstance(i, int) else 0))
    if isinstance(i, str):
        text = open(i).read()
        m = re.search(r"\(set-logic (\w+)\)", text)
        meta = dict(logic=m.group(1) if m else "QF_UF", features=["corpus:" + os.path.basename(i)], incremental="(push" in text)
    else:
        text, meta = G.gen_core_script(rng, risky=0.25)
    out = dict(text=text, meta=meta, records=[], ties=[], counts={})
    def cnt(k, n=1):
        out["counts"][k] = out["counts"].get(k, 0) + n
    trace = os.path.join(vlib.BUILD, "tmp", "c06_%d_%s.trace" % (os.getpid(), abs(hash((seed, str(i))))))
    rc, res, stdout, err = cc.run_aligned(text, timeout=30, trace=trace if hook else None)
    tr = ""
    if hook and os.path.exists(trace):
        tr = open(trace).read()
        os.remove(trace)
    if rc == -9:
        cnt("timeout")
        return out
    if rc not in (0, 1):
        cnt("abnormal-exit(rc=%s)" % rc)
        out["crash"] = dict(rc=rc, stdout=stdout[-400:], stderr=err[-400:])
        return out
    states, sig = cc.interpret(text)
    try:
        nans = len(read_all(stdout))
    except ParseError:
        cnt("unparsable-output")
        out["unparsable"] = stdout[-600:]
        return out
    if not res or nans != len(states) or len(res) != len(states):
        # never happens on the unchanged tree: some non-query command (assert, push, pop, set-option) answered, e.g.
        # "name already exists" for a name whose level was popped -- the script's reading of the history is not the solver's
        cnt("misaligned-output")
        out["ties"].append(("output-misaligned", "%d answers for %d query commands; stdout: %s" % (nans, len(states), stdout[:400]), dict(script=text)))
        return out
    logic, decls = meta["logic"], sc.decl_lines(text)
    blocks = cc.parse_core_trace(tr) if hook else []
    bi = 0
    last = None
    prev = None
    for si, (st, r) in enumerate(zip(states, res)):
        ans = r[4]
        if st.kind == "check-sat":
            last = ans
            prev = None
            cnt("answer:%s" % (ans if isinstance(ans, str) else "other"))
            if ans == "unsat":
                cc.note_unsat(states, si)
            continue
        if st.kind != "get-unsat-core" or not st.opts[":produce-unsat-cores"]:
            continue
        if last != "unsat":
            if not (isinstance(ans, list) and ans and ans[0] == "error"):
                out["records"].append(dict(si=si, viol=[("core-after-%s" % last, "get-unsat-core after %s answered %s" % (last, sx_str(ans) if ans is not None else None), {})],
                                           labels=[], size=None, skip=None, answer=None, mode="-"))
            continue
        blk = None
        if hook:
            blk = blocks[bi] if bi < len(blocks) else None
            bi += 1
        rec = judge_answer(st, ans, sig, logic, decls, blk)
        rec["si"], rec["answer"] = si, sx_str(ans) if ans is not None else None
        rec["mode"] = ("full" if st.opts[":print-cores-full"] else "named") + ("+min" if st.opts[":minimal-unsat-cores"] else "")
        rec["nassert"] = sum(len(f["items"]) for f in st.frames)
        if prev is not None and prev[0] == (st.opts[":print-cores-full"], st.opts[":minimal-unsat-cores"]) and prev[1] != rec["answer"]:
            rec["viol"].append(("core-changes-between-two-get-unsat-core", "two consecutive (get-unsat-core) in the same state print %s and %s" % (prev[1], rec["answer"]), {}))
        prev = ((st.opts[":print-cores-full"], st.opts[":minimal-unsat-cores"]), rec["answer"])
        out["records"].append(rec)
        if blk is not None:
            tie_core(blk, ans, st.opts[":print-cores-full"], text, si, out, cnt)
    if hook and bi != len(blocks):
        out["ties"].append(("core-trace-count", "%d core constructions traced, %d get-unsat-core commands answered after unsat" % (len(blocks), bi), dict(script=text)))
    return out


def run(ctx):
    cc.hook_present()
    hook = cc.core_hook_present()
    ctx.note("core-extraction trace hook (proposed_hooks/C06_core_trace.diff) %s" % ("present: exact replay of the builder on the extracted model" if hook else
             "absent: end-to-end judgement only"))
    cc.core_exe()
    n = 110 if ctx.quick else 3000
    corpus = sorted(glob.glob(os.path.join(vlib.VERIF, "corpus", "C06", "*.smt2")))
    jobs = [(ctx.seed, p, hook) for p in corpus] + [(ctx.seed, i, hook) for i in range(n)]
    with cf.ThreadPoolExecutor(max_workers=14) as ex:
        results = list(ex.map(work, jobs))
    for o in results:
        for k, v in o["counts"].items():
            ctx.count(k, v)
        text, meta = o["text"], o["meta"]
        if "crash" in o:
            ctx.violation("crash:rc=%s" % o["crash"]["rc"], "the solver terminated abnormally on an unsat-core script", dict(script=text, **o["crash"]))
        if "unparsable" in o:
            ctx.violation("unparsable-output", "the output is not a sequence of s-expressions", dict(script=text, stdout=o["unparsable"]))
        for name, detail, case in o["ties"]:
            ctx.tie_broken(name, detail, case)
        for rec in o["records"]:
            if rec["size"] is not None:
                ctx.case(key=(text, rec["si"]), nontrivial=(rec["size"] >= 1 and rec.get("nassert", 0) >= 2),
                         kind="%s:%s:%s" % (meta["logic"], rec["mode"], "incr" if meta["incremental"] else "single"),
                         sample=dict(script=text, query_index=rec["si"], core=rec["answer"], verdicts=rec["labels"]))
                ctx.count("core-size:%s" % (rec["size"] if rec["size"] < 10 else "10+"))
            for l in rec["labels"]:
                ctx.count({"unsat:agree": "core unsat: ORACLE-ONLY (z3 and cvc5 agree)"}.get(l, l))
            for sig_, what, extra in rec["viol"]:
                rp = dict(script=text, query_index=rec["si"], printed_core=rec["answer"], features=meta.get("features"))
                rp.update(extra)
                ctx.violation(sig_, what, rp)
