"""C15 — rational arithmetic is exact in both representations (FastRational)."""
import glob
import os
from concurrent.futures import ThreadPoolExecutor
from fractions import Fraction as F
from math import gcd

import ratgen
import vlib

META = dict(
    title="Rational arithmetic (FastRational) is exact in the word and in the GMP representation",
    category="proof",
    technique="Coq proof about a branch-by-branch Gallina transcription of FastRational (64-bit intermediates, overflow "
              "macros, goto-overflow, UB explicit) + exact three-way correspondence on every run: extracted model vs "
              "working-tree FastRational (harness) vs GMP/python exact arithmetic + overflow macros regenerated from "
              "the header text",
    level_text="Theorems in Properties_C15.v hold for all well-formed operands (unbounded; every word-path branch, no "
               "intermediate wrap/UB by interval reasoning); the same Gallina functions are extracted and compared "
               "exactly (value, representation, hash) with the working tree's FastRational on boundary-aimed operands "
               "reached directly and through arithmetic on every run. Operations whose faithful model violates the "
               "property are proved `_refuted` and reported as known findings.",
    level_note="Trusted: Coq kernel, extraction (ExtrOcamlBasic/ExtrOcamlString, no own Extract directives), "
               "ocaml/rat_driver.ml + bits.ml, harness/h_rat.cc, translate/check_macros.py, python fractions. Modelled "
               "rather than verified: the C++ text itself (transcribed by hand, tied by correspondence), GMP (by "
               "contract: exact canonical results), the `state` byte abstracted to wordPartValid().",
    design_ref="DESIGN.md §7 C15, design/C15.md",
    trusted_base=["Coq 8.16.1 kernel", "extraction: ExtrOcamlBasic ExtrOcamlString; no Extract Constant/Inductive of our own",
                  "ocaml/rat_driver.ml + ocaml/bits.ml (decimal <-> positive)",
                  "harness/h_rat.cc compiled with the working tree's FastRational.h/.cc (-DNDEBUG, as the Release build)",
                  "GMP (mpq/mpz) as exact-arithmetic contract; python fractions as the judge"],
    assumptions=["GMP's mpq/mpz functions return the exact result in canonical form (their documented contract)",
                 "the parsing of digit strings by mpq_set_str is exact (numeric literals are property C16)"],
    rule="cases = (operation, operand A, operand B, how each operand object is reached): all pairs over a boundary set of "
         "rationals (numerators/denominators at 0, ±1, 2^31-1, -2^31, 2^32-1, 2^32, 2^53, 2^63, 2^64 ...) for the "
         "arithmetic operations, plus PRNG-derived operands aimed at the same bounds (shared factors, equal/negated "
         "operands, sums and products just across a bound), each reached directly (string constructor) or through "
         "arithmetic (states WORD_AND_MPQ, WORD_PLUS_MPQ_INITIALIZED); a case is non-trivial unless an operand is 0 or 1; "
         "distinct = distinct (op, modes, operands); plus operation SEQUENCES over a register file of 2-4 objects (in-place, aliasing, "
         "copies/moves, cache-priming mixed reads; every register compared with the model and exact arithmetic after every step); every result "
         "is also read through a mixed-representation operation and isWellFormed()",
)

HERE = os.path.dirname(os.path.abspath(__file__))
P31, P32 = 2**31, 2**32

ARITH = ["add", "sub", "mul", "div", "addA", "subA", "mulA", "divA"]
ARITH3 = ["add3", "sub3", "mul3", "div3"]
REL = ["cmp", "eq", "lt", "le"]
UNARY = ["neg", "negate", "inv", "copy", "floor", "ceil", "num", "den", "round", "sign", "isint", "iszero", "isone",
         "selfadd", "selfsub", "selfmul", "selfdiv"]
INT2 = ["gcd", "lcm", "fdiv", "mod", "divexact"]
CTOR = ["ctorw", "ctoru", "ctorwu"]
MODES = "dapcm"
FIXED_THEOREM = dict(gcd="gcd_lcm_fixed_exact", lcm="gcd_lcm_fixed_exact", divexact="divexact_fixed_exact")
INT_RESULT = set(REL + ["sign", "isint", "iszero", "isone"])


def line_of(c):
    op, ma, a, mb, b = c
    if op in CTOR:
        return "%s d %d d %d" % (op, a[0], b[0])
    return "%s %s %d/%d %s %d/%d" % (op, ma, a[0], a[1], mb, b[0], b[1])


def sgn(x):
    return (x > 0) - (x < 0)


def fdiv(n, d):
    return n // d  # python: floor


def expected(op, a, b):
    """Exact result by python integers/fractions: ('q', Fraction) | ('i', int) | None (outside the domain)."""
    if op in CTOR:
        n, d = a[0], b[0]
        if op == "ctorw":
            return ("q", F(n)) if -P31 <= n < P31 else None
        if op == "ctoru":
            return ("q", F(n)) if 0 <= n < P32 else None
        return ("q", F(n, d)) if -P31 <= n < P31 and 1 <= d < P32 else None
    A, B = F(a[0], a[1]), F(b[0], b[1])
    if op in ("add", "add3", "addA"):
        return ("q", A + B)
    if op in ("sub", "sub3", "subA"):
        return ("q", A - B)
    if op in ("mul", "mul3", "mulA"):
        return ("q", A * B)
    if op in ("div", "div3", "divA"):
        return ("q", A / B) if B != 0 else None
    if op == "selfadd":
        return ("q", A + A)
    if op == "selfsub":
        return ("q", F(0))
    if op == "selfmul":
        return ("q", A * A)
    if op == "selfdiv":
        return ("q", F(1)) if A != 0 else None
    if op in ("neg", "negate"):
        return ("q", -A)
    if op == "inv":
        return ("q", 1 / A) if A != 0 else None
    if op == "copy":
        return ("q", A)
    if op == "floor":
        return ("q", F(fdiv(A.numerator, A.denominator)))
    if op == "ceil":
        return ("q", F(-fdiv(-A.numerator, A.denominator)))
    if op == "num":
        return ("q", F(A.numerator))
    if op == "den":
        return ("q", F(A.denominator))
    if op == "round":
        h = A + F(1, 2)
        return ("q", F(fdiv(h.numerator, h.denominator)))
    if op == "cmp":
        return ("i", sgn(A - B))
    if op == "eq":
        return ("i", int(A == B))
    if op == "lt":
        return ("i", int(A < B))
    if op == "le":
        return ("i", int(A <= B))
    if op == "sign":
        return ("i", sgn(A))
    if op == "isint":
        return ("i", int(A.denominator == 1))
    if op == "iszero":
        return ("i", int(A == 0))
    if op == "isone":
        return ("i", int(A == 1))
    if op in INT2:
        if A.denominator != 1 or B.denominator != 1:
            return None
        n, d = A.numerator, B.numerator
        if op == "gcd":
            return ("q", F(gcd(n, d)))
        if op == "lcm":
            return ("q", F(0 if n == 0 or d == 0 else abs(n * d) // gcd(n, d)))
        if d == 0:
            return None
        if op == "fdiv":
            return ("q", F(n // d))
        if op == "mod":
            return ("q", F(n - (n // d) * d))
        if op == "divexact":
            return ("q", F(n // d)) if n % d == 0 else None
    raise ValueError(op)


def parse_impl(s):
    """'R W n/d h' -> ('R','W',n,d,h);  'I k' -> ('I',k);  'CRASH s' -> ('CRASH', s); else ('?', s)"""
    t = s.split()
    try:
        if t and t[0] == "R" and len(t) >= 4 and all(x.startswith("!") for x in t[4:]):
            n, d = t[2].split("/")
            return ("R", t[1], int(n), int(d), int(t[3]))
        if t and t[0] == "I" and len(t) == 2:
            return ("I", int(t[1]))
        if t and t[0] == "CRASH":
            return ("CRASH", t[1] if len(t) > 1 else "?")
    except ValueError:
        pass
    return ("?", s)


def impl_flags(s):
    """deep-observation flags of the harness: !wf, !stale(v), !operandA, !operandB"""
    return [x for x in s.split() if x.startswith("!")]


def fits_word(n, d):
    return -P31 <= n < P31 and d < P32


def canonical(r):
    _, w, n, d, _ = r
    if d < 1 or gcd(n, d) != 1:
        return False
    if w == "W":
        return fits_word(n, d)
    return not fits_word(n, d)


def operand_class(a):
    """W/B by the canonical value (what representation the operand object has)"""
    q = F(a[0], a[1])
    return "W" if fits_word(q.numerator, q.denominator) else "B"


# ----------------------------------------------------------------------------------------------
# case generation
# ----------------------------------------------------------------------------------------------

def pick_mode(rng):
    return rng.choices(MODES, weights=[40, 20, 15, 15, 10])[0]


def gen_cases(ctx):
    rng = ctx.rng
    quick = ctx.quick
    cases = []
    # corpus first
    for p in sorted(glob.glob(os.path.join(vlib.VERIF, "corpus", "C15", "*.txt"))):
        for l in open(p):
            l = l.split("#")[0].strip()
            t = l.split()
            if len(t) != 5:
                continue
            op, ma, sa, mb, sb = t
            if op in CTOR:
                cases.append((op, "d", (int(sa), 1), "d", (int(sb), 1)))
            else:
                an, ad = sa.split("/")
                bn, bd = sb.split("/")
                cases.append((op, ma, (int(an), int(ad)), mb, (int(bn), int(bd))))
    ncorpus = len(cases)
    # exhaustive part: all pairs over boundary rationals
    if quick:
        nums = [0, 1, -1, 2, -2, P31 - 1, -(P31 - 1), -P31, P31, P32 - 1, P32, -2**63, 2**63, 2**64]
        dens = [1, 2, P31 - 1, P32 - 1, P32]
        R2 = ratgen.boundary_rationals(nums, dens)
        R1 = ratgen.boundary_rationals(ratgen.quick_nums(), ratgen.quick_dens())
        I2 = [(n, 1) for n in ratgen.quick_nums()]
    else:
        R2 = ratgen.boundary_rationals(ratgen.quick_nums() + [7, -7, 65536, P32 - 2], ratgen.quick_dens() + [7, 65536, 65537])
        R1 = ratgen.boundary_rationals(ratgen.thorough_nums(), ratgen.thorough_dens())
        I2 = [(n, 1) for n in ratgen.thorough_nums()]
    mode_pairs = [("d", "d"), ("a", "d"), ("d", "p"), ("c", "m"), ("p", "a"), ("m", "c"), ("a", "a"), ("d", "d")]
    k = 0
    for op in ARITH + (["cmp", "eq"] if quick else REL + ARITH3):
        for a in R2:
            for b in R2:
                ma, mb = mode_pairs[k % len(mode_pairs)]
                k += 1
                cases.append((op, ma, a, mb, b))
    for op in UNARY:
        for a in R1:
            for m in ("d", "a", "p") if quick else MODES:
                cases.append((op, m, a, "d", (0, 1)))
    for op in INT2:
        for a in I2:
            for b in I2:
                ma, mb = mode_pairs[k % len(mode_pairs)]
                k += 1
                cases.append((op, ma, a, mb, b))
    for op in CTOR:
        for n in [0, 1, -1, 2, 6, -6, P31 - 1, -P31, -P31 + 1, P31, P32 - 1, 2**30, -2**30]:
            for d in [1, 2, 3, 4, 6, P31 - 1, P31, P32 - 1, P32 - 2, 2**30]:
                if op == "ctorw" and not (-P31 <= n < P31):
                    continue
                if op == "ctoru" and not (0 <= n < P32):
                    continue
                if op == "ctorwu" and not (-P31 <= n < P31):
                    continue
                cases.append((op, "d", (n, 1), "d", (d, 1)))
    nexh = len(cases) - ncorpus
    # PRNG part
    mult = 1 if quick else 10
    for op in ARITH:
        for _ in range(9000 * mult):
            a = ratgen.rational(rng)
            b = ratgen.related(rng, a) if rng.random() < 0.7 else ratgen.rational(rng)
            if rng.random() < 0.5:
                a, b = b, a
            cases.append((op, pick_mode(rng), a, pick_mode(rng), b))
    for op in ARITH3:
        for _ in range(2500 * mult):
            a = ratgen.rational(rng)
            b = ratgen.related(rng, a)
            cases.append((op, pick_mode(rng), a, pick_mode(rng), b))
    for op in REL:
        for _ in range(4000 * mult):
            a = ratgen.rational(rng)
            b = ratgen.related(rng, a) if rng.random() < 0.7 else ratgen.rational(rng)
            cases.append((op, pick_mode(rng), a, pick_mode(rng), b))
    for op in UNARY:
        for _ in range(1500 * mult):
            cases.append((op, pick_mode(rng), ratgen.rational(rng), "d", (0, 1)))
    for op in INT2:
        for _ in range(6000 * mult):
            a = ratgen.integer(rng)
            b = ratgen.related_integer(rng, a) if rng.random() < 0.7 else ratgen.integer(rng)
            if rng.random() < 0.5:
                a, b = b, a
            if op == "divexact" and b[0] != 0 and rng.random() < 0.8:
                a = (a[0] - a[0] % b[0], 1)
            cases.append((op, pick_mode(rng), a, pick_mode(rng), b))
    for _ in range(2000 * mult):
        n = ratgen.word_num(rng)
        n = max(-P31, min(P31 - 1, n))
        d = min(P32 - 1, ratgen.uword_den(rng))
        cases.append(("ctorw", "d", (n, 1), "d", (0, 1)))
        cases.append(("ctoru", "d", (rng.choice([abs(n), d]), 1), "d", (0, 1)))
        cases.append(("ctorwu", "d", (n, 1), "d", (d, 1)))
    return cases, ncorpus, nexh


# ----------------------------------------------------------------------------------------------
# running the two voices
# ----------------------------------------------------------------------------------------------

def chunks(xs, n):
    k = max(1, (len(xs) + n - 1) // n)
    return [xs[i:i + k] for i in range(0, len(xs), k)]


def run_model(exe, lines, nproc, timeout):
    def one(ch):
        rc, out = vlib.sh([exe], input="\n".join(ch) + "\n", timeout=timeout)
        o = out.split("\n")
        if o and o[-1] == "":
            o.pop()
        return rc, o
    with ThreadPoolExecutor(nproc) as ex:
        rs = list(ex.map(one, chunks(lines, nproc)))
    out = []
    for rc, o in rs:
        if rc != 0:
            return None, "model driver rc=%s" % rc
        out += o
    return out, ""


def run_impl(exe, lines, nproc, timeout):
    """Runs the harness; a case that kills the process (not announced by the model) is re-run in a forked child."""
    def one(ch):
        out, pos, restarts = [], 0, 0
        ch = list(ch)
        while pos < len(ch):
            rc, o = vlib.sh("exec %s 2>/dev/null" % exe, input="\n".join(ch[pos:]) + "\n", timeout=timeout)
            # complete result lines end with " $" (a dying process may leave a partial line)
            good = []
            for x in o.split("\n"):
                if x.endswith(" $") and x.startswith(("R ", "I ", "Q ", "CRASH", "PREPFAIL", "BAD")):
                    good.append(x[:-2])
                else:
                    break
            if rc == 0 and len(good) == len(ch) - pos:
                out += good
                break
            out += good
            pos += len(good)
            restarts += 1
            if pos >= len(ch):
                break
            if restarts > 200 or ch[pos].startswith("!"):
                out += ["NORUN"] * (len(ch) - pos)
                break
            ch[pos] = "!" + ch[pos]
        return out
    with ThreadPoolExecutor(nproc) as ex:
        rs = list(ex.map(one, chunks(lines, nproc)))
    return [x for r in rs for x in r]


# ----------------------------------------------------------------------------------------------
# judgement
# ----------------------------------------------------------------------------------------------

def sign_class(op, a, b):
    A, B = F(a[0], a[1]), F(b[0], b[1])
    if op in INT2:
        if op in ("mod", "fdiv", "divexact") or True:
            s = "same-sign" if sgn(A) * sgn(B) >= 0 else "opposite-signs"
            neg = "neg-operand" if (A < 0 or B < 0) else "nonneg-operands"
            return neg + "," + s
    return "any"


def special_operands(a, b):
    A, B = F(a[0], a[1]), F(b[0], b[1])
    t = []
    if A == -P31 or B == -P31:
        t.append("INT_MIN")
    if B == -1 or A == -1:
        t.append("-1")
    return "+".join(t) if t else "-"


def run(ctx):
    exe, log = vlib.build_extracted("rat")
    if not exe:
        ctx.tie_broken("extraction-rat", log)
        return
    fr_cc = os.path.join(vlib.REPO, "src", "common", "numbers", "FastRational.cc")
    h, hlog = vlib.compile_harness("h_rat", extra_src=[fr_cc], link_lib=False, flags=["-DNDEBUG"])
    if not h:
        ctx.tie_broken("harness-h_rat", hlog)
        return
    macros_tie(ctx)

    cases, ncorpus, nexh = gen_cases(ctx)
    lines = [line_of(c) for c in cases]
    nproc = min(16, os.cpu_count() or 4)
    model, merr = run_model(exe, lines, nproc, 3000)
    if model is None or len(model) != len(cases):
        ctx.tie_broken("rat-model-run", merr or "model printed %d lines for %d cases" % (len(model), len(cases)))
        return
    # cases where the model announces abort()/UB/GMP division by zero run in a forked child
    hl = [("!" + l) if m.startswith("E ") else l for l, m in zip(lines, model)]
    impl = run_impl(h, hl, nproc, 3000)
    if len(impl) != len(cases):
        ctx.tie_broken("rat-harness-run", "harness printed %d lines for %d cases" % (len(impl), len(cases)))
        return
    ctx.note("cases: %d corpus + %d exhaustive boundary + %d PRNG" % (ncorpus, nexh, len(cases) - ncorpus - nexh))

    hashes = {}       # canonical value -> (hash, first case) : equal values must have equal hash
    variant = {}      # op -> 'current' | 'fixed' (gcd / lcm: which model variant the implementation follows)
    nbroken = 0
    for c, l, m, i in zip(cases, lines, model, impl):
        op, ma, a, mb, b = c
        parts = i.split(" ; ")
        ires = parts[0]
        states = parts[1] if len(parts) > 1 else "-"
        gres = parts[2] if len(parts) > 2 else "-"
        pi = parse_impl(ires)
        mv = m.split(" | ")
        mcur = mv[0]
        exp = expected(op, a, b)
        trivial = a[0] in (0,) or (a[0] == a[1]) or (op not in UNARY and op not in CTOR and (b[0] == 0 or b[0] == b[1]))
        cls = (operand_class(a) + operand_class(b)) if op not in CTOR else "--"
        kind = "%s:%s->%s" % (op, cls, (pi[1] if pi[0] == "R" else pi[0]))
        ctx.case(key=l, nontrivial=not trivial, kind=kind,
                 sample=dict(case=l, model=m, impl=i) if (ctx.evaluations % 9973 == 17) else None)
        ctx.count("state:" + states)

        # ---- the tie: model vs implementation, exactly --------------------------------------
        def matches(mres):
            """does the implementation's answer agree with this model answer? (None = no prediction)"""
            if mres.startswith("E "):
                e = mres[2:]
                if e == "Out_of_fuel":
                    return False
                if e == "Abort":
                    return pi == ("CRASH", "6")
                if e == "Gmp_divzero":
                    return pi[0] == "CRASH"
                return None        # undefined behaviour / unspecified GMP result: no prediction
            return ires == mres
        mc = matches(mcur)
        agrees = mc is not False
        if len(mv) > 1 and mv[1] != mcur:
            # gcd / lcm / divexact: the code before and after the repair differ on this case
            mf = matches(mv[1])
            if mf is True:
                agrees = True
                variant.setdefault(op, set()).add("fixed")
            elif mc is True or (mc is None and pi[0] == "CRASH"):
                variant.setdefault(op, set()).add("current")
            else:
                agrees = False
        if " !wf" in m:
            agrees = False
        # same value and representation (the hash aside): decides whether a defect is the modelled one
        same_repr = agrees or any(v.split()[:3] == ires.split()[:3] for v in mv if v.startswith("R "))
        if not agrees:
            nbroken += 1
            if nbroken <= 20:
                ctx.tie_broken("rat-correspondence:" + op, "case `%s`: model `%s` implementation `%s`" % (l, m, i), dict(case=l))

        # ---- the property itself, judged by exact arithmetic ----------------------------------
        if ires.startswith("PREPFAIL"):
            ctx.violation("operand-preparation:%s%s" % (ma, mb), "an operand reached through exact arithmetic "
                          "((x+2^80)-2^80, negate twice, (x*K)/K) is not the operand: case `%s`: %s" % (l, ires),
                          dict(case=l, impl=i, how="echo '%s' | build/harness/h_rat" % l))
            continue
        if exp is None:
            continue
        how = "echo '%s' | /verif/build/harness/h_rat   (R/I = FastRational, G = GMP)" % l
        sc = sign_class(op, a, b)
        tag = "as-modelled" if same_repr else "unmodelled"
        want = ("%d/%d" % (exp[1].numerator, exp[1].denominator)) if exp[0] == "q" else str(exp[1])
        if gres not in ("-", "G " + want, "G undef") and pi[0] != "CRASH":
            ctx.tie_broken("reference-disagreement", "GMP `%s` vs python `%s` on `%s`" % (gres, want, l), dict(case=l))
        if pi[0] == "CRASH":
            ctx.violation("%s:crash:%s:%s:%s" % (op, cls, special_operands(a, b), tag),
                          "%s on valid operands terminates the process (signal %s): `%s`, exact result %s" % (op, pi[1], l, want),
                          dict(case=l, impl=i, expected=want, how=how))
            continue
        if pi[0] == "?":
            ctx.violation("%s:no-result:%s" % (op, cls), "no result for `%s`: %s" % (l, i), dict(case=l, impl=i, how=how))
            continue
        fl = impl_flags(ires)
        if fl:
            ctx.violation("%s:inconsistent-object:%s:%s" % (op, cls, "+".join(sorted(set(x.split("(")[0] for x in fl)))),
                          "after %s the objects are inconsistent (%s): the printed fields, isWellFormed() and the value read by a "
                          "mixed-representation operation ((x+2^80)-2^80) disagree, or a const operand changed: `%s` gives `%s`, exact %s"
                          % (op, " ".join(fl), l, ires, want), dict(case=l, impl=i, expected=want, how=how))
            continue
        if exp[0] == "i":
            if pi[0] != "I" or pi[1] != exp[1]:
                ctx.violation("%s:wrong-value:%s:%s:%s" % (op, cls, sc, tag), "%s gives %s, exact %s: `%s`" % (op, ires, want, l),
                              dict(case=l, impl=i, expected=want, how=how))
            continue
        q = exp[1]
        if pi[0] != "R":
            ctx.violation("%s:no-result:%s" % (op, cls), "no result for `%s`: %s" % (l, i), dict(case=l, impl=i, how=how))
            continue
        _, w, n, d, hsh = pi
        if d < 1 or F(n, d) != q:
            flavour = "wrong-value"
            if d >= 1 and F(n, d) == -q:
                flavour = "sign-flipped"
            ctx.violation("%s:%s:%s:%s:%s" % (op, flavour, cls, sc, tag),
                          "%s gives %d/%d, exact %s: `%s`" % (op, n, d, want, l), dict(case=l, impl=i, expected=want, how=how))
            continue
        if not canonical(pi):
            ctx.violation("%s:non-canonical:%s:%s" % (op, cls, tag),
                          "%s returns the value %s in the non-canonical representation `%s`: `%s`" % (op, want, ires, l),
                          dict(case=l, impl=i, expected=want, how=how))
            continue
        prev = hashes.setdefault(q, (hsh, l))
        if prev[0] != hsh:
            ctx.violation("hash:differs-for-equal-values:%s" % op,
                          "equal values %s hash differently: %d from `%s`, %d from `%s`" % (want, prev[0], prev[1], hsh, l),
                          dict(case=l, other=prev[1], impl=i, how=how))
    sequence_pass(ctx, exe, h, nproc, hashes)
    if not ctx.quick:
        sanitizer_pass(ctx, fr_cc, lines, model, nproc)
    for op, vs in variant.items():
        if len(vs) > 1:
            ctx.tie_broken("rat-correspondence:" + op, "implementation follows neither model variant consistently: %s" % sorted(vs))
        else:
            ctx.note("%s: implementation follows the `%s` variant of the model (%s)" % (
                op, sorted(vs)[0], "the repaired code; theorem about it: " + FIXED_THEOREM[op] if "fixed" in vs
                else "the code before the repair: only the _partial / _refuted theorems apply"))
    ctx.note("distinct values with a hash recorded: %d; correspondence mismatches: %d" % (len(hashes), nbroken))


# ----------------------------------------------------------------------------------------------
# operation sequences over a register file: the hidden representation state of an object (word only /
# GMP only / word with a cached GMP copy) is varied and results of in-place operators are re-used
# ----------------------------------------------------------------------------------------------
HUGE = 2**80
KMUL = 2**40 + 15
INPLACE = ["addA", "subA", "mulA", "divA", "addC", "subC", "mulC", "divC"]
THREE = ["add", "sub", "mul", "div", "add3", "sub3", "mul3", "div3"]
PRIMES = ["prime", "primem", "primec", "primeq"]


def seq_apply(vals, tok):
    """exact semantics of one step on python Fractions; returns (extra, ok) where extra is None | ('I', int) | ('P', Fraction);
    ok = False when the step is outside the domain (division by zero)"""
    p = tok.split(".")
    op = p[0]
    a = [int(x) for x in p[1:]] + [0, 0, 0]
    x, y, z = a[0], a[1], a[2]
    bop = {"add": lambda u, v: u + v, "sub": lambda u, v: u - v, "mul": lambda u, v: u * v, "div": lambda u, v: u / v}
    if op in INPLACE:
        k = op[:3]
        if k == "div" and vals[y] == 0:
            return None, False
        vals[x] = bop[k](vals[x], vals[y])
        return None, True
    if op in THREE:
        k = op[:3]
        if k == "div" and vals[z] == 0:
            return None, False
        vals[x] = bop[k](vals[y], vals[z])
        return None, True
    if op == "neg":
        vals[x] = -vals[y]
    elif op == "negate":
        vals[x] = -vals[x]
    elif op == "inv":
        if vals[y] == 0:
            return None, False
        vals[x] = 1 / vals[y]
    elif op == "floor":
        vals[x] = F(vals[y].numerator // vals[y].denominator)
    elif op == "ceil":
        vals[x] = F(-((-vals[y].numerator) // vals[y].denominator))
    elif op == "num":
        vals[x] = F(vals[y].numerator)
    elif op == "den":
        vals[x] = F(vals[y].denominator)
    elif op in ("copy", "cctor"):
        vals[x] = vals[y]
    elif op in ("move", "swap"):
        vals[x], vals[y] = vals[y], vals[x]
    elif op == "cmp":
        return ("I", sgn(vals[x] - vals[y])), True
    elif op == "eq":
        return ("I", int(vals[x] == vals[y])), True
    elif op == "lt":
        return ("I", int(vals[x] < vals[y])), True
    elif op == "sign":
        return ("I", sgn(vals[x])), True
    elif op == "isint":
        return ("I", int(vals[x].denominator == 1)), True
    elif op in ("prime", "primem"):
        return ("P", vals[x]), True
    elif op == "primec":
        return ("I", sgn(vals[x] - HUGE)), True
    elif op == "primeq":
        return ("I", int(vals[x] == HUGE + F(1, 3))), True
    else:
        raise ValueError(tok)
    return None, True


def gen_sequence(rng):
    """a random program; every value-changing step is legal for the exact values (no division by zero)"""
    n = rng.choice([2, 3, 3, 4])
    inits = []
    for i in range(n):
        k = rng.random()
        if i and k < 0.3:
            v = inits[rng.randrange(i)][1]                       # equal values in different objects
        elif k < 0.75:
            v = (ratgen.word_num(rng) if rng.random() < 0.5 else rng.randint(-12, 12), rng.choice([1, 1, 2, 3, 6, ratgen.uword_den(rng)]))
        else:
            v = ratgen.rational(rng)
        inits.append((pick_mode(rng), v))
    vals = [F(v[0], v[1]) for _, v in inits]
    steps = []
    nsteps = rng.randint(4, 12)
    tries = 0
    while len(steps) < nsteps and tries < 60:
        tries += 1
        k = rng.random()
        i, j, t = rng.randrange(n), rng.randrange(n), rng.randrange(n)
        pre = []
        if k < 0.34:
            op = rng.choice(INPLACE)
            r = rng.random()
            if r < 0.25:
                j = i                                            # aliasing: x op= x
            elif r < 0.45 and j != i:
                pre = ["copy.%d.%d" % (j, i)]                    # equal operand in another object
            elif r < 0.55 and j != i:
                pre = ["neg.%d.%d" % (j, i)]                     # negated operand
            tok = "%s.%d.%d" % (op, i, j)
        elif k < 0.60:
            tok = "%s.%d" % (rng.choice(PRIMES), i)
        elif k < 0.74:
            op = rng.choice(THREE)
            if op.endswith("3") and op != "div3":
                while t in (i, j) and n > 2:
                    t = rng.randrange(n)
                if t in (i, j):
                    op = op[:3]
            tok = "%s.%d.%d.%d" % (op, t, i, j)
        elif k < 0.84:
            op = rng.choice(["neg", "negate", "inv", "floor", "ceil", "num", "den"])
            tok = "negate.%d" % i if op == "negate" else "%s.%d.%d" % (op, t, i)
        elif k < 0.93:
            tok = "%s.%d.%d" % (rng.choice(["copy", "cctor", "move", "swap"]), i, j)
        else:
            op = rng.choice(["cmp", "eq", "lt", "sign", "isint"])
            tok = "%s.%d" % (op, i) if op in ("sign", "isint") else "%s.%d.%d" % (op, i, j)
        trial = list(vals)
        good = True
        for s_ in pre + [tok]:
            _, ok = seq_apply(trial, s_)
            good = good and ok
        # keep the numbers from exploding (the aim is the word/GMP boundary, not huge numbers)
        if not good or any(abs(v.numerator) > 2**200 or v.denominator > 2**200 for v in trial):
            continue
        vals = trial
        steps += pre + [tok]
    return inits, steps


def seq_line(inits, steps):
    return "seq %d %s | %s" % (len(inits), " ".join("%s:%d/%d" % (m, v[0], v[1]) for m, v in inits), " ".join(steps))


def sequence_pass(ctx, exe, h, nproc, hashes):
    rng = ctx.rng
    nseq = 6000 if ctx.quick else 60000
    progs = []
    for p in sorted(glob.glob(os.path.join(vlib.VERIF, "corpus", "C15", "*.seq"))):
        for l in open(p):
            l = l.split("#")[0].strip()
            if l.startswith("seq "):
                t = l.split()
                n = int(t[1])
                inits = [(x[0], tuple(int(u) for u in x[2:].split("/"))) for x in t[2:2 + n]]
                progs.append((inits, t[3 + n:]))
    ncorp = len(progs)
    for _ in range(nseq):
        progs.append(gen_sequence(rng))
    progs = [p for p in progs if p[1]]
    lines = [seq_line(i, s) for i, s in progs]
    model, merr = run_model(exe, lines, nproc, 3000)
    if model is None or len(model) != len(lines):
        ctx.tie_broken("rat-model-run:seq", merr or "model printed %d lines for %d sequences" % (len(model), len(lines)))
        return
    hl = [("!" + l) if m.startswith("E ") else l for l, m in zip(lines, model)]
    impl = run_impl(h, hl, nproc, 3000)
    if len(impl) != len(lines):
        ctx.tie_broken("rat-harness-run:seq", "harness printed %d lines for %d sequences" % (len(impl), len(lines)))
        return
    nsteps = nbroken = 0
    for (inits, steps), l, m, i in zip(progs, lines, model, impl):
        how = "echo '%s' | /verif/build/harness/h_rat   (dump of all registers after every step; F = mixed-representation read)" % l
        body, _, tail = i.partition(" #")
        flags, _, states = tail.partition(" @")
        flags = flags.split()
        for st in states.split():
            ctx.count("seq-state:" + st)
        kinds = sorted(set(s_.split(".")[0] for s_ in steps))
        ctx.case(key=l, nontrivial=True, kind="seq:%d-steps" % len(steps),
                 sample=dict(case=l, model=m, impl=i) if (ctx.evaluations % 1999 == 7) else None)
        nsteps += len(steps)
        # ---- tie: the model's dumps, exactly ----
        if m.startswith("E "):
            agrees = False        # the generator only emits steps inside the domain: the model must not fail
        else:
            agrees = body == m and flags == ["ok"]
        if not agrees:
            nbroken += 1
            if nbroken <= 10:
                ctx.tie_broken("rat-correspondence:seq", "sequence `%s`: model `%s` implementation `%s`" % (l, m[:600], i[:900]), dict(case=l))
        # ---- property level: exact values by python fractions, step by step ----
        if i.startswith("CRASH") or not i.startswith("Q "):
            ctx.violation("seq:crash-or-no-result", "the sequence `%s` gives `%s`" % (l, i[:200]), dict(case=l, impl=i, how=how))
            continue
        vals = [F(v[0], v[1]) for _, v in inits]
        dumps = body[2:].split(" ; ")
        if len(dumps) != len(steps) + 1:
            ctx.violation("seq:crash-or-no-result", "the sequence `%s` gives %d dumps for %d steps" % (l, len(dumps), len(steps)),
                          dict(case=l, impl=i, how=how))
            continue
        bad = None
        for k, (tok, dump) in enumerate(zip(steps, dumps)):
            extra, _ = seq_apply(vals, tok)
            d = dump.split()
            op = tok.split(".")[0]
            if extra is not None:
                got = d.pop(0) if d else ""
                want = "I:%d" % extra[1] if extra[0] == "I" else "P:%d/%d" % (extra[1].numerator, extra[1].denominator)
                if got != want:
                    bad = ("%s:wrong-%s" % (op, "value" if extra[0] == "I" else "mixed-read"), k, tok, "prints %s, exact %s" % (got, want))
                    break
            if len(d) != len(vals):
                bad = ("%s:no-result" % op, k, tok, "dump `%s`" % dump)
                break
            for ri, (f, v) in enumerate(zip(d, vals)):
                try:
                    w, nd, hs = f.split(":")
                    nn, dd = (int(u) for u in nd.split("/"))
                    hs = int(hs)
                except ValueError:
                    bad = ("%s:no-result" % op, k, tok, "register %d prints `%s`" % (ri, f))
                    break
                if dd < 1 or F(nn, dd) != v:
                    bad = ("%s:wrong-value" % op, k, tok, "register %d holds %s, exact %s" % (ri, nd, v))
                    break
                if not canonical(("R", w, nn, dd, hs)):
                    bad = ("%s:non-canonical" % op, k, tok, "register %d holds %s as `%s`" % (ri, v, f))
                    break
                prev = hashes.setdefault(v, (hs, l))
                if prev[0] != hs:
                    bad = ("hash:differs-for-equal-values", k, tok, "value %s hashes to %d here and to %d in `%s`" % (v, hs, prev[0], prev[1]))
                    break
            if bad:
                break
            fl = [x for x in flags if x.startswith("%d." % k)]
            if fl:
                bad = ("%s:inconsistent-object" % op, k, tok, "isWellFormed() is false after the step (%s): the word part and the GMP part "
                       "flagged valid differ" % " ".join(fl))
                break
        if not bad:
            fin = dumps[-1].split()
            want = ["F"] + ["P:%d/%d" % (v.numerator, v.denominator) for v in vals]
            if fin != want or any(x.startswith("F.") for x in flags):
                last = steps[-1].split(".")[0]
                bad = ("seq-final:stale-or-wrong-mixed-read", len(steps), "final read",
                       "reading every register through (x+2^80)-2^80 gives `%s`, exact `%s` (%s)" % (" ".join(fin), " ".join(want), " ".join(flags)))
        if bad:
            sig, k, tok, what = bad
            ctx.violation("seq:" + sig, "operation sequence, step %d (%s): %s — `%s`" % (k, tok, what, l),
                          dict(case=l, impl=i, step=k, how=how))
    ctx.note("operation sequences: %d (+%d corpus) programs, %d steps, every register compared after every step; mismatches with the model: %d"
             % (len(progs) - ncorp, ncorp, nsteps, nbroken))


def sanitizer_pass(ctx, fr_cc, lines, model, nproc):
    """Thorough tier: every case on which the model returns a value is replayed on a build with UBSan
    (-fno-sanitize-recover) and assertions; the process must survive (support for the no-UB theorems)."""
    h, hlog = vlib.compile_harness("h_rat_san", extra_src=[fr_cc], link_lib=False,
                                   flags=["-fsanitize=undefined", "-fno-sanitize-recover=all", "-I" + os.path.join(vlib.VERIF, "harness")])
    if not h:
        ctx.tie_broken("harness-h_rat_san", hlog)
        return
    sel = [l for l, m in zip(lines, model) if not m.startswith("E ")]
    if len(sel) > 1500000:
        sel = sel[:1500000]
    out = run_impl(h, sel, nproc, 3000)
    bad = [(l, o) for l, o in zip(sel, out) if o.startswith(("CRASH", "NORUN")) or not o.startswith(("R ", "I "))]
    ctx.count("ubsan+assert cases", len(sel))
    ctx.note("UBSan + assertions build: %d cases, %d terminated" % (len(sel), len(bad)))
    for l, o in bad[:5]:
        op = l.split()[0]
        ctx.violation("%s:ubsan-or-assert" % op, "undefined behaviour or a failed assertion (UBSan/assert build, `%s`) on `%s`" % (o, l),
                      dict(case=l, impl=o, how="harness/h_rat_san.cc (g++ -fsanitize=undefined -fno-sanitize-recover=all, assertions on)"))


def macros_tie(ctx):
    """translate/check_macros.py regenerates coq/Rat/Gen_CheckMacros.v from the header; the equivalence theorems in
    Rat/CheckMacrosProofs.v are obligations of Properties_C15.v (compiled by bin/check before run())."""
    tr = os.path.join(vlib.VERIF, "translate", "check_macros.py")
    if not os.path.exists(tr):
        ctx.note("check_macros translator not present yet")
        return
    rc, out = vlib.sh(["python3", tr, "--check"], timeout=700)
    if rc != 0:
        ctx.tie_broken("translator-check_macros", out[-1500:])
    else:
        ctx.note(out.strip()[-200:])
        if "changed textually" in out and vlib.REPO == "/repo":
            vlib.sh(["python3", tr], timeout=60)      # keep the generated file in step with the tree
