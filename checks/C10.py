"""C10 — printed resolution proofs are closed, valid refutations of the current assertions."""
import concurrent.futures
import hashlib
import json
import os
import re

import vlib
import sattrace
import scriptgen_sat as sg

META = dict(
    title="Printed resolution proofs are closed, valid refutations",
    category="proof",
    technique="Coq proof (verified checker for the printed proof format: check_proof_sound) + per-run decision: every "
              "(get-proof) output of every generated history is parsed and decided by the extracted checker; leaf "
              "admissibility against the currently active assertions decided per leaf (frame bookkeeping exactly, "
              "entailment by z3/cvc5 as untrusted oracles)",
    level_text="check_proof_sound / res_step_sound / res_chain_sound hold for all proofs (Coq). Per run: names bound once and "
               "before use, every res step on a pivot with opposite signs, stated resolvents equal the computed ones, final "
               "reference bound to the empty clause, :core names are leaves: decided by the extracted check_proof_err. Leaves: "
               "'(not .frameK)' only for an active frame K; a guard .frameK only of an active frame; the clause without its guard "
               "entailed by the assertions of the active levels up to that frame (or T-valid).",
    level_note="full per proof for the resolution structure (verified checker decides each printed proof). Leaf admissibility is "
               "partly oracle-based: entailment 'active assertions |= leaf' and T-validity are answered by z3 (cross-checked by cvc5 "
               "before a violation is reported); the frame bookkeeping (which frames are active) is exact. Trusted: Coq kernel, "
               "extraction, ocaml/sat_driver.ml, the proof reader in lib/sattrace.py.",
    design_ref="DESIGN.md §7 C10 / design/C10.md",
    trusted_base=["Coq 8.16.1 kernel", "extraction: Require Import ExtrOcamlBasic ExtrOcamlString; no Extract Constant of our own",
                  "ocaml/sat_driver.ml (decimal int <-> positive/Z/N, line protocol)",
                  "lib/sattrace.py parse_proof (reader of the printed proof, numbering of atoms)",
                  "z3 4.8.12 / cvc5 1.0.3 as oracles for leaf entailment (untrusted; a leaf violation is reported only when both agree)"],
    assumptions=["leaf admissibility (i)/(iii) is decided semantically (entailed by the assertions of the active levels up to the leaf's "
                 "frame, or T-valid), not by re-implementing the clausal-form computation"],
    needs_impl=True,
    rule="histories from lib/scriptgen_sat.py (push/pop, named assertions, QF_UF/LRA/LIA/IDL/RDL) with :produce-proofs true under the "
         "default, lookahead, random-seed and non-incremental option vectors; (get-proof) after every unsat answer; a case = one printed "
         "proof; non-trivial = proof with >= 1 resolution step; distinct = distinct (script, config, index of the check-sat)",
)

FRAME = re.compile(r"^\.frame([0-9]+)$")
AUX = re.compile(r"(?<![\w.])\.(?!frame[0-9]+\b)[A-Za-z_]")

PROOF_CONFIGS = {
    "proofs": ["(set-option :produce-proofs true)"],
    "proofs+seed": ["(set-option :produce-proofs true)", "(set-option :random-seed %(seed)d)"],
    "proofs+lookahead": ["(set-option :produce-proofs true)", "(set-option :pure-lookahead true)"],
    "proofs+nonincremental": ["(set-option :produce-proofs true)", "(set-option :incremental false)"],
}


def commands_of(body):
    return sattrace.parse_sexps(body)


def history(cmds):
    """Walk the commands; yields for every check-sat the state (list of levels; level = dict(frame=id, assertions=[term text]))."""
    levels = [dict(frame=0, assertions=[])]
    next_frame = 1
    decls = []
    states = []
    for c in cmds:
        if not isinstance(c, list) or not c:
            continue
        h = c[0]
        if h in ("declare-fun", "declare-sort", "declare-const", "define-fun"):
            decls.append(sattrace.unparse(c))
        elif h == "assert":
            t = c[1]
            if isinstance(t, list) and t and t[0] == "!":
                t = t[1]
            levels[-1]["assertions"].append(sattrace.unparse(t))
        elif h == "push":
            n = int(c[1]) if len(c) > 1 else 1
            for _ in range(n):
                levels.append(dict(frame=next_frame, assertions=[]))
                next_frame += 1
        elif h == "pop":
            n = int(c[1]) if len(c) > 1 else 1
            if n <= len(levels) - 1:
                del levels[len(levels) - n:]
        elif h == "check-sat":
            states.append(dict(levels=[dict(frame=l["frame"], assertions=list(l["assertions"])) for l in levels], decls=list(decls)))
    return states


def insert_get_proofs(body, answers):
    """(get-proof) after every check-sat whose answer (first pass) was unsat."""
    out, k = [], 0
    for line in body.split("\n"):
        out.append(line)
        if line.strip() == "(check-sat)":
            if k < len(answers) and answers[k] == "unsat":
                out.append("(get-proof)")
            k += 1
    return "\n".join(out)


SIMPLE = re.compile(r"^[A-Za-z_][A-Za-z0-9_]*$")


def plain_clause(term_text):
    """an assertion that is a clause over plain symbols: frozenset of (atom, positive?) ; else None"""
    try:
        sx = sattrace.parse_sexps(term_text)
    except ValueError:
        return None
    if len(sx) != 1:
        return None
    t = sx[0]
    lits = t[1:] if isinstance(t, list) and t and t[0] == "or" else [t]
    out = set()
    for l in lits:
        if isinstance(l, str) and SIMPLE.match(l) and l not in ("true", "false"):
            out.add((l, True))
        elif isinstance(l, list) and len(l) == 2 and l[0] == "not" and isinstance(l[1], str) and SIMPLE.match(l[1]) and l[1] not in ("true", "false"):
            out.add((l[1], False))
        else:
            return None
    return frozenset(out)


def clause_term(lits):
    ts = [a if p else "(not %s)" % a for a, p in lits]
    if not ts:
        return "false"
    return ts[0] if len(ts) == 1 else "(or %s)" % " ".join(ts)


def oracle_entailment(logic, decls, level_asserts, queries, solver="z3", timeout=20):
    """queries: list of (qid, nlevels, clause term or None for validity-only).  For each query two questions:
         valid:    not L unsat without assertions
         entailed: assertions of the first nlevels levels and not L unsat
       One solver process, incremental.  Returns {qid: (valid, entailed)} with values 'unsat' / 'sat' / 'unknown'."""
    lines = ["(set-logic %s)" % ("ALL" if solver == "cvc5" else logic)] + decls
    order = []
    # validity first (no assertions)
    for qid, nl, term in queries:
        lines += ["(push 1)", "(assert (not %s))" % term, "(check-sat)", "(pop 1)"]
        order.append((qid, "valid"))
    by_level = {}
    for q in queries:
        by_level.setdefault(q[1], []).append(q)
    for k, asserts in enumerate(level_asserts, 1):
        for a in asserts:
            lines.append("(assert %s)" % a)
        for qid, nl, term in by_level.get(k, []):
            lines += ["(push 1)", "(assert (not %s))" % term, "(check-sat)", "(pop 1)"]
            order.append((qid, "entailed"))
    rc, out = vlib.run_ref(solver, "\n".join(lines) + "\n", timeout=timeout)
    answers = [w for w in out.split() if w in ("sat", "unsat", "unknown")]
    res = {}
    for i, (qid, what) in enumerate(order):
        a = answers[i] if i < len(answers) else "unknown"
        v, e = res.get(qid, ("unknown", "unknown"))
        res[qid] = (a, e) if what == "valid" else (v, a)
    if len(answers) != len(order):
        res["__error__"] = out[-400:]
    return res


def analyse_proof(ctx, exe_lines, pr, state, logic):
    """Frame bookkeeping for the leaves of one parsed proof. Returns (leaf infos, problems).
       leaf info: dict(name, lits, kind, need_levels, term) ; problems: list of (signature, text)."""
    active = {l["frame"]: i + 1 for i, l in enumerate(state["levels"])}     # frame id -> number of levels up to it
    infos, problems = [], []
    for s in pr["steps"]:
        if s[0] != "L":
            continue
        name, lits = s[1], s[2]
        if s[3] or not lits:
            infos.append(dict(name=name, lits=lits, kind="elided", need_levels=None, term=None))
            continue
        if any(AUX.search(a) for a, _ in lits):
            # auxiliary symbols introduced by the solver (.iteN_M for Boolean ite): clauses of their definitions;
            # not decided here (counted as uncovered), only their frame guard is checked below
            gp = [int(FRAME.match(a).group(1)) for a, p in lits if FRAME.match(a)]
            if any(g not in active for g in gp):
                problems.append(("leaf-of-popped-frame", "leaf cls_%d (over an auxiliary symbol) is guarded by an inactive frame: %s" % (name, clause_term(lits))))
            infos.append(dict(name=name, lits=lits, kind="aux", need_levels=None, term=None))
            continue
        frames_pos = [int(FRAME.match(a).group(1)) for a, p in lits if FRAME.match(a) and p]
        frames_neg = [int(FRAME.match(a).group(1)) for a, p in lits if FRAME.match(a) and not p]
        rest = [(a, p) for a, p in lits if not FRAME.match(a)]
        info = dict(name=name, lits=lits, kind=None, need_levels=None, term=None)
        if frames_neg:
            if len(lits) == 1 and frames_neg[0] in active and frames_neg[0] != 0:
                info["kind"] = "activation"
            elif len(lits) == 1:
                info["kind"] = "bad"
                problems.append(("activation-of-inactive-frame", "leaf cls_%d activates frame %d which is not on the assertion stack (active: %s)"
                                 % (name, frames_neg[0], sorted(active))))
            else:
                info["kind"] = "bad"
                problems.append(("odd-frame-literal", "leaf cls_%d contains a negated frame literal inside a clause: %s" % (name, clause_term(lits))))
        elif frames_pos:
            if len(frames_pos) > 1:
                info["kind"] = "bad"
                problems.append(("odd-frame-literal", "leaf cls_%d carries several frame guards: %s" % (name, clause_term(lits))))
            elif frames_pos[0] not in active:
                info["kind"] = "bad"
                problems.append(("leaf-of-popped-frame", "leaf cls_%d is guarded by frame %d which is not on the assertion stack (active: %s): %s"
                                 % (name, frames_pos[0], sorted(active), clause_term(lits))))
            elif not rest:
                # the unit '.frameK' alone: the assumption of a DISABLED frame; never admissible for an active one
                info["kind"] = "bad"
                problems.append(("disabling-unit-of-active-frame", "leaf cls_%d is the unit .frame%d of an active frame" % (name, frames_pos[0])))
            else:
                info["kind"] = "guarded"
                info["need_levels"] = active[frames_pos[0]]
                info["term"] = clause_term(rest)
        else:
            info["kind"] = "base"
            info["need_levels"] = 1
            info["term"] = clause_term(rest)
        infos.append(info)
    return infos, problems


def run(ctx):
    exe, log = vlib.build_extracted("sat")
    if not exe:
        ctx.tie_broken("extraction-sat", log)
        return
    rng = ctx.rng
    nscripts = 200 if ctx.quick else 2000
    size = 1
    jobs = []
    cfg_names = list(PROOF_CONFIGS)
    for i in range(nscripts):
        cfg = "proofs" if i % 2 == 0 else cfg_names[1 + (i // 2) % 3]
        inc = cfg != "proofs+nonincremental"
        if inc and i % 4 == 0:
            # several open push levels over level-0 facts: final conflicts over >= 2 activation assumptions
            s = sg.gen_deep_history(rng, size=size)
        else:
            s = sg.gen_script(rng, incremental=inc if not inc else (rng.random() < 0.9), size=size if rng.random() < 0.8 else 2,
                              ite=rng.random() < 0.15)
        seed = rng.randint(1, 10 ** 6)
        pre = "".join(o % dict(seed=seed) + "\n" for o in PROOF_CONFIGS[cfg])
        jobs.append(dict(cfg=cfg, logic=s["logic"], family=s["family"], pre=pre, body=s["body"]))
    d = os.path.join(vlib.VERIF, "corpus", "C10")
    if os.path.isdir(d):
        for f in sorted(os.listdir(d)):
            if f.endswith(".json"):
                try:
                    c = json.load(open(os.path.join(d, f)))
                    jobs.insert(0, dict(cfg=c.get("config", "corpus"), logic=c.get("logic", "QF_UF"), family="corpus", pre=c.get("pre", ""), body=c["body"]))
                except Exception:
                    pass
    tmo = 4 if ctx.quick else 20

    def solve(job):
        try:
            return solve_(job)
        except Exception:
            try:
                return solve_(job)
            except Exception:
                return [], None

    def solve_(job):
        rc, out, err = sattrace.run_solver(job["pre"] + job["body"], timeout=tmo)
        answers = [w for w in out.split() if w in ("sat", "unsat", "unknown")]
        if "unsat" not in answers:
            return answers, None
        text = job["pre"] + insert_get_proofs(job["body"], answers)
        rc2, out2, err2 = sattrace.run_solver(text, timeout=tmo)
        return answers, (text, rc2, out2)
    import time as _t
    t0 = _t.time()
    with concurrent.futures.ThreadPoolExecutor(max_workers=6) as pool:
        results = list(pool.map(solve, jobs))
    ctx.extra["t_solver_s"] = round(_t.time() - t0, 1)

    # collect the printed proofs
    proofs = []        # dict(job, text, k (index of check-sat), raw, state)
    nunsat = 0
    for job, (answers, second) in zip(jobs, results):
        ctx.count("script:%s:%s" % (job["cfg"], job["logic"]))
        if second is None:
            continue
        text, rc2, out2 = second
        try:
            resp = sattrace.split_outputs(out2)
        except Exception as e:
            ctx.tie_broken("output-reader", "cannot split the solver output: %s" % e, dict(script=text))
            continue
        states = history(commands_of(job["body"]))
        k = -1
        i = 0
        expect_proof = False
        for r in resp:
            if r in ("sat", "unsat", "unknown"):
                k += 1
                expect_proof = r == "unsat" and k < len(answers) and answers[k] == "unsat"
                if r == "unsat":
                    nunsat += 1
                continue
            if r.startswith("(proof") and expect_proof and k < len(states):
                proofs.append(dict(job=job, text=text, k=k, raw=r, state=states[k]))
                expect_proof = False
            elif r.startswith("(error") and expect_proof:
                proofs.append(dict(job=job, text=text, k=k, raw=r, state=states[k] if k < len(states) else None))
                expect_proof = False
    if not proofs:
        ctx.tie_broken("no-proofs", "no (get-proof) output was obtained from %d scripts (%d unsat answers)" % (len(jobs), nunsat))
        return

    # 1. structure: the extracted checker on the printed proof (all leaves admitted), as printed and with the final reference repaired
    lines, owner = [], []
    for pi, P in enumerate(proofs):
        raw = P["raw"]
        if not raw.startswith("(proof"):
            P["pr"] = None
            continue
        try:
            pr = sattrace.parse_proof(raw)
        except (sattrace.ProofSyntax, ValueError) as e:
            P["pr"] = None
            P["syntax"] = str(e)
            continue
        P["pr"] = pr
        last = pr["steps"][-1][1] if pr["steps"] else 0
        P["last"] = last
        if pr["final"] is not None:
            lines.append(sattrace.proof_driver_line(pr))
            owner.append((pi, "printed"))
        lines.append(sattrace.proof_driver_line(pr, final=last))
        owner.append((pi, "repaired"))
    rc, outs, err = sattrace.run_driver(exe, lines) if lines else (0, [], "")
    if rc != 0 or len(outs) != len(lines):
        ctx.tie_broken("sat-driver", "rc=%s, %d answers for %d commands; %s" % (rc, len(outs), len(lines), err[-500:]))
        return
    for (pi, which), ans in zip(owner, outs):
        proofs[pi][which] = ans
    # literals over true/false not printed?  (an elided leaf, or a chain step on the pivot true/false that the checker
    # rejects because the printed premises do not contain it): continue past it by reading the proof without those steps
    lines, owner = [], []
    for pi, P in enumerate(proofs):
        pr = P.get("pr")
        if pr is None:
            continue
        P["elided"] = False
        names = {st[1]: st for st in pr["steps"]}
        for which in ("printed", "repaired"):
            w = (P.get(which) or "").split()
            if len(w) == 4 and w[1] == "BadPivot":
                st = names.get(int(w[2]))
                if st and int(w[3]) < len(st[4]) and st[4][int(w[3])][1] in sattrace.CONSTS:
                    P["elided"] = True
        if any(st[0] == "L" and st[3] for st in pr["steps"]):
            P["elided"] = True
        if P["elided"]:
            P["pr_printed"] = pr
            P["pr"] = pr = sattrace.drop_constant_steps(pr)
            if pr["final"] is not None:
                lines.append(sattrace.proof_driver_line(pr))
                owner.append((pi, "printed"))
            lines.append(sattrace.proof_driver_line(pr, final=P["last"]))
            owner.append((pi, "repaired"))
    if lines:
        rc, outs, err = sattrace.run_driver(exe, lines)
        if rc != 0 or len(outs) != len(lines):
            ctx.tie_broken("sat-driver", "rc=%s on the constant-steps pass" % rc)
            return
        for (pi, which), ans in zip(owner, outs):
            proofs[pi][which] = ans

    # 2. leaves: frame bookkeeping + oracle entailment (cached per script/state)
    def leaf_work(P, cache):
        pr = P["pr"]
        if pr is None or P["state"] is None:
            return None
        infos, problems = analyse_proof(ctx, None, pr, P["state"], P["job"]["logic"])
        level_asserts = [l["assertions"] for l in P["state"]["levels"]]
        res = {}
        queries = []
        # exact match first: the leaf (without its guard) is literally an asserted clause of a level it may use
        asserted = []
        acc = set()
        for la in level_asserts:
            for a in la:
                cl = plain_clause(a)
                if cl is not None:
                    acc.add(cl)
            asserted.append(set(acc))
        for i in infos:
            if i["kind"] in ("base", "guarded"):
                body = frozenset((a, p) for a, p in i["lits"] if not FRAME.match(a))
                if body in asserted[i["need_levels"] - 1]:
                    i["exact"] = True
                    res[i["name"]] = ("sat", "unsat")
                    continue
                key = (tuple(tuple(a) for a in level_asserts[:i["need_levels"]]), i["term"])
                i["key"] = key
                if key in cache:
                    res[i["name"]] = cache[key]
                else:
                    queries.append((i["name"], i["need_levels"], i["term"]))
        if queries:
            tmo_o = 10 if ctx.quick else 30
            r1 = oracle_entailment(P["job"]["logic"], P["state"]["decls"], level_asserts, queries, "z3", timeout=tmo_o)
            res.update(r1)
            bad = [q for q in queries if r1.get(q[0], ("unknown", "unknown"))[0] != "unsat" and r1.get(q[0], ("unknown", "unknown"))[1] != "unsat"]
            if bad:
                res2 = oracle_entailment(P["job"]["logic"], P["state"]["decls"], level_asserts, bad, "cvc5", timeout=tmo_o)
                for q in bad:
                    res[("cvc5", q[0])] = res2.get(q[0], ("unknown", "unknown"))
            badn = {q[0] for q in bad}
            for i in infos:
                if i.get("key") is not None and i["name"] in r1 and i["name"] not in badn:
                    cache[i["key"]] = r1[i["name"]]      # only decided answers are reused
        return infos, problems, res

    # proofs of one script share most leaves: one worker per script, answers reused within the script
    groups = {}
    for pi, P in enumerate(proofs):
        groups.setdefault(P["text"], []).append(pi)

    def group_work(pis):
        cache = {}
        return [(pi, leaf_work(proofs[pi], cache)) for pi in pis]
    t0 = _t.time()
    leafres = [None] * len(proofs)
    with concurrent.futures.ThreadPoolExecutor(max_workers=6) as pool:
        for part in pool.map(group_work, list(groups.values())):
            for pi, r in part:
                leafres[pi] = r
    ctx.extra["t_oracle_s"] = round(_t.time() - t0, 1)

    nleaves = dict(activation=0, exact=0, guarded=0, base=0, theory=0, undecided=0, elided=0, aux=0)
    admitted_lines, admitted_owner = [], []
    for pi, (P, lr) in enumerate(zip(proofs, leafres)):
        job = P["job"]
        h = hashlib.md5(P["text"].encode()).hexdigest()[:12]
        pr = P["pr"]
        replay = dict(script=P["text"], config=job["cfg"], check_sat_index=P["k"], proof=P["raw"][:6000],
                      how="build/impl/opensmt script.smt2; the (get-proof) output after check-sat number %d" % (P["k"] + 1))
        nsteps = sum(1 for s in pr["steps"] if s[0] == "D") if pr else 0
        ctx.case(key=(h, P["k"]), nontrivial=nsteps >= 1, kind="%s:%s:%s" % (job["cfg"], job["logic"], "proof" if pr else "no-proof"),
                 sample=dict(config=job["cfg"], logic=job["logic"], family=job["family"], check_sat=P["k"] + 1,
                             steps=nsteps, leaves=(sum(1 for s in pr["steps"] if s[0] == "L") if pr else 0),
                             printed=P.get("printed"), repaired=P.get("repaired")))
        if pr is None:
            if P["raw"].startswith("(error"):
                ctx.tie_broken("get-proof-error", "check-sat %d answered unsat but (get-proof) printed %s" % (P["k"] + 1, P["raw"][:200]), replay)
                ctx.violation("no-proof-after-unsat", "after an unsat answer with :produce-proofs, (get-proof) prints an error instead of a refutation: %s" % P["raw"][:200], replay)
            else:
                ctx.tie_broken("proof-reader", "the printed proof is not of the known shape: %s" % P.get("syntax"), replay)
                ctx.violation("malformed-proof", "the printed proof is not a well-formed (proof (let ...) ... name :core (...)) term: %s" % P.get("syntax"), replay)
            continue
        # --- structure
        if P.get("elided"):
            ctx.violation("elided-constant-literal",
                          "literals over the constants true/false are not printed in the clauses of the proof although the chains resolve on them "
                          "(a leaf is printed with an empty body / an or-form with fewer than two literals, or a pivot is 'true'/'false'): the printed "
                          "premises of those steps do not contain the pivot", replay)
        printed = P.get("printed")
        repaired = P.get("repaired")
        if pr["final"] is None:
            ctx.violation("final-reference-not-a-name", "the final reference %r is not a clause name" % pr["final_text"], replay)
        elif printed != "ok":
            sig, what = classify(printed, pr)
            if sig == "unbound-final-reference" and repaired == "ok" or sig != "unbound-final-reference":
                pass
            ctx.violation(sig, what, replay)
        if repaired != "ok" and (printed is None or printed.startswith("err FinalUnbound")):
            # the rest of the proof, read with the final reference a reader would assume (the last binding)
            sig, what = classify(repaired, pr)
            ctx.violation(sig, what + " (final reference read as the last binding cls_%d)" % P["last"], replay)
        # --- leaves
        if lr is None:
            continue
        infos, problems, res = lr
        if problems:
            earlier = [Q for Q in proofs[:pi] if Q["text"] == P["text"] and Q["k"] < P["k"] and Q["raw"] == P["raw"]]
            for sig, what in problems:
                if sig in ("leaf-of-popped-frame", "activation-of-inactive-frame") and earlier:
                    sig = "popped-frame:stale-proof-reprinted"
                    what = ("the proof printed after check-sat %d is, character for character, the proof printed after check-sat %d, whose frame "
                            "has been popped since: " % (P["k"] + 1, earlier[-1]["k"] + 1)) + what
                elif sig in ("leaf-of-popped-frame", "activation-of-inactive-frame"):
                    sig = "popped-frame:" + sig
                ctx.violation(sig, what + "  -- the proof refers to a frame that is not active: it does not refute the current assertions", replay)
        if "__error__" in res:
            ctx.count("oracle-output-short")
        admitted = set()
        core = set(pr["core"])
        for i in infos:
            if i["kind"] in ("elided", "aux"):
                nleaves[i["kind"]] += 1
                admitted.add(i["name"])
            elif i["kind"] == "activation":
                nleaves["activation"] += 1
                admitted.add(i["name"])
            elif i["kind"] in ("base", "guarded"):
                valid, ent = res.get(i["name"], ("unknown", "unknown"))
                if valid == "unsat" and i["name"] not in core:
                    nleaves["theory"] += 1
                    admitted.add(i["name"])
                elif i.get("exact"):
                    nleaves["exact"] += 1
                    admitted.add(i["name"])
                elif ent == "unsat" or valid == "unsat":
                    nleaves[i["kind"]] += 1
                    admitted.add(i["name"])
                else:
                    v2, e2 = res.get(("cvc5", i["name"]), ("unknown", "unknown"))
                    if ent == "sat" and e2 == "sat":
                        lv = i["need_levels"]
                        ctx.violation("leaf-not-entailed:%s" % i["kind"],
                                      "leaf cls_%d = %s is neither T-valid nor entailed by the assertions of the %d active level(s) it belongs to "
                                      "(z3 and cvc5 agree; oracle-based)" % (i["name"], clause_term(i["lits"]), lv),
                                      dict(replay, leaf=clause_term(i["lits"]), levels=P["state"]["levels"][:lv]))
                    elif e2 == "unsat" or v2 == "unsat":
                        nleaves[i["kind"]] += 1
                        admitted.add(i["name"])
                    else:
                        nleaves["undecided"] += 1
                        admitted.add(i["name"])     # not decided by the oracles: counted, not reported
        if repaired == "ok" or printed == "ok":
            admitted_lines.append(sattrace.proof_driver_line(pr, final=P["last"] if printed != "ok" else None, admitted=admitted))
            admitted_owner.append(pi)
    # 3. the verified checker once more with exactly the admitted leaves (check_proof leaves P of the theorem)
    if admitted_lines:
        rc, outs, err = sattrace.run_driver(exe, admitted_lines)
        if rc != 0 or len(outs) != len(admitted_lines):
            ctx.tie_broken("sat-driver", "rc=%s on the admitted-leaves pass" % rc)
        else:
            nok = 0
            for pi, ans in zip(admitted_owner, outs):
                if ans == "ok":
                    nok += 1
                elif not ans.startswith("err LeafNotAdmitted"):
                    ctx.tie_broken("admitted-pass-differs", "structure accepted but admitted-leaves pass says %s" % ans)
            ctx.extra["proofs_accepted_with_admitted_leaves"] = nok
    for k, v in nleaves.items():
        ctx.count("leaf:" + k, v)
    ctx.extra["proofs"] = len(proofs)
    ctx.extra["unsat_answers"] = nunsat
    ctx.note("%d scripts, %d unsat answers, %d printed proofs decided by the extracted check_proof_err; leaves: %s" % (len(jobs), nunsat, len(proofs), nleaves))
    tot = sum(nleaves.values())
    if tot and nleaves["undecided"] > 0.05 * tot:
        ctx.tie_broken("oracle-undecided", "%d of %d leaves were not decided by the oracles" % (nleaves["undecided"], tot))
    if ctx.quick and len(proofs) < 100:
        ctx.tie_broken("too-few-proofs", "only %d proofs were printed by %d scripts" % (len(proofs), len(jobs)))


def classify(ans, pr):
    """driver answer -> (signature, text)"""
    w = ans.split()
    kind = w[1] if len(w) > 1 else ans
    names = {s[1]: s for s in pr["steps"]}
    if kind == "FinalUnbound":
        bound_empty = [s[1] for s in pr["steps"] if s[0] == "D" and s[2] == []]
        return ("unbound-final-reference",
                "the final reference cls_%s is not bound by any let of the proof (the empty clause is bound as %s)"
                % (w[2], ", ".join("cls_%d" % n for n in bound_empty) or "nothing"))
    if kind == "BadPivot":
        n, k = int(w[2]), int(w[3])
        s = names.get(n)
        piv = s[4][k][1] if s and k < len(s[4]) else "?"
        if piv in ("true", "false"):
            return ("elided-constant-literal", "step %d of the chain of cls_%d resolves on the pivot '%s', but literals over the constants true/false "
                    "are not printed in clauses, so the pivot does not occur in the printed premises" % (k + 1, n, piv))
        return ("bad-pivot", "step %d of the chain of cls_%d: the pivot %s does not occur with opposite signs in the two premises" % (k + 1, n, piv))
    if kind == "WrongResolvent" and names.get(int(w[2])) and names[int(w[2])][2] == []:
        return ("empty-clause-not-derived", "cls_%s is stated to be the empty clause ('; -') but its chain leaves literals unresolved: the proof "
                "is not a refutation (its leaves need not be jointly unsatisfiable)" % w[2])
    if kind == "WrongResolvent":
        return ("wrong-resolvent", "the clause stated for cls_%s is not the resolvent of its chain" % w[2])
    if kind == "Unbound":
        return ("unbound-name", "cls_%s is used in the derivation of cls_%s before/without being bound" % (w[2], w[3]))
    if kind == "Rebound":
        return ("name-bound-twice", "cls_%s is bound twice" % w[2])
    if kind == "FinalNotEmpty":
        return ("final-clause-not-empty", "the final reference cls_%s is bound to a non-empty clause" % w[2])
    if kind == "CoreNotLeaf":
        return ("core-name-not-a-leaf", ":core lists cls_%s which is not a leaf of the proof" % w[2])
    return ("checker-" + kind, ans)


if __name__ == "__main__":
    import sys
    import time
    ctx = vlib.Ctx("C10", sys.argv[1] if len(sys.argv) > 1 else "quick", int(os.environ.get("VERIF_SEED", "1")))
    t = time.time()
    run(ctx)
    print("time", round(time.time() - t, 1))
    print("evaluations", ctx.evaluations, "distinct", len(ctx.nontrivial))
    print("broken", [(b[0], str(b[1])[:300]) for b in ctx.broken[:10]], len(ctx.broken))
    from collections import Counter
    print("violations", Counter(v["signature"] for v in ctx.violations))
    seen = set()
    for v in ctx.violations:
        if v["signature"] not in seen:
            seen.add(v["signature"])
            print("  ", v["signature"], "::", v["what"][:400])
    print("known", [(a, b[:100]) for a, b, _ in ctx.known_hits])
    print(json.dumps(ctx.dist, indent=0, sort_keys=True)[:3000])
    print(ctx.notes, ctx.extra)
