"""C29 — input outside the declared logic is rejected, never answered wrongly."""
import concurrent.futures as cf
import glob
import os
import random
import re
import time
from fractions import Fraction

import vlib
import smtlib
import solvercheck as sc
import scriptgen_oof as og
from smtlib import sx_str

META = dict(
    title="Input outside the declared logic is rejected, never answered wrongly",
    category="proof",
    technique="Coq model of the difference-logic atom parser (STPSolver::parseRef as the release build behaves) with soundness on the "
              "fragment and machine-checked counterexamples outside it + exact correspondence of the extracted parser with the working "
              "tree (harness calling parseRef) + generated out-of-fragment scripts whose every answer is an error or is judged "
              "(Coq-verified evaluator on the solver's own / z3's model certifies sat; z3+cvc5 untrusted for unsat)",
    level_text="Proved for all atoms (Properties_C29.v): on difference atoms the parser of the STP solver produces an edge between "
               "variable vertices that means exactly the atom (dl_parse_sound, both the released and the strict parser); the strict "
               "parser rejects every other linear atom (c29_strict_reject_or_correct) and a front end admitting only difference atoms "
               "under QF_IDL/QF_RDL handles every accepted atom correctly (c29_reject_or_correct). On the faithful model of the "
               "release build the property is REFUTED: dl_parse_refuted / dl_parse_refuted_three (2x-y<=0, x+z-y<=0 are read as other "
               "constraints), dl_wrong_sat_witness (x+y<=1, x>=1, y>=1 is unsatisfiable but its parse is a satisfiable graph), "
               "c29_reject_or_correct_refuted (the front end accepts these atoms under QF_IDL). These refutations concern the UNREPAIRED "
               "parser (history since /repo commit 1aceccd); the check reads off the witness atom which parser the tree has and ties the "
               "tree to that variant: with the repaired (strict) parser the applicable theorem is c29_strict_reject_or_correct and the "
               "witnesses, replayed on the binary on every run, must be answered with (error ...). Per run: the extracted parser is compared exactly "
               "with parseRef of the working tree on generated atoms (both sorts, both child orders of products), and generated "
               "scripts of every out-of-fragment class (sums, scaled variables, three/four variables, equalities and disequalities of "
               "those under QF_IDL/QF_RDL; arithmetic under QF_UF; products, division/div/mod by variables, Int/Real mixing, "
               "to_real/to_int, decimals under QF_LIA, div/mod under QF_LRA) plus their twin under the embedding logic are run: every "
               "response must be an (error ...) for the offending command or a judged-correct sat/unsat; an abort is reported too.",
    level_note="PARTIAL beyond the parser: 'every other out-of-logic construct' is covered per run, not by proof. Trusted: Coq kernel, "
               "extraction, ocaml/tsolver_driver.ml, harness/h_tsolver.cc (private members opened by macro; compiled with -DNDEBUG like "
               "the release library), lib/smtlib.py + coq/Sem evaluator for certified sat; z3/cvc5 are untrusted (an unsat verdict of "
               "both is labelled ORACLE-ONLY). A read beyond a 0-ary term's arguments in parseRef (x + y with unit coefficients) is "
               "undefined behaviour: the model marks it PR_oob and only x and c are compared there. Constant conversion to the edge "
               "type is exact in this model (C27 covers it).",
    design_ref="DESIGN.md §7 C29, design/C29.md",
    trusted_base=["Coq 8.16.1 kernel", "extraction: ExtrOcamlBasic, ExtrOcamlString only", "ocaml/tsolver_driver.ml + ocaml/bits.ml",
                  "harness/h_tsolver.cc (-DNDEBUG, #define private public)", "lib/scriptgen_oof.py marker alignment, lib/smtlib.py, lib/solvercheck.py",
                  "coq/Sem verified evaluator (certified sat)", "z3 4.8.12 / cvc5 1.0.3 NOT trusted: proposals / ORACLE-ONLY labels"],
    assumptions=["Converter<T>::getValue is exact on the small constants generated here (C27 covers large constants)"],
    needs_impl=True,
    rule="parse tie: atoms  rel(linear term over x0..x3, constant)  of classes difference / sum / scaled / three / four variables, both "
         "sorts, coefficients in +-{1,2,3,1/2}, variables and constants met in either order; non-trivial = atom not folded to a constant. "
         "scripts: lib/scriptgen_oof.py (45% difference logics incl. families that are unsatisfiable only through the out-of-fragment "
         "atom, 20% atoms over terms that are not variables - applications of uninterpreted functions/predicates, ite, div/mod by a "
         "constant - under QF_RDL/QF_IDL/QF_LRA/QF_LIA incl. families unsatisfiable through congruence only, 7% QF_UF with arithmetic, "
         "28% QF_LRA/QF_LIA non-linear or mixed); 40% of the scripts are rewritten into multi-step scripts (second/third check-sat, "
         "push/assert/check/pop/check, the popped assertions asserted again, one check-sat per assertion) and EVERY check-sat answer is "
         "judged against the assertions accepted and active at that point; each script also under its embedding logic; distinct = (script, check index)",
)

SAMPLES = {}


# ---------------------------------------------------------------------------------------------
# parse-level tie
# ---------------------------------------------------------------------------------------------
def lit(n):
    if isinstance(n, Fraction) and n.denominator != 1:
        s = "(/ %d %d)" % (abs(n.numerator), n.denominator)
    else:
        s = "%d" % abs(int(n))
    return "(- %s)" % s if n < 0 else s


def gen_atom(r, real):
    nv = r.choice([1, 2, 2, 2, 2, 3, 3, 4])
    vs = r.sample(["x0", "x1", "x2", "x3"], nv)
    dlish = r.random() < 0.35
    terms = []
    for i, v in enumerate(vs):
        if dlish and nv <= 2:
            k = 1 if i == 0 else -1
            if r.random() < 0.3:
                k = -k
        else:
            k = r.choice([1, -1, 1, -1, 2, -2, 3, -3] + ([Fraction(1, 2), Fraction(-3, 2)] if real else []))
        if k == 1:
            terms.append(v)
        elif k == -1 and r.random() < 0.5:
            terms.append("(- %s)" % v)
        else:
            terms.append(r.choice(["(* %s %s)" % (lit(k), v), "(* %s %s)" % (v, lit(k))]))
    lhs = terms[0] if len(terms) == 1 else "(+ %s)" % " ".join(terms)
    c = r.randint(-5, 5) if not real or r.random() < 0.7 else Fraction(r.randint(-9, 9), r.choice([2, 3]))
    rel = r.choice(["<=", ">=", "<", ">"])
    if r.random() < 0.5:
        return "(%s %s %s)" % (rel, lhs, lit(c)), "dl-shaped" if dlish and nv <= 2 else "%d-vars" % nv
    return "(%s %s %s)" % (rel, lit(c), lhs), "dl-shaped" if dlish and nv <= 2 else "%d-vars" % nv


NODE = re.compile(r"^(var|times|timesrev):(.*)$")


def model_line(hline, strict):
    """harness line -> (driver request, expected harness-side rendering builder) or None."""
    m = re.match(r"^(pos|neg) atom c=(\S+) rhs=(plus|single) (.*?) \| (.*)$", hline)
    if not m:
        return None
    c, nodes, res = m.group(2), m.group(4).split(), m.group(5)
    req = ["P", "1" if strict else "0", c]
    for n in nodes:
        w = n.split(":")
        if w[0] == "var":
            req += ["1", str(int(w[1][1:]) + 1), "1"]
        elif w[0] in ("times", "timesrev"):
            req += [w[1], str(int(w[2][1:]) + 1), "1" if w[0] == "times" else "0"]
        else:
            return None
    return " ".join(req), res


def canon_q(s):
    s = s.strip()
    m = re.match(r"^\((\S+) \| (\S+)\)$", s)           # Delta printed as (r | d)
    if m:
        if Fraction(m.group(2)) != 0:
            return "delta"
        s = m.group(1)
    return str(Fraction(s))


def canon_vertex(v):
    w = v.split(":")
    if w[0] == "var":
        return "var:" + (w[1] if w[1].startswith("x") else "x%d" % (int(w[1]) - 1))
    if w[0] in ("times", "timesrev"):
        return "%s:%s:%s" % (w[0], str(Fraction(w[1])), w[2] if w[2].startswith("x") else "x%d" % (int(w[2]) - 1))
    if w[0] == "const":
        return "const:" + str(Fraction(w[1]))
    return v


def canon_parse(s):
    """'x=.. y=.. c=..' / 'oob x=.. c=..' / 'reject' / 'throw ...' -> canonical tuple"""
    s = s.strip()
    if s.startswith("throw") or s == "reject":
        return ("reject",)
    d = dict(kv.split("=", 1) for kv in re.findall(r"\b[xyc]=(?:\([^)]*\)|\S+)", s) for kv in [kv])
    if s.startswith("oob"):
        return ("oob", canon_vertex(d["x"]), canon_q(d["c"]))
    return ("pr", canon_vertex(d["x"]), canon_vertex(d["y"]), canon_q(d["c"]))


def parse_tie(ctx, h, exe, n):
    r = ctx.rng
    atoms = []
    for p in sorted(glob.glob(os.path.join(vlib.VERIF, "corpus", "C29", "atoms*.txt"))):
        for l in open(p):
            l = l.strip()
            if l and not l.startswith("#"):
                atoms.append((l.split()[0] == "R", l.split(None, 1)[1], "corpus"))
    fixed = ["(<= (+ x0 x1) 1)", "(<= (- (* 2 x0) x1) 0)", "(>= (- (* 2 x0) x1) 0)", "(<= (- (+ x0 x2) x1) 0)", "(<= (- x0 x1) 3)", "(>= x0 1)"]
    for real in (False, True):
        for a in fixed:
            atoms.append((real, a, "witness"))
    for _ in range(n):
        real = r.random() < 0.4
        a, kind = gen_atom(r, real)
        atoms.append((real, a, kind))
    inp = "".join("P %s %s\n" % ("R" if real else "I", a) for real, a, _ in atoms)
    rc, out = vlib.sh([h], input=inp, timeout=600)
    hl = out.split("\n")
    if rc != 0 or len(hl) < len(atoms):
        ctx.tie_broken("parse-correspondence-run", "harness rc=%s lines %d/%d: %s" % (rc, len(hl), len(atoms), out[-400:]))
        return None
    # which parser does the tree have?  probe = the witness x0 + x1 <= 1 (first fixed atom)
    first = [i for i, (real, a, k) in enumerate(atoms) if k == "witness"][0]
    strict = "throw" in hl[first]
    ctx.note("parser variant observed on the tree: " + ("strict (non-difference atoms rejected)" if strict else "release parser (asserts compiled out)"))
    reqs, idx = [], []
    for i, ((real, a, kind), l) in enumerate(zip(atoms, hl)):
        if l.startswith("notleq") or l.startswith("exception"):
            ctx.case(key=("atom", real, a), nontrivial=False, kind="parse:folded-or-rejected-by-logic")
            continue
        ml = model_line(l, strict)
        if ml is None:
            ctx.tie_broken("parse-correspondence-format", "unreadable harness line for %s: %s" % (a, l), dict(atom=a))
            continue
        reqs.append(ml[0])
        idx.append((i, ml[1]))
    rc, mout = vlib.sh([exe], input="".join(q + "\n" for q in reqs), timeout=600)
    ml = mout.split("\n")
    if rc != 0 or len(ml) < len(reqs):
        ctx.tie_broken("parse-correspondence-run", "model rc=%s lines %d/%d" % (rc, len(ml), len(reqs)))
        return None
    nondl_wrong = 0
    for (i, hres), req, mres in zip(idx, reqs, ml):
        real, a, kind = atoms[i]
        m = re.match(r"^dl=(\d) lin=(\d) (.*)$", mres)
        if not m:
            ctx.tie_broken("parse-correspondence-format", "unreadable model line %s for %s" % (mres, req))
            continue
        is_dl = m.group(1) == "1"
        try:
            cm, ch = canon_parse(m.group(3)), canon_parse(hres)
        except Exception as e:
            ctx.tie_broken("parse-correspondence-format", "%s / %s: %s" % (mres, hres, e))
            continue
        ctx.case(key=("atom", real, a), nontrivial=True, kind="parse:%s:%s:%s" % ("Real" if real else "Int", "difference" if is_dl else "non-difference", cm[0]))
        if kind == "witness" and ("w%d" % i) not in SAMPLES and len(SAMPLES) < 3:
            SAMPLES["w%d" % i] = dict(case="parseRef of " + a + (" (Real)" if real else " (Int)"), normalised=hl[i].split(" | ")[0], model=m.group(3), impl=hres)
        ok = (cm == ch) if cm[0] != "oob" else (ch[0] == "pr" and ch[1] == cm[1] and ch[3] == cm[2])
        if cm[0] == "pr" and cm[3] == "delta":
            ok = False
        if not ok:
            ctx.tie_broken("parse-correspondence", "%s %s: model %s, implementation %s" % ("Real" if real else "Int", a, cm, ch),
                           dict(atom=a, sort="Real" if real else "Int", request=req))
        if not is_dl and ch[0] != "reject":
            nondl_wrong += 1
    ctx.note("atoms outside the difference fragment that parseRef of the tree accepted (read as some edge): %d" % nondl_wrong)
    return strict


# ---------------------------------------------------------------------------------------------
# script-level
# ---------------------------------------------------------------------------------------------
class Rec:
    """records ctx calls made in a worker thread; replayed on the real ctx in the main thread"""

    def __init__(self):
        self.calls = []
        self.notes = []

    def case(self, **kw):
        self.calls.append(("case", kw))

    def violation(self, *a):
        self.calls.append(("violation", a))

    def note(self, s):
        self.calls.append(("note", s))
        self.notes.append(s)

    def replay(self, ctx):
        for k, a in self.calls:
            if k == "case":
                ctx.case(**a)
            elif k == "violation":
                ctx.violation(*a)
            elif len([x for x in ctx.notes if x.startswith("undecided")]) < 4:
                ctx.note(a)


def run_script(job):
    d, cmds, text, logic_run = job
    rc, out, err = vlib.run_opensmt(text, timeout=20)
    rec = Rec()
    info = analyse(rec, d, cmds, text, logic_run, rc, out, err, logic_run != d["logic"])
    return d, cmds, text, logic_run, rc, out, err, rec, info


ANS = ("sat", "unsat", "unknown")


def analyse(ctx, d, cmds, text, logic_run, rc, out, err, is_twin):
    """Returns dict(status, answer, rejected [cmd idx], judged verdict)."""
    cls, logic = d["cls"], d["logic"]
    tag = "%s:%s" % (logic_run, cls)
    key = (text,)
    info = dict(status=None, answer=None, rejected=[])
    if rc == -9:
        ctx.case(key=key, nontrivial=True, kind="timeout:%s" % d["family"])
        info["status"] = "timeout"
        return info
    if rc < 0 or rc > 1:
        info["status"] = "abort"
        m = re.search(r"throwing an instance of '(?:\w+::)*(\w+)'", err or "")
        how = m.group(1) if m else ("signal%d" % -rc if rc < 0 else "exit%d" % rc)
        ctx.case(key=key, nontrivial=True, kind="abort:%s:%s" % (tag, how))
        if not is_twin:
            ctx.violation("abort:%s:%s" % (tag, how),
                          "the solver process dies (exit status %s: %s) on a script outside %s instead of answering the offending command with (error ...)"
                          % (rc, (err or out).strip().replace("\n", " ")[:200], logic),
                          dict(script="\n".join(cmds) + "\n", exit_status=rc, stderr=err[-400:], stdout=out[-400:]))
        return info
    resp, tail = og.split_by_marks(out, len(cmds))
    if resp is None:
        info["status"] = "misaligned"
        ctx.case(key=key, nontrivial=False, kind="misaligned-output(skipped)")
        return info
    rejected = [k for k, (c, a) in enumerate(zip(cmds, resp)) if a.startswith("(error") and c.startswith(("(assert", "(declare", "(define"))]
    info["rejected"] = rejected
    info["errors"] = [(cmds[k], a) for k, a in enumerate(resp) if a.startswith("(error")]
    cis = [k for k, c in enumerate(cmds) if c == "(check-sat)"]
    answers = [resp[k].strip() for k in cis]
    info["answers"] = answers
    info["answer"] = answers[-1] if answers else None
    # the assertion sets the answers are about: commands answered with an error do not count
    eff = [c for k, c in enumerate(cmds) if k not in rejected]
    eff_text = "\n".join(eff) + "\n"
    info["status"] = "rejected" if rejected or any(x.startswith("(error") for x in answers) else "accepted"
    info["verdicts"] = []
    try:
        qs = [x for x in sc.Script(eff_text).run() if x[0] == "check-sat"]
        decls = sc.decl_lines(eff_text)
    except Exception as e:
        qs, decls = None, None
        glue_error = "glue: %s" % e
    steps = d.get("steps") or "single"
    for j, (k, ans) in enumerate(zip(cis, answers)):
        verdict, detail, A = None, None, []
        if ans in ("sat", "unsat"):
            model_sx = None
            if ans == "sat" and k + 1 < len(cmds) and cmds[k + 1] == "(get-model)":
                try:
                    sx = smtlib.read_all(resp[k + 1])
                    if sx and isinstance(sx[0], list) and not (sx[0] and sx[0][0] == "error"):
                        model_sx = sx[0]
                except smtlib.ParseError:
                    model_sx = None
            if qs is None or j >= len(qs):
                verdict, detail = "undecided", glue_error if qs is None else "glue: check-sat not found"
            else:
                frames, sig = qs[j][3], qs[j][4]
                A = sc.active_assertions(frames)
                for attempt in range(4):
                    try:
                        if ans == "sat":
                            verdict, detail = sc.judge_sat(sig, d["oracle_logic"], decls, A, model_sx)
                        else:
                            verdict, detail = sc.judge_unsat(sig, d["oracle_logic"], decls, A)
                    except OSError as e:
                        verdict, detail = "undecided", "glue: %s" % e
                    except Exception as e:      # glue could not interpret the effective script: leave undecided, say so
                        verdict, detail = "undecided", "glue: %s" % e
                        break
                    if "No such file" not in str(detail):
                        break
                    time.sleep(3)      # the shared evaluator binary is being rebuilt by a concurrent check
            if verdict == "undecided" and len([x for x in ctx.notes if x.startswith("undecided")]) < 4:
                ctx.note("undecided %s answer of %s (%s): %s" % (ans, logic_run, cls, str(detail)[:200]))
            if not is_twin:
                where = "check-sat %d of %d (%s)" % (j + 1, len(cis), steps)
                if ans == "sat" and verdict == "refuted-oracles":
                    ctx.violation("wrong-sat:%s" % tag,
                                  "%s script with %s, %s: answered sat; the assertions accepted and active there are unsatisfiable "
                                  "(own model rejected by the verified evaluator: %s; z3 and cvc5 both unsat, ORACLE-ONLY for unsatisfiability)"
                                  % (logic, cls, where, detail),
                                  dict(script="\n".join(cmds) + "\n", check_index=j + 1, answers=answers, active_assertions=[sx_str(a) for a in A], stdout=out))
                elif ans == "unsat" and verdict in ("refuted-certified", "refuted-oracles"):
                    ctx.violation("wrong-unsat:%s" % tag,
                                  "%s script with %s, %s: answered unsat; the assertions accepted and active there are satisfiable (%s)"
                                  % (logic, cls, where, "model validated by the Coq-extracted evaluator" if verdict == "refuted-certified" else "z3 and cvc5 both sat; ORACLE-ONLY"),
                                  dict(script="\n".join(cmds) + "\n", check_index=j + 1, answers=answers, active_assertions=[sx_str(a) for a in A], model=detail, stdout=out))
        info["verdicts"].append(verdict)
        kind = "%s:%s:%s:%s%s" % ("twin" if is_twin else "oof", tag, "multi" if len(cis) > 1 else "single",
                                  "error" if ans.startswith("(error") else (ans if ans in ANS else "no-answer"), (":" + str(verdict)) if verdict else "")
        ctx.case(key=(text, j), nontrivial=True, kind=kind)
    info["verdict"] = info["verdicts"][-1] if info["verdicts"] else None
    return info


def run(ctx):
    exe, log = vlib.build_extracted("tsolver")
    if not exe:
        ctx.tie_broken("extraction-tsolver", log)
        return
    h, hlog = vlib.compile_harness("h_tsolver", flags=("-DNDEBUG",))
    if not h:
        ctx.tie_broken("harness-h_tsolver", hlog)
        return
    t0 = time.time()
    strict = parse_tie(ctx, h, exe, 3000 if ctx.quick else 60000)
    ctx.note('parse tie: %.1f s' % (time.time() - t0))

    # ---- scripts: corpus (the hand-seen defect first), then generated
    items = []
    for p in sorted(glob.glob(os.path.join(vlib.VERIF, "corpus", "C29", "*.smt2"))):
        cmds = [sx_str(c) for c in smtlib.read_all(open(p).read())]
        logic = [c for c in cmds if c.startswith("(set-logic")][0][11:-1]
        m = re.search(r"cls=(\S+)", open(p).read())
        items.append(dict(cmds=cmds, logic=logic, cls=m.group(1) if m else "corpus", twin={"QF_IDL": "QF_LIA", "QF_RDL": "QF_LRA"}.get(logic),
                          family="corpus", oracle_logic="ALL", text=og.with_marks(cmds)))
    n = 140 if ctx.quick else 5000
    for i in range(n):
        r = random.Random(ctx.seed * 7919 + i * 13 + 29)
        items.append(og.gen(r))
    jobs = []
    for d in items:
        jobs.append((d, d["cmds"], d["text"], d["logic"]))
        if d.get("twin"):
            tc, tt = og.twin_text(d)
            jobs.append((d, tc, tt, d["twin"]))
    t0 = time.time()
    sc.sem_exe()          # build the verified evaluator once, before the worker threads need it
    ctx.note("evaluator ready: %.1f s" % (time.time() - t0))
    t0 = time.time()
    with cf.ThreadPoolExecutor(max_workers=12) as ex:
        results = list(ex.map(run_script, jobs))
    ctx.note("scripts run and judged: %.1f s for %d runs" % (time.time() - t0, len(jobs)))
    by_item = {}
    for (d, cmds, text, logic_run, rc, out, err, rec, info) in results:
        is_twin = logic_run != d["logic"]
        rec.replay(ctx)
        by_item.setdefault(id(d), {})["twin" if is_twin else "own"] = (info, cmds, out)
    ndiff = 0
    for d in items:
        e = by_item.get(id(d), {})
        if "own" in e and "twin" in e:
            for a, b in zip(e["own"][0].get("answers") or [], e["twin"][0].get("answers") or []):
                if {a, b} == {"sat", "unsat"} and not e["own"][0]["rejected"] and not e["twin"][0]["rejected"]:
                    ndiff += 1
                    if "diff" not in SAMPLES:
                        SAMPLES["diff"] = dict(script="\n".join(d["cmds"]), declared_logic=d["logic"], answers=e["own"][0].get("answers"), embedding_logic=d["twin"],
                                               answers_in_embedding_logic=e["twin"][0].get("answers"), verdict_of_judge=e["own"][0].get("verdicts"))
        if "own" in e and d["family"] != "corpus" and ("s_" + d["family"]) not in SAMPLES:
            SAMPLES["s_" + d["family"]] = dict(script="\n".join(d["cmds"]), cls=d["cls"], status=e["own"][0]["status"], answer=e["own"][0].get("answer"),
                                               errors=[x[1] for x in e["own"][0].get("errors", [])][:3], verdict=e["own"][0].get("verdict"))
    ctx.note("scripts whose answer differs from the answer of the same script under the embedding logic (both definitive): %d" % ndiff)
    if strict is not None:
        ctx.extra["parser_variant"] = "strict" if strict else "release"
    ctx.samples = [SAMPLES[k] for k in sorted(SAMPLES)][:6]
