"""C28 — equal terms share one identity and subterms come first."""
import glob
import os
import re

import vlib

META = dict(
    title="Equal terms share one identity and subterms come first",
    category="proof",
    technique="Coq proof (store invariant over all operation sequences, selection-sort normalisation) + trace refinement: "
              "random construction sequences run through the Logic API are replayed operation by operation on the extracted "
              "model, and the dumped term store is re-checked by the extracted checker",
    level_text="Properties_C28.v: for every sequence of declarations and constructions (no bound) the three lookup tables are "
               "exactly the inverse of the node list, the same (symbol, arguments) always returns the same identity, different "
               "identities unfold to different trees, arguments are older than their parent; argument order of commutative "
               "symbols is irrelevant when termSort's comparison is total (Logic; ArithLogic with the tie-break of fix c8000f0) and "
               "provably NOT for LessThan_deepPTRef without it (refuted theorem, history); the check selects the variant by observed "
               "behaviour and a recurrence of the old one is a violation. Tie: every run replays "
               "PRNG construction sequences (raw mkFun level and simplifying constructors, QF_UF / QF_UFLIA / QF_UFLRA / QF_LIA / QF_LRA) on the "
               "extracted model with exact identity comparison and checks the final store dump.",
    level_note="Trusted: Coq kernel, extraction, ocaml/hashcons_driver.ml (trace parsing, int<->nat), harness/h_hashcons.cc (exposes the "
               "protected Logic::mkFun through a derived class; reports symbol flags as the implementation answers them). Modelled "
               "rather than verified: the C++ of Logic::mkFun/mkDistinct/SymStore::newSymb/PtStore, minisat sort for > 15 elements "
               "(quicksort: only exercised, for the total comparison any correct sort gives the same result). Simplifying constructors "
               "(mkAnd, mkPlus, ...) are not modelled: only their effect on the store is checked (dump reachable + structural).",
    design_ref="DESIGN.md §7 C28, design/C28.md",
    trusted_base=["Coq 8.16.1 kernel", "extraction: Require Import ExtrOcamlBasic ExtrOcamlString; no Extract Constant / Extract Inductive of our own",
                  "ocaml/hashcons_driver.ml (trace parser, replay loop)", "harness/h_hashcons.cc linked against the working-tree libopensmt.a",
                  "lib/vlib.py + this file: sequence generator, independent re-check of the dump"],
    assumptions=["PTRef order equals id order (checked on every dump: ORDER line)",
                 "API precondition: argument PTRefs passed to constructors are valid terms of the same Logic object, well-sorted"],
    rule="PRNG construction sequences (<= 60 operations) over a bounded signature (f/1 g/2 h/3 p/2 c/2-commutative, =, distinct, ite, and, or, "
         "not, Bool-=; in arithmetic modes + * = <= uf/1 distinct cn/2-commutative), <= 4 variables per sort, depth <= 4, with verbatim repeats "
         "and argument permutations of earlier constructions; eight modes (raw mkFun level x QF_UF, QF_UFLIA, QF_UFLRA; simplifying constructors x those and QF_LIA, QF_LRA); "
         "one sequence in five per mode first uses up the 32 distinction classes of mkDistinct and goes on; after every sequence the harness "
         "re-issues all its calls (nothing may be allocated); a sequence is non-trivial when it has >= 10 executed operations and at least one repeat or permutation; distinct = "
         "distinct sequence text",
)

# signature index -> (argument sorts or (sort, lo, hi) for variadic, result sort, normalising-commutative at mkFun level)
SIG_UF = {
    0: (["U"], "U", False), 1: (["U", "U"], "U", False), 2: (["U", "U", "U"], "U", False), 3: (["U", "U"], "B", False),
    4: (("U", 2, 3), "B", True), 5: (("B", 2, 4), "B", False), 6: (("B", 2, 4), "B", False), 7: (["B"], "B", False),
    8: (["B", "B"], "B", False), 9: (["B", "U", "U"], "U", False), 10: (("U", 2, 4), "B", True), 11: (["U", "U"], "U", True),
}
SIG_AR = dict(SIG_UF)
SIG_AR.update({
    12: (("N", 2, 5), "N", True), 13: (["N", "N"], "N", True), 14: (["N", "N"], "B", True), 15: (["N", "N"], "B", False),
    16: (["N"], "N", False), 17: (("N", 2, 4), "B", True), 18: (["N", "N"], "N", True),
})
MODES = ["raw_uf", "raw_lia", "raw_lra", "simp_uf", "simp_lia", "simp_lra", "simp_qlia", "simp_qlra"]   # q: QF_LIA / QF_LRA (no UF)


class Gen:
    """One construction sequence; tracks sort and depth of every result so that all calls are well-sorted."""

    def __init__(self, rng, mode, nops):
        self.rng, self.mode, self.nops = rng, mode, nops
        self.raw = mode.startswith("raw")
        self.arith = not mode.endswith("_uf")
        self.sig = SIG_AR if self.arith else SIG_UF
        self.ops = []        # text
        self.sort = []       # result sort or None
        self.depth = []
        self.repeats = 0

    def pool(self, so, maxd=3):
        return [i for i, s in enumerate(self.sort) if s == so and self.depth[i] <= maxd]

    def push(self, text, so, d):
        self.ops.append(text)
        self.sort.append(so)
        self.depth.append(d)

    def var(self, so=None):
        r = self.rng
        sorts = ["U", "B"] + (["N", "N"] if self.arith else [])
        so = so or r.choice(sorts)
        k = r.random()
        if so == "N" and k < 0.35:
            v = r.choice(["0", "1", "2", "3", "-1", "-2", "7", "10"])
            self.push(("Q %s" % v) if r.random() < 0.6 else ("K N %s" % v), "N", 0)
        elif so == "U" and k < 0.2:
            self.push("K U c%d" % r.randrange(3), "U", 0)
        else:
            self.push("V %s %d" % (so, r.randrange(4)), so, 0)

    def pick_args(self, spec):
        r = self.rng
        if isinstance(spec, tuple):
            so, lo, hi = spec
            n = r.randint(lo, hi)
            if self.mode == "raw_uf" and so == "U" and r.random() < 0.03:
                n = r.randint(16, 20)          # beyond 15 elements sort() switches to quicksort
            sorts = [so] * n
        else:
            sorts = spec
        args = []
        for so in sorts:
            p = self.pool(so)
            if not p:
                return None
            args.append(r.choice(p))
        return args

    def app(self):
        r = self.rng
        if self.raw:
            if r.random() < 0.08:
                so = r.choice(["U", "N"] if self.arith else ["U"])
                args = self.pick_args((so, 3, 4))
                if args is None:
                    return False
                self.push("D " + " ".join(map(str, args)), "B", 1 + max(self.depth[a] for a in args))
                return True
            j = r.choice(sorted(self.sig))
            spec, rs, _ = self.sig[j]
            args = self.pick_args(spec)
            if args is None:
                return False
            self.push("F %d %s" % (j, " ".join(map(str, args))), rs, 1 + max(self.depth[a] for a in args))
            return True
        kinds = ["A", "O", "!", "E", "X", "I", "T", "U", "D"] + (["P", "P", "M", "M", "L", "G", "E"] if self.arith else [])
        k = r.choice(kinds)
        if k in ("A", "O"):
            spec, rs = ("B", 2, 4), "B"
        elif k == "!":
            spec, rs = ["B"], "B"
        elif k in ("X", "I"):
            spec, rs = ["B", "B"], "B"
        elif k == "E":
            so = r.choice(["U", "B"] + (["N", "N"] if self.arith else []))
            spec, rs = [so, so], "B"
        elif k == "T":
            so = r.choice(["U"] + (["N"] if self.arith else []))
            spec, rs = ["B", so, so], so
        elif k == "U":
            j = r.choice([0, 1, 2, 3, 11] + ([16, 18] if self.arith else []))
            spec, rs, _ = self.sig[j]
            args = self.pick_args(spec)
            if args is None:
                return False
            self.push("U %d %s" % (j, " ".join(map(str, args))), rs, 1 + max(self.depth[a] for a in args))
            return True
        elif k == "D":
            so = r.choice(["U"] + (["N"] if self.arith else []))
            spec, rs = (so, 2, 4), "B"
        elif k == "P":
            spec, rs = ("N", 2, 4), "N"
        elif k == "M":
            spec, rs = ["N", "N"], "N"
        elif k == "L":
            spec, rs = ["N", "N"], "B"
        else:
            spec, rs = ["N"], "N"
        args = self.pick_args(spec)
        if args is None:
            return False
        self.push("%s %s" % (k, " ".join(map(str, args))), rs, 1 + max(self.depth[a] for a in args))
        return True

    def again(self, permute):
        r = self.rng
        cands = [i for i, t in enumerate(self.ops) if t[0] not in "VKQ"]
        if not cands:
            return False
        i = r.choice(cands)
        toks = self.ops[i].split()
        head = 2 if toks[0] in ("F", "U") else 1
        args = toks[head:]
        if permute:
            if len(args) < 2:
                return False
            r.shuffle(args)
        self.push(" ".join(toks[:head] + args), self.sort[i], self.depth[i])
        self.repeats += 1
        return True

    def make_exhaust(self):
        """More n-ary (n > 2) distinct argument sets than there are distinction classes (8*sizeof(dist_t) = 32), then
        further mkDistinct calls on new and on old sets, repeated and permuted: the constructor's own hash-consing path
        with the per-Logic resource used up."""
        import itertools
        r = self.rng
        so = "N" if (self.arith and r.random() < 0.5) else "U"
        for k in range(4):
            self.push("V %s %d" % (so, k), so, 0)
        un, bi = (16, 18) if so == "N" else (0, 11 if r.random() < 0.5 else 1)
        app = "F" if self.raw else "U"
        self.push("%s %d 0" % (app, un), so, 1)
        self.push("%s %d 1" % (app, un), so, 1)
        self.push("%s %d 0 1" % (app, bi), so, 1)
        self.push("%s %d 2 3" % (app, bi), so, 1)
        base = list(range(8))
        sets = [list(c) for c in itertools.combinations(base, 3)]
        r.shuffle(sets)
        first = sets[:r.randint(33, 37)]
        later = sets[len(first):len(first) + 3] + [list(c) for c in r.sample(list(itertools.combinations(base, 4)), 2)]
        for a in first:
            r.shuffle(a)
            self.push("D " + " ".join(map(str, a)), "B", 2)
        tail = []
        for a in later:
            for _ in range(r.randint(2, 3)):
                b = list(a)
                r.shuffle(b)
                tail.append(b)
        for a in r.sample(first, 3):
            b = list(a)
            r.shuffle(b)
            tail.append(b)
        r.shuffle(tail)
        for a in tail:
            self.push("D " + " ".join(map(str, a)), "B", 2)
            self.repeats += 1
        return self.mode + " " + ";".join(self.ops)

    def make(self):
        r = self.rng
        for so in ["U", "U", "B", "B"] + (["N", "N", "N"] if self.arith else []):
            self.var(so)
        guard = 0
        while len(self.ops) < self.nops and guard < 10 * self.nops:
            guard += 1
            x = r.random()
            if x < 0.12:
                self.var()
            elif x < 0.27:
                self.again(False)
            elif x < 0.45:
                self.again(True)
            else:
                self.app()
        return self.mode + " " + ";".join(self.ops)


def parse_blocks(text):
    """harness output -> list of dicts(mode, ops=[(kind, sym, args, res)], fsyms={id:(flags,name)}, fnodes=[(id,sym,args)], ...)"""
    blocks, cur, phase = [], None, 0
    for l in text.split("\n"):
        t = l.split()
        if not t:
            continue
        if t[0] == "BEGIN":
            cur = dict(mode=t[1], ops=[], isyms={}, fsyms={}, inodes=[], fnodes=[], order=True, crash=None, consts=None, sig=[], reissue="ok")
            phase = 0
        elif cur is None:
            if t[0] == "CRASH":
                cur = dict(mode="?", ops=[], isyms={}, fsyms={}, inodes=[], fnodes=[], order=True, crash=" ".join(t[1:]), consts=None, sig=[])
            continue
        elif t[0] == "CONST":
            cur["consts"] = (int(t[1]), int(t[2]))
        elif t[0] == "SIG":
            cur["sig"] = [int(x) for x in t[1:]]
        elif t[0] == "SYM":
            d = cur["isyms"] if phase == 0 else cur["fsyms"]
            d[int(t[1])] = (tuple(t[2:8]), " ".join(t[9:]))
        elif t[0] == "NODE":
            (cur["inodes"] if phase == 0 else cur["fnodes"]).append((int(t[1]), int(t[2]), tuple(int(x) for x in t[3:])))
        elif t[0] == "ORDER":
            if t[1] != "ok":
                cur["order"] = False
        elif t[0] == "REISSUE":
            cur["reissue"] = " ".join(t[1:])
        elif t[0] == "OPS":
            phase = 1
        elif t[0] == "FINAL":
            phase = 2
        elif t[0] == "CRASH":
            cur["crash"] = " ".join(t[1:])
        elif t[0] == "OP":
            k = t.index("->")
            lhs, rhs = t[1:k], t[k + 1:]
            res = rhs[0]
            if lhs[0] == "V":
                cur["ops"].append(("V", -1, (" ".join(lhs[9:]), lhs[8]), res))      # keyed by (name, signature code)
            elif lhs[0] in ("F", "U", "D"):
                cur["ops"].append((lhs[0], int(lhs[1]), tuple(int(x) for x in lhs[2:]), res))
            elif lhs[0] == "skip":
                cur["ops"].append(("skip", -1, (), res))
            else:
                cur["ops"].append((lhs[0], -1, tuple(int(x) for x in lhs[1:]), res))
        elif t[0] == "END":
            blocks.append(cur)
            cur = None
    return blocks


NORMALISING_SIMP = {"A", "O", "X", "D", "P", "M"}     # E: see below (Bool equality is not order-normalised by design)


def judge_block(b):
    """Property-level judgement of one trace, independent of the model.
    Returns list of (kind, detail) with kind in dup-key, arg-not-older, same-call-two-ids, permuted-two-ids; and notes."""
    out, notes = [], {}
    if b["crash"]:
        return [("crash", b["crash"])], notes
    seen = {}
    for (i, s, a) in b["fnodes"]:
        if (s, a) in seen:
            out.append(("dup-key", "ids %d and %d are both (%s %s)" % (seen[(s, a)], i, b["fsyms"].get(s, ("", "?"))[1], " ".join(map(str, a)))))
        seen[(s, a)] = i
        for x in a:
            if x >= i:
                out.append(("arg-not-older", "term %d has argument %d" % (i, x)))
    ids = [i for i, _, _ in b["fnodes"]]
    if ids != list(range(len(ids))) or not b["order"]:
        out.append(("ids-not-monotone", "ids %s..." % ids[:8]))
    if b.get("reissue", "ok") != "ok":
        # whole-store audit of the harness: every constructor call of the sequence issued a second time
        out.append(("rebuild-allocates", b["reissue"]))
    exact, perm, spell = {}, {}, {}
    for (k, s, a, res) in b["ops"]:
        if k == "skip" or res == "exc":
            continue
        if k == "V" and re.match(r"^-?\d+$", a[0]):
            # stated gap: integer constants built from a string are keyed by the spelling (design/C28.md)
            val = (int(a[0]), a[1])
            if val in spell and spell[val][0] != a[0] and spell[val][1] != res:
                notes["numeric-constant-spellings-two-ids (e.g. %s / %s)" % (spell[val][0], a[0])] = 1
            spell.setdefault(val, (a[0], res))
        key = (k, s, a)
        if key in exact and exact[key] != res:
            out.append(("same-call-two-ids", "%s %s(%s) gave %s then %s" % (k, b["fsyms"].get(s, ("", ""))[1], " ".join(map(str, a)), exact[key], res)))
        exact.setdefault(key, res)
        norm = False
        name = k
        if k in ("F", "U", "D"):
            fl, name = b["fsyms"].get(s, (("0",) * 6, "?"))
            norm = fl[1] == "1" and fl[2] == "0"          # commutes and not in the Boolean-operator table
            if k == "D":
                norm = True
        elif k in NORMALISING_SIMP:
            norm = True
        elif k == "E":
            # Logic::mkBinaryEq: Bool-sorted equality goes to the Boolean-operator table unsorted (not normalised);
            # other sorts go through mkFun with a commutative symbol
            boolish = any(_is_bool_term(b, x) for x in a)
            if boolish:
                pk = ("E", tuple(sorted(a)))
                if pk in perm and perm[pk][0] != res:
                    notes["bool-eq-order-sensitive"] = notes.get("bool-eq-order-sensitive", 0) + 1
                perm.setdefault(pk, (res, a))
                continue
            norm = True
        if norm:
            pk = (k, s, tuple(sorted(a)))
            if pk in perm and perm[pk][0] != res:
                out.append(("permuted-two-ids", "%s|%s(%s) gave %s, with arguments (%s) gave %s" % (
                    k, name, " ".join(map(str, perm[pk][1])), perm[pk][0], " ".join(map(str, a)), res)))
            perm.setdefault(pk, (res, a))
    return out, notes


def _is_bool_term(b, tid):
    """Bool-sortedness of a term id, from the dump: the symbol's signature code equals that of 'true' (nullary Bool)
    or the symbol is a predicate; decided here by name/flags of well-known Bool-valued symbols plus nullary b*/true/false."""
    for (i, s, a) in b["fnodes"]:
        if i == tid:
            fl, name = b["fsyms"].get(s, (("0",) * 6, "?"))
            if name in ("true", "false", "and", "or", "not", "xor", "=>", "=", "distinct", "p", "<=", "<", ">=", ">"):
                return True
            if name == "ite":
                return _is_bool_term(b, a[1])
            return len(a) == 0 and re.match(r"^b\d+$", name) is not None
    return False


def run(ctx):
    exe, log = vlib.build_extracted("hashcons")
    if not exe:
        ctx.tie_broken("extraction-hashcons", log)
        return
    h, hlog = vlib.compile_harness("h_hashcons")
    if not h:
        ctx.tie_broken("harness-h_hashcons", hlog)
        return
    seqs = []
    for p in sorted(glob.glob(os.path.join(vlib.VERIF, "corpus", "C28", "*.txt"))):
        for l in open(p):
            l = l.strip()
            if l and not l.startswith("#"):
                seqs.append((l, "corpus", 1))
    n = 2000 if ctx.quick else 40000
    for i in range(n):
        mode = MODES[i % len(MODES)]
        g = Gen(ctx.rng, mode, ctx.rng.randint(12, 60))
        if i % 40 >= 32:           # 8 of every 40 sequences (one per mode) exhaust the distinction classes
            seqs.append((g.make_exhaust(), "exhaust", g.repeats))
        else:
            seqs.append((g.make(), "rng", g.repeats))
    arith_variants = set()
    notes = {}
    for lo in range(0, len(seqs), 2000):          # batches keep the trace text small
        part = seqs[lo:lo + 2000]
        inp = "".join(s[0] + "\n" for s in part)
        rc, out = vlib.sh([h], input=inp, timeout=3000)
        if rc != 0:
            ctx.tie_broken("harness-run", "rc=%s tail=%s" % (rc, out[-400:]))
            return
        blocks = parse_blocks(out)
        rc2, mout = vlib.sh([exe], input=out, timeout=3000)
        verd = [l.split() for l in mout.split("\n") if l.startswith("SEQ ")]
        if rc2 != 0 or len(blocks) != len(part) or len(verd) != len(part):
            ctx.tie_broken("replay-run", "model rc=%s; %d sequences, %d traces, %d verdicts; %s" % (rc2, len(part), len(blocks), len(verd), mout[-300:]))
            return
        _judge_all(ctx, part, blocks, verd, arith_variants, notes)
    _summarise(ctx, arith_variants, notes)


def _judge_all(ctx, seqs, blocks, verd, arith_variants, notes):
    nviol = 0
    for (text, origin, nrep), b, v in zip(seqs, blocks, verd):
        vd = dict(x.split("=", 1) for x in v[3:])
        mode = b["mode"]
        nexec = sum(1 for o in b["ops"] if o[0] != "skip")
        ctx.case(key=text, nontrivial=(nexec >= 10 and nrep >= 1) or origin == "corpus", kind=mode + ("/" + origin if origin != "rng" else ""),
                 sample=dict(sequence=text[:300], terms=len(b["fnodes"]), verdict=" ".join(v[3:])))
        # --- tie: which model variant reproduces the implementation exactly
        explained = None
        if mode.endswith("_uf"):
            if vd.get("core") != "ok":
                ctx.tie_broken("replay:" + mode, "model(SortCore) and implementation disagree: %s" % vd.get("core"), dict(sequence=text))
        else:
            ok = [m for m in ("deep", "deeptie") if vd.get(m) == "ok"]
            if not ok:
                ctx.tie_broken("replay:" + mode, "neither ArithLogic comparison of the model reproduces the trace: deep=%s deeptie=%s" % (
                    vd.get("deep"), vd.get("deeptie")), dict(sequence=text))
            elif len(ok) == 1:
                arith_variants.add(ok[0])
                explained = ok[0]
        # --- the property itself, judged on the trace
        js, nts = judge_block(b)
        for k2, c in nts.items():
            notes[k2] = notes.get(k2, 0) + c
        for kind, detail in js:
            nviol += 1
            if kind == "permuted-two-ids":
                sym = detail.split("|", 1)[1].split("(", 1)[0]
                sym = {"A": "mkAnd", "O": "mkOr", "X": "mkXor", "E": "mkEq", "P": "mkPlus", "M": "mkTimes"}.get(sym, sym)
                sig = "commutative-args-two-ids:%s:%s" % ("termsort-deep-tie" if explained == "deep" else "unexplained", sym)
            else:
                sig = "%s:%s" % (kind, mode)
            ctx.violation(sig, "%s in mode %s: %s" % (kind, mode, detail),
                          dict(sequence=text, how="echo '<sequence>' | build/harness/h_hashcons   (OP lines: '-> id' is Pterm::getId of the result)",
                               detail=detail, model_verdict=" ".join(v[3:])))
    ctx.extra["property_level_alarms_incl_known"] = ctx.extra.get("property_level_alarms_incl_known", 0) + nviol


def _summarise(ctx, arith_variants, notes):
    if len(arith_variants) > 1:
        ctx.tie_broken("arith-comparison-variant", "some traces are reproduced only by LessThan_deepPTRef as in the source, others only by the tie-broken comparison")
    elif arith_variants:
        var = arith_variants.pop()
        ctx.note("ArithLogic::termSort behaves as model variant %s (%s)" % (
            "SortDeep" if var == "deep" else "SortDeepTie",
            "pinned source: theorem commutative_order_insensitive_deep_refuted applies" if var == "deep" else "repaired: commutative_order_insensitive applies"))
    else:
        ctx.note("no trace distinguished SortDeep from SortDeepTie")
    for k2, c in sorted(notes.items()):
        ctx.note("%s: %d observations (stated gap, not a violation: see design/C28.md)" % (k2, c))
