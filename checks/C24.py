"""C24 — solver instances in different threads do not interfere (partial)."""
import os
import shutil
import sys

import vlib
import conclib

sys.path.insert(0, os.path.join(vlib.VERIF, "translate"))
import pool_sync  # noqa: E402

META = dict(
    title="Solver instances in different threads do not interfere",
    category="proof",
    technique="Coq proof of the pool discipline under interleaving semantics (all programs, all schedules) + translator "
              "regenerating the synchronisation parameter from FastRational.{h,cc} + sequential correspondence of the "
              "extracted model with the real pool class + ThreadSanitizer / multi-thread runs of the implementation",
    level_text="PARTIAL. Proved: for the one process-wide structure every arithmetic instance touches (FastRational::pool), "
               "with a critical section around alloc/release the invariant (no undefined stack operation, free list "
               "duplicate-free, free and live cells disjoint, one owner per live cell) holds for all thread programs and all "
               "schedules; without it an explicit 2-thread schedule gives one cell two owners. Which of the two applies is "
               "regenerated from the source on every run (c24_pool_discipline is stated over that constant). Not proved: real "
               "interleavings, the C++ memory model, races in state outside the model - these are runtime behaviour a Gallina "
               "model cannot exhibit; they are searched with ThreadSanitizer and concurrent runs compared with solo runs.",
    level_note="Which branch of c24_pool_discipline is the proved one follows the source: with the mutex in alloc/release (/repo bb7baf6) the "
               "translator gives locked = true and the theorem is the safety statement for all programs and schedules; on the tree before "
               "that commit it was the refutation and the check reported the ThreadSanitizer race as a finding (known_findings/C24.json, now "
               "`fixed`, as are Enode::cgid_ctr 2b5a804 and the LASolver cut counter c55bb6a). Trusted: Coq kernel, vm_compute for the "
               "witness schedule, extraction, ocaml/conc_driver.ml, translate/pool_sync.py (pattern recognition of the two method bodies), "
               "harness/h_threads.cc, ThreadSanitizer, z3 (oracle, notes only). The micro-steps are modelled as atomic "
               "(under-approximation of unlocked C++; irrelevant under a lock).",
    design_ref="DESIGN.md §7 C24, design/C24.md",
    trusted_base=["Coq 8.16.1 kernel; vm_compute in pool_race_unlocked / examples",
                  "extraction: Require Import ExtrOcamlBasic ExtrOcamlString; no Extract Constant / Extract Inductive of our own",
                  "ocaml/conc_driver.ml (text <-> nat/op conversion)", "translate/pool_sync.py -> coq/Conc/Gen_PoolSync.v",
                  "harness/h_threads.cc (private pool reached through an explicit template instantiation)",
                  "g++ -fsanitize=thread (ThreadSanitizer) as race detector", "z3 as untrusted oracle (notes only)"],
    assumptions=["the GMP functions themselves are thread-safe on distinct mpq_t objects (GMP documentation)",
                 "a critical section in the C++ source is a std scope guard on one mutex at the start of both method bodies "
                 "(what the translator recognises); a thread_local pool is treated as confinement of each pool instance to one thread "
                 "(the life time of a thread's store at thread exit is outside the model)"],
    rule="(a) op sequences: PRNG alloc/release strings of length 5..60 run on a fresh instance of the real pool class and on the "
         "extracted model, non-trivial when a released cell is allocated again; (b) model schedules: PRNG programs for 2..4 threads "
         "and PRNG schedules, evaluated by the extracted model with the regenerated `locked`; (c) stress: 2..8 threads of big-number "
         "FastRational arithmetic under ThreadSanitizer and natively, checksums compared with solo runs; (d) instances: PRNG "
         "QF_LRA/QF_LIA problems with coefficients beyond 2^32 and QF_UF problems, 2..8 solver instances in threads, statuses "
         "compared with the solo run of the same process and models re-evaluated; distinct = distinct text",
)

_tr = {}


def prepare(ctx):
    r = pool_sync.regenerate(vlib.REPO)
    _tr.update(r)
    if not r["ok"]:
        ctx.tie_broken("pool-sync-translator", "translate/pool_sync.py does not recognise FastRational's pool any more: " + r["detail"])


def gen_ops(rng):
    n = rng.randint(5, 60)
    ops, owned = [], 0
    for _ in range(n):
        if owned and rng.random() < 0.45:
            ops.append("R%d" % rng.randrange(owned + (1 if rng.random() < 0.05 else 0)))   # now and then an index out of range
            owned -= 1 if int(ops[-1][1:]) < owned else 0
        else:
            ops.append("A")
            owned += 1
    return ops


def seq_judgement(ops, impl):
    """property-level: does the real pool hand out a cell that is still owned?"""
    owned, toks = [], impl.split()
    if len(toks) != len(ops):
        return "output length"
    for o, t in zip(ops, toks):
        if o == "A":
            if t in owned:
                return "cell %s handed out while still owned" % t
            owned.insert(0, t)
        else:
            i = int(o[1:])
            if i < len(owned):
                owned.pop(i)
    return None


def _lap(ctx, label):
    import time
    now = time.time()
    ctx.extra.setdefault("stage_seconds", {})[label] = round(now - getattr(ctx, "_lap", ctx.t0), 1)
    ctx._lap = now


def replay(ctx):
    """bin/check C24 --replay <violation json>: re-run the saved command (stress / solve) and report again"""
    import json
    import shlex
    v = json.load(open(ctx.replay_path))
    rp = v.get("replay") or {}
    cmd = shlex.split(str(rp.get("cmd", "")))
    if "ops" in rp:
        h, hlog = vlib.compile_harness("h_threads")
        rc, out = vlib.sh([h, "poolseq"], input=rp["ops"] + "\n", timeout=60)
        why = seq_judgement(rp["ops"].split(), out.strip())
        ctx.case(key="replay:" + rp["ops"], nontrivial=True, kind="replay", sample=dict(ops=rp["ops"], impl=out.strip()))
        if why:
            ctx.violation(v["signature"], "replay reproduces: " + why, rp)
        return True
    if len(cmd) < 2 or cmd[1] not in ("stress", "solve"):
        ctx.note("replay: nothing to re-run in %s" % ctx.replay_path)
        return False
    tsan = "tsan" in os.path.basename(cmd[0])
    if tsan:
        exe, log = conclib.build_tsan_small("h_threads_tsan", os.path.join(vlib.VERIF, "harness", "h_threads.cc"), ["src/common/numbers/FastRational.cc"])
    else:
        exe, log = vlib.compile_harness("h_threads")
    if not exe:
        ctx.tie_broken("harness-h_threads", log)
        return True
    args = []
    for a in cmd[1:]:
        args += sorted(__import__("glob").glob(a)) if "*" in a else [a]
    env = dict(os.environ)
    if tsan:
        env.update(conclib.TSAN_ENV)
    rc, out = vlib.sh([exe] + args, env=env, timeout=600)
    reps = conclib.tsan_reports(out) if tsan else []
    ctx.case(key="replay:" + " ".join(cmd), nontrivial=True, kind="replay", sample=dict(cmd=" ".join(cmd), rc=rc, reports=len(reps)))
    bad = bool(reps) or (rc != 0) or ("MISMATCH" in out)
    if bad:
        ctx.violation(v["signature"], "replay reproduces: rc=%s, %d ThreadSanitizer reports, %s" % (rc, len(reps), out.strip()[-200:]), rp)
    else:
        ctx.note("replay does not reproduce (rc=0): schedules differ from run to run")
    return True


def run(ctx):
    if getattr(ctx, "replay_path", None) and replay(ctx):
        return
    _lap(ctx, "coq+build")
    # locked: True / False as read off the source; None when the translator did not recognise the code
    # (tie already reported broken in prepare; the implementation is still searched for a failing run)
    locked = _tr["locked"] if _tr.get("ok") else None
    psig = "pool-unsynchronised" if locked is False else ("pool-race-despite-sync" if locked else "pool-race-sync-not-recognised")
    ctx.note("translator: locked=%s discipline=%s (%s); anchors %s" % (locked, _tr.get("discipline"), _tr.get("detail"), _tr.get("anchors")))
    # every other mutable object with static storage duration must be one of the reviewed ones (Conc/Pool.v)
    import re as _re
    pv = open(os.path.join(vlib.COQ, "Conc", "Pool.v")).read()
    m = _re.search(r"Definition reviewed_shared_state[^\[]*\[(.*?)\]\.", pv, _re.S)
    reviewed = set(_re.findall(r'"([^"]+)"', m.group(1))) if m else set()
    found = set(_tr.get("shared_state", []))
    new, gone = sorted(found - reviewed), sorted(reviewed - found)
    ctx.note("shared mutable state with static storage duration in src/: %d objects, %d reviewed" % (len(found), len(reviewed)))
    if new:
        ctx.tie_broken("unreviewed-shared-state", "mutable static / namespace-scope objects not in Conc/Pool.v reviewed_shared_state "
                       "(instances of different threads may share them): %s" % ", ".join(new))
    if gone:
        ctx.tie_broken("reviewed-shared-state-stale", "reviewed objects no longer found in the source (update the review): %s" % ", ".join(gone))
    exe, log = vlib.build_extracted("conc")
    if not exe:
        ctx.tie_broken("extraction-conc", log)
        return
    h, hlog = vlib.compile_harness("h_threads")
    if not h:
        ctx.tie_broken("harness-h_threads", hlog)
        return
    rc, out = vlib.sh(exe, input="consts\n", timeout=60)
    if locked is not None and ("locked=%s" % ("true" if locked else "false")) not in out:
        ctx.tie_broken("gen-poolsync-stale", "extracted constant says %r, translator says locked=%s" % (out.strip(), locked))
        return

    # ---- (a) sequential correspondence: real pool class vs extracted model ----------------------------
    nseq = 3000 if ctx.quick else 40000
    seqs = [["A", "A", "R0", "A", "R1", "R0", "A", "A", "A"], ["A", "R0", "A"], ["R0", "A"]] + [gen_ops(ctx.rng) for _ in range(nseq)]
    rc1, om = vlib.sh(exe, input="".join("seq %s\n" % " ".join(s) for s in seqs), timeout=900)
    rc2, oi = vlib.sh([h, "poolseq"], input="".join(" ".join(s) + "\n" for s in seqs), timeout=900)
    lm, li = om.split("\n"), oi.split("\n")
    if rc1 != 0 or rc2 != 0 or len(lm) < len(seqs) or len(li) < len(seqs):
        ctx.tie_broken("pool-seq-run", "model rc=%s impl rc=%s lines %d/%d/%d: %s" % (rc1, rc2, len(lm), len(li), len(seqs), oi[-300:]))
    else:
        for s, m, i in zip(seqs, lm, li):
            txt = " ".join(s)
            reuse = any(a[0] == "R" and "A" in s[k + 1:] for k, a in enumerate(s))
            ctx.case(key="seq:" + txt, nontrivial=reuse, kind="pool-op-sequence", sample=dict(ops=txt, model=m, impl=i))
            if m.strip() != i.strip():
                ctx.tie_broken("pool-seq-correspondence", "ops=%s model=%s impl=%s" % (txt, m, i), dict(ops=txt))
                why = seq_judgement(s, i)
                if why:
                    ctx.violation("pool-seq:double-alloc", "single-threaded pool: %s (ops %s -> %s)" % (why, txt, i),
                                  dict(ops=txt, impl=i, how="echo '%s' | build/harness/h_threads poolseq" % txt))

    _lap(ctx, "a-sequences")
    # ---- (b) the model under PRNG schedules, with the regenerated parameter -----------------------------
    nsch = (400 if ctx.quick else 5000) if locked is not None else 0
    reqs = []
    for _ in range(nsch):
        k = ctx.rng.randint(2, 4)
        progs = []
        for _t in range(k):
            progs.append(",".join(o for o in gen_ops(ctx.rng)[:ctx.rng.randint(2, 8)]))
        sched = [str(ctx.rng.randrange(k)) for _ in range(ctx.rng.randint(10, 120))]
        reqs.append("sched %s | %s" % (";".join(progs), " ".join(sched)))
    rc, out = vlib.sh(exe, input="\n".join(reqs) + "\n", timeout=900)
    lines = out.strip().split("\n")
    nbad = 0
    if not reqs:
        pass
    elif rc != 0 or len(lines) != len(reqs):
        ctx.tie_broken("pool-model-schedules", "rc=%s lines=%d/%d %s" % (rc, len(lines), len(reqs), out[-300:]))
    else:
        for q, l in zip(reqs, lines):
            bad = l.startswith("bad=true")
            nbad += bad
            ctx.case(key=q, nontrivial=True, kind="model-schedule:" + ("bad" if bad else "ok"),
                     sample=dict(request=q, model=l) if bad or ctx.evaluations % 97 == 0 else None)
            if bad and locked:
                ctx.tie_broken("pool-model-vs-theorem", "extracted model reaches a bad state under a lock (contradicts pool_safe_locked): %s -> %s" % (q, l))
        ctx.note("model, locked=%s: %d of %d PRNG schedules reach a state violating Inv" % (locked, nbad, len(reqs)))

    _lap(ctx, "b-model-schedules")
    # ---- (c) stress of the implementation: ThreadSanitizer, then native ---------------------------------
    ts, tlog = conclib.build_tsan_small("h_threads_tsan", os.path.join(vlib.VERIF, "harness", "h_threads.cc"),
                                        ["src/common/numbers/FastRational.cc"])
    pool_race, others = None, []
    if not ts:
        ctx.tie_broken("tsan-build-h_threads", tlog)
    else:
        env = dict(os.environ)
        env.update(conclib.TSAN_ENV)
        for T in ([2, 4] if ctx.quick else [2, 3, 4, 8]):
            seed = ctx.rng.randrange(1 << 30)
            cmd = [ts, "stress", str(T), "40" if ctx.quick else "200", str(seed)]
            rc, out = vlib.sh(cmd, env=env, timeout=200)
            reps = conclib.tsan_reports(out)
            ctx.case(key="tsan-stress:%d:%d" % (T, seed), nontrivial=True, kind="tsan-stress:%d-threads" % T,
                     sample=dict(cmd=" ".join(cmd[1:]), reports=len(reps), rc=rc))
            others += [(cmd, rp) for rp in reps if not rp["on_pool"]]
            for rp in reps:
                if rp["on_pool"]:
                    pool_race = pool_race or (cmd, rp)
            if rc not in (0, 66) and not reps:
                ctx.violation(psig + ":stress-crash",
                              "big-number stress under TSan died rc=%s: %s" % (rc, out[-300:]), dict(cmd=" ".join(cmd), out=out[-1500:]))
        for cmd, rp in others:
            if pool_race and locked is False and rp["in_fastrational"]:
                # two threads inside the GMP cell of one FastRational: the "two owners" state itself
                sig = psig + ":tsan-cell-shared"
            else:
                sig = "race:" + (rp["frames"][0].split(" ")[0] if rp["frames"] else rp["location"] or rp["kind"])
            ctx.violation(sig, "ThreadSanitizer: %s at %s" % (rp["kind"], "; ".join(rp["frames"]) or rp["location"]),
                          dict(cmd=" ".join(cmd), report=rp["text"]))
        if pool_race:
            cmd, rp = pool_race
            if locked:
                ctx.tie_broken("pool-sync-translator-vs-tsan", "translator says the pool is synchronised, ThreadSanitizer reports a race on it: " + "; ".join(rp["frames"]))
            ctx.violation(psig + ":tsan",
                          "ThreadSanitizer: %s on %s (%s) - the concrete form of the schedule of pool_race_unlocked" % (
                              rp["kind"], rp["location"] or "FastRational::pool", "; ".join(rp["frames"])),
                          dict(cmd=" ".join(cmd), env=conclib.TSAN_ENV, report=rp["text"],
                               how="build/harness/h_threads_tsan stress 2 40 1  (g++ -fsanitize=thread h_threads.cc FastRational.cc -DH_NO_SOLVER)"))
        elif locked is False:
            ctx.note("locked=false but ThreadSanitizer reported no race on the pool in this run")

    for T in ([4] if ctx.quick else [2, 4, 8]):
        seed = ctx.rng.randrange(1 << 30)
        cmd = [h, "stress", str(T), "3000" if ctx.quick else "20000", str(seed)]
        rc, out = vlib.sh(cmd, timeout=150)
        okline = "stress ok" in out
        ctx.case(key="stress:%d:%d" % (T, seed), nontrivial=True, kind="native-stress:%d-threads" % T,
                 sample=dict(cmd=" ".join(cmd[1:]), rc=rc, out=out.strip()[-160:]))
        if not okline:
            what = "mismatch" if "MISMATCH" in out else "crash"
            ctx.violation(psig + ":stress-" + what,
                          "%d threads of big-number FastRational arithmetic: %s (rc=%s) %s" % (T, what, rc, out.strip()[-200:]),
                          dict(cmd=" ".join(cmd), rc=rc, out=out[-1500:]))

    _lap(ctx, "c-stress")
    # ---- (d) solver instances in threads vs solo -----------------------------------------------------------
    gens = dict(arith=lambda: conclib.arith_big(ctx.rng, ctx.rng.choice(["QF_LRA", "QF_LRA", "QF_LIA"])),
                uf=lambda: conclib.uf_random(ctx.rng), liacuts=lambda: conclib.lia_cuts(ctx.rng),
                # branch-and-bound with many rounds on ~2^40 coefficients (cuts from proofs every 10th round)
                liabb=lambda: conclib.lia_bb(ctx.rng),
                # top-level x = const equalities: the arithmetic substitution pass
                subst=lambda: conclib.subst_const(ctx.rng, ctx.rng.choice(["QF_LIA", "QF_LRA"])))
    want = dict(arith=10, uf=6, liacuts=4, liabb=16, subst=8) if ctx.quick else dict(arith=60, uf=30, liacuts=24, liabb=48, subst=32)
    groups = {g: [] for g in gens}
    for g in gens:
        tries = 0
        while len(groups[g]) < want[g] and tries < 4 * want[g]:
            tries += 1
            t = gens[g]()
            rc, o, e = vlib.run_opensmt(t + "(check-sat)\n", timeout=3)
            if rc == 0 and o.strip() in ("sat", "unsat"):
                groups[g].append((t, o.strip()))
    for gname, insts in groups.items():
        if not insts:
            ctx.tie_broken("instances-" + gname, "no instance solved by the working-tree binary within 3 s")
            continue
        d, paths = conclib.write_instances("C24" + gname, [t for t, _ in insts])
        try:
            rc0, out0 = vlib.sh([h, "solve", "1", "0"] + paths, timeout=600)
            solo = [l.split() for l in out0.split("\n") if l.startswith("inst ")]
            if rc0 != 0 or len(solo) != len(insts):
                ctx.tie_broken("solo-run-" + gname, "rc=%s %s" % (rc0, out0[-400:]))
                continue
            for (t, bin_ans), s in zip(insts, solo):
                if s[2] != "solo=" + bin_ans:
                    ctx.tie_broken("solo-vs-binary", "harness solo %s, opensmt binary %s on\n%s" % (s[2], bin_ans, t))
            disagree = 0
            for t, ans in (insts if ctx.quick else insts[:40]):
                z = conclib.oracle(t, timeout=10)
                if z in ("sat", "unsat") and z != ans:
                    disagree += 1
                    ctx.note("z3 says %s, OpenSMT solo says %s (C01/C02 business, not C24): %s" % (z, ans, t[:200].replace("\n", " ")))
            for T in (([8] if gname in ("liabb", "subst") else [4]) if ctx.quick else [2, 4, 8]):
                rounds = (3 if gname == "liabb" else 2) if ctx.quick else 4
                cmd = [h, "solve", str(T), str(rounds)] + paths
                rc, out = vlib.sh(cmd, timeout=90)       # a corrupted heap can also hang: a timeout (rc -9) counts as a crash
                lines = [l.split() for l in out.split("\n") if l.startswith("inst ")]
                crashed = rc != 0 or len(lines) != len(insts)
                # every arithmetic instance touches the pool: FastRational(const char*) takes a cell for each parsed numeral
                sig_pref = "pool-unsynchronised:" if (gname in ("arith", "liacuts", "liabb", "subst") and locked is False) else "concurrent-solve:%s:" % gname
                if crashed:
                    for t, _ in insts:
                        ctx.case(key="%s:%d:%s" % (gname, T, t), nontrivial=True, kind="threads-%s:%d:crashed-run" % (gname, T))
                    keep = os.path.join(os.environ.get("VERIF_REPLAY_DIR", os.path.join(vlib.VERIF, "replays")), "C24", "crash_%s_%d" % (gname, T))
                    shutil.rmtree(keep, ignore_errors=True)
                    shutil.copytree(d, keep)
                    ctx.violation(sig_pref + "solve-crash",
                                  "%d solver instances in threads (%s instances, each with its own Logic/MainSolver) died: rc=%s %s; "
                                  "the same instances solved one after the other in the same process are fine" % (T, gname, rc, out.strip()[-200:]),
                                  dict(cmd="build/harness/h_threads solve %d %d %s/*.smt2" % (T, rounds, keep), rc=rc, out=out[-1500:]))
                    continue
                for (t, ans), s, c in zip(insts, solo, lines):
                    conc = c[3][len("conc="):].split(",")
                    ok = all(x == ans for x in conc) and c[4] != "model=bad"
                    ctx.case(key="%s:%d:%s" % (gname, T, t), nontrivial=True, kind="threads-%s:%d:%s" % (gname, T, ans),
                             sample=dict(threads=T, instance=t[:300], solo=ans, concurrent=c[3], model=c[4]))
                    if not ok:
                        p = vlib.write_replay("C24", "diverge_%s_%d.smt2" % (gname, T), t)
                        ctx.violation(sig_pref + "solve-diverge",
                                      "instance answers %s alone but %s (%s) when %d instances run in threads" % (ans, c[3], c[4], T),
                                      dict(instance=p, threads=T, solo=ans, concurrent=c[3], model=c[4]))
            if disagree:
                ctx.count("oracle-disagreements", disagree)
        finally:
            shutil.rmtree(d, ignore_errors=True)

    _lap(ctx, "d-solver-threads")
    # ---- thorough: the whole library under ThreadSanitizer -------------------------------------------------
    if not ctx.quick:
        lib, llog = conclib.build_tsan_lib()
        if not lib:
            ctx.tie_broken("tsan-library-build", llog)
            return
        hx, hl = conclib.compile_tsan_harness("h_threads", lib)
        if not hx:
            ctx.tie_broken("tsan-harness-build", hl)
            return
        env = dict(os.environ)
        env.update(conclib.TSAN_ENV)
        for gname, insts in groups.items():
            d, paths = conclib.write_instances("C24t" + gname, [t for t, _ in insts[:24]])
            try:
                cmd = [hx, "solve", "4", "1"] + paths
                rc, out = vlib.sh(cmd, env=env, timeout=400)
                reps = conclib.tsan_reports(out)
                seen = set()
                pool_seen = any(rp["on_pool"] for rp in reps)
                for rp in reps:
                    if rp["on_pool"]:
                        sig = psig + ":tsan-solver"
                    elif pool_seen and locked is False and rp["in_fastrational"]:
                        # two threads inside one FastRational's GMP cell: the "two owners" state itself
                        sig = "pool-unsynchronised:tsan-cell-shared"
                    else:
                        sig = "race:" + (rp["frames"][0].split(" ")[0] if rp["frames"] else (rp["location"] or rp["kind"]))
                    if sig in seen:
                        continue
                    seen.add(sig)
                    ctx.violation(sig, "ThreadSanitizer (whole library, 4 %s instances in threads): %s at %s" % (
                        gname, rp["kind"], "; ".join(rp["frames"]) or rp["location"]), dict(cmd="h_threads_tsanlib solve 4 1 <%s instances>" % gname, report=rp["text"]))
                ctx.case(key="tsanlib:%s" % gname, nontrivial=True, kind="tsan-library:%s" % gname,
                         sample=dict(group=gname, reports=len(reps), distinct=sorted(seen), rc=rc))
            finally:
                shutil.rmtree(d, ignore_errors=True)
        _lap(ctx, "tsan-library")
