"""C11 — every theory clause used in search is valid in the theory."""
import vlib
import thtrace as T
import thcheck as TC
import scriptgen_th as SG

META = dict(
    title="Every theory clause used in search is valid in the theory",
    category="proof",
    technique="Coq-verified theory-lemma checkers (Farkas/LIA tightening, mixed LA clauses with equalities, congruence "
              "closure) + every theory clause of traced runs replayed through the extracted checker of its theory",
    level_text="PARTIAL. Proved for all inputs: soundness of the checkers (farkas_check_sound, lra_clause_check_sound, "
               "lia_check_sound, mixed_clause_check_sound, cc_sound, euf_clause_check_sound, array_schema_sound, array_case_split_sound), validity of branch/cut split "
               "clauses (branch_clause_valid) and of the three interface clauses of addInterfaceClausesForEquality "
               "(interface_eq_clauses_valid), and (C26) that the simplex row explanation always passes the Farkas checker. "
               "Per run: every (t ...) event (conflict, reason, split) of generated scripts in 13 logics x 8 engine "
               "configurations is decided by the extracted checker of its theory; certificates come from the (la) hook or "
               "from an untrusted exact LP.",
    level_note="Partial: the Egraph explanation algorithm, the STP (difference logic) cycle search and the array solver are not "
               "modelled — their clauses are only checked per run. Array clauses go through congruence closure + read-over-write + case analysis on index pairs "
               "(verified); the residue (extensionality lemmas) is ORACLE-ONLY: z3 and cvc5 (untrusted), counted as unverified-array-lemma. Combination: a clause is accepted if it is valid in LA "
               "(uninterpreted terms abstracted to variables) or in EUF (arithmetic operators read as uninterpreted); "
               "Boolean atoms are read two-valued. Root-level deductions are checked through the reason clause the hook requests for them.",
    design_ref="DESIGN.md §7 C11, §4.3, design/C11.md",
    trusted_base=["Coq 8.16.1 kernel", "extraction: ExtrOcamlBasic, ExtrOcamlString only",
                  "ocaml/th_driver.ml + ocaml/bits.ml", "lib/thtrace.py, lib/thcheck.py: parsing of printed literals, "
                  "abstraction of non-arithmetic subterms to variables, term DAG construction, two-valued reading of Boolean atoms",
                  "hook H2 (THandler.cc) prints every theory clause handed to the SAT solver",
                  "z3 / cvc5 only to search for a counter-model of a rejected clause and to decide non-EUF array lemmas (labelled)"],
    assumptions=["Logic::termToSMT2String prints the atom the solver holds (C17)"],
    rule="scripts from lib/scriptgen_th.py over QF_LRA QF_LIA QF_UF QF_UFLRA QF_UFLIA QF_RDL QF_IDL QF_AX QF_ALIA QF_ALRA "
         "QF_AUFLIA QF_UFIDL QF_UFRDL x engines default/lookahead/picky/ghost/proofs/itp/nosimp/incr; a case = one distinct theory "
         "clause of one run; non-trivial = at least 2 literals; distinct = (logic, kind, clause text)",
)

ARRAY_LOGICS = ("QF_AX", "QF_ALIA", "QF_ALRA", "QF_AUFLIA")
LOGIC_CYCLE = ["QF_LRA", "QF_LIA", "QF_UF", "QF_UFLRA", "QF_UF", "QF_RDL", "QF_IDL", "QF_UF", "QF_UFLIA", "QF_LRA", "QF_LIA",
               "QF_AX", "QF_UF", "QF_ALIA", "QF_IDL", "QF_RDL", "QF_ALRA", "QF_UFIDL", "QF_UF", "QF_UFRDL", "QF_AX", "QF_LIA",
               "QF_LRA", "QF_UF", "QF_AUFLIA", "QF_AX", "QF_ALIA", "QF_AX"]
INCOMPLETE_RATE = 0.01


def _consts(t):
    cv = T.const_value(t)
    if cv is not None:
        yield cv
    elif not isinstance(t, str):
        for x in t:
            yield from _consts(x)


def plan(s, ev, env, isint):
    """-> list of (label, query line) to try in order"""
    lits = [T.split_literal(t) for t in ev.terms]
    evvars = dict(ev.vars)
    out = []
    if ev.la is not None:
        a = sorted((T.show(at), pol) for at, pol, _ in ev.la.la)
        b = sorted((T.show(at), not pol) for at, pol in lits)
        if a == b:
            ql = TC.encode_la_clause_with_coeffs(isint, ev)
            if ql:
                out.append(("la-coeff", ql))
    all_leq = all(TC.leq_atom(a) is not None for a, _ in lits)
    arith = SG.has_arith(s["logic"])

    def mixed():
        try:
            ql = TC.encode_mixed(isint, lits, env, evvars)
            if ql:
                out.append(("la-lp" if all_leq else "la-mixed", ql))
        except (TC.Unsupported, T.ParseError):
            pass

    def euf():
        try:
            out.append(("euf", TC.encode_euf(lits)))
            if SG.has_arrays(s["logic"]):
                out.append(("array-row", TC.encode_euf(lits, arrays=True)))
                out.append(("array-row-split", TC.encode_euf(lits, arrays=True, splits=7)))
        except (TC.Unsupported, T.ParseError):
            pass
    if arith and all_leq:
        if not out:
            mixed()
        euf()
    elif arith and any(TC.leq_atom(a) is not None for a, _ in lits):
        mixed()
        euf()
    else:
        euf()
        if arith:
            mixed()
    return out


def run(ctx):
    drv = TC.get_driver(ctx)
    if drv is None:
        return
    n = 336 if ctx.quick else 1800
    cap = 250 if ctx.quick else 1500
    scripts = TC.corpus_scripts("C11")
    for i in range(n):
        logic = LOGIC_CYCLE[i % len(LOGIC_CYCLE)]
        engine = SG.ENGINES[(i // len(LOGIC_CYCLE) + i) % len(SG.ENGINES)]
        scripts.append(SG.gen(ctx.rng, logic, engine))
    TC.run_scripts(scripts, timeout=2 if ctx.quick else 8)
    items = []          # dict(s, ev, plans, stage)
    total_events = 0
    for s in scripts:
        isint = SG.is_int_logic(s["logic"])
        ctx.count("script:%s:%s" % (s["logic"], s["engine"]))
        if s["rc"] == -9:
            ctx.count("script-timeout")
        try:
            evs = T.read_trace(s["trace"], want=("t",), max_t=cap)
        except T.ParseError as e:
            ctx.tie_broken("trace-unreadable", "%s" % e, dict(script=s["text"]))
            continue
        env = None
        seen = set()
        for ev in evs:
            if ev.kind != "t":
                continue
            total_events += 1
            key = (ev.tkind, tuple(sorted(T.show(t) for t in ev.terms)))
            if key in seen:
                ctx.count("duplicate-clause-in-run")
                continue
            seen.add(key)
            if env is None:
                env = TC.SortEnv(s["text"])
            try:
                pl = plan(s, ev, env, isint)
            except Exception as e:
                pl = []
                ctx.note("plan failed: %s on %s" % (e, ev.raw[:200]))
            items.append(dict(s=s, ev=ev, plans=pl, stage=0, ok=None, key=key))
    # staged batches: first plan of every clause, then the next plan of the rejected ones
    stage = 0
    while True:
        todo = [it for it in items if it["ok"] is None and stage < len(it["plans"])]
        if not todo:
            break
        try:
            answers = drv.batch([it["plans"][stage][1] for it in todo])
        except RuntimeError as e:
            ctx.tie_broken("th-driver", str(e))
            return
        for it, ans in zip(todo, answers):
            if ans == "1":
                it["ok"] = it["plans"][stage][0]
            elif ans != "0":
                ctx.note("driver: %s on %s" % (ans[:60], it["plans"][stage][1][:120]))
        stage += 1
    rejected = []
    for it in items:
        s, ev = it["s"], it["ev"]
        label = it["ok"] or "rejected"
        ctx.case(key=(s["logic"],) + it["key"], nontrivial=len(ev.terms) >= 2,
                 sample=dict(logic=s["logic"], engine=s["engine"], kind=ev.tkind, clause=T.show(ev.terms)[:400], checker=label),
                 kind="clause:%s:%s:%s" % (s["logic"], ev.tkind, label))
        if it["ok"] is None:
            rejected.append(it)
    ctx.extra["theory_clauses_seen"] = total_events
    ctx.extra["distinct_clauses_checked"] = len(items)
    # rejected clauses: search for a counter-model with the reference solvers
    budget = 80 if ctx.quick else 600
    incomplete = 0
    array_unverified = 0
    rejected.sort(key=lambda it: it["s"]["logic"] in ARRAY_LOGICS)      # non-array clauses first
    for it in rejected[:budget]:
        s, ev = it["s"], it["ev"]
        verdict, detail = TC.oracle_negation(s["text"], ev)
        if verdict == "sat":
            big = any(abs(v.numerator) > 2**53 for t in ev.terms for v in _consts(t))
            conf = TC.confirm_la_model(ev, detail["model"])
            detail["model_confirmed_by_exact_evaluation"] = conf
            if conf is False:
                ctx.count("oracle-model-not-confirmed")
                incomplete += 1
                continue
            new = ctx.violation("theory-clause-not-valid:%s:%s%s" % (s["logic"], ev.tkind, ":const>2^53" if big else ""),
                                "theory clause (%s) that is not valid in the theory: its negation has a model (%s)" % (ev.tkind, detail["solver"]),
                                dict(script=s["text"], engine=s["engine"], logic=s["logic"], clause=T.show(ev.terms), event=ev.raw,
                                     negation_query=detail["query"], model=detail["model"], model_confirmed_by_exact_evaluation=conf,
                                     how="OPENSMT_VERIF_TRACE=t build/impl/opensmt script.smt2; the (t ...) line of t; z3/cvc5 on negation_query"))
            if new:
                ctx.tie_broken("theory-clause-rejected", "no verified checker accepts %s" % ev.raw[:300], dict(script=s["text"], event=ev.raw))
            else:
                ctx.count("known-finding-clause")
        elif verdict == "unsat" and s["logic"] in ARRAY_LOGICS:
            array_unverified += 1
            ctx.count("unverified-array-lemma")
        else:
            incomplete += 1
            ctx.count("checker-incomplete:%s:%s" % (s["logic"], verdict))
            if len([n_ for n_ in ctx.notes if n_.startswith("incomplete")]) < 5:
                ctx.note("incomplete (%s): %s" % (verdict, ev.raw[:300]))
    if len(rejected) > budget:
        ctx.tie_broken("too-many-rejected", "%d clauses rejected by the verified checkers (oracle budget %d)" % (len(rejected), budget))
    nonarray = sum(1 for it in items if it["s"]["logic"] not in ARRAY_LOGICS)
    ctx.extra["checker_incomplete"] = incomplete
    ctx.extra["unverified_array_lemmas"] = array_unverified
    ctx.note("%d theory-clause events, %d distinct per run checked; rejected by the verified checkers: %d "
             "(array lemmas valid per z3/cvc5: %d, incomplete: %d)" % (total_events, len(items), len(rejected), array_unverified, incomplete))
    if nonarray and incomplete > INCOMPLETE_RATE * nonarray:
        ctx.tie_broken("checker-incomplete-rate", "%d of %d non-array clauses could not be decided by the verified checkers" % (incomplete, nonarray))
    if len(items) < (2000 if ctx.quick else 20000):
        ctx.tie_broken("too-few-clauses", "only %d theory clauses" % len(items))
