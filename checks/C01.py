"""C01 — an unsat answer is never given for a satisfiable assertion set."""
import answercheck

META = dict(
    title="An unsat answer is never given for a satisfiable assertion set",
    category="proof",
    technique="Coq-verified model evaluator certifying counterexamples to unsat answers + clause-level soundness theorems (RUP, Farkas, CC) on the solver's trace; untrusted z3/cvc5 only propose models",
    level_text="PARTIAL. Proved for all inputs (Properties_C01.v): a model accepted by the verified evaluator witnesses satisfiability, so an `unsat` "
               "answer for such a set is wrong (this makes every reported violation machine-checked). Per run: every `unsat` answer of the "
               "working-tree binary on generated scripts (all model-supporting logics, incremental histories, 2-3 option vectors each incl. "
               "lookahead/picky/ghost engines, proof/core/interpolant tracking) is challenged: z3 proposes a model, the extracted evaluator confirms it. "
               "That the search engine itself is sound for all inputs is NOT proved here; its steps are validated per run by C12 (learnt clauses RUP), "
               "C11/C26 (theory clauses valid) on the hooked trace.",
    level_note="Trusted: Coq kernel, coq/Sem semantics, extraction, lib/smtlib.py elaborator. z3/cvc5 untrusted (they only propose models; an "
               "oracle-only disagreement is labelled ORACLE-ONLY in the replay). Array logics: no evaluator support -> oracle agreement only.",
    design_ref="DESIGN.md §7 C01",
    trusted_base=["Coq 8.16.1 kernel", "coq/Sem/Eval.v (SMT-LIB semantics)", "extraction ExtrOcamlBasic/ExtrOcamlString", "lib/smtlib.py, lib/solvercheck.py, lib/answercheck.py",
                  "z3 4.8.12 / cvc5 1.0.3 are NOT trusted: proposals only"],
    assumptions=["generated scripts are well-sorted SMT-LIB (by construction of lib/scriptgen.py)"],
    rule="lib/scriptgen.py scripts (<= 7 assertions of depth <= 3, or push/pop histories of <= 16 steps) under the default and two PRNG-chosen option "
         "vectors of answercheck.CONFIGS; case = one check-sat answer; non-trivial = non-empty active assertion set; distinct = (script, config, check index)",
)


def run(ctx):
    answercheck.run_corpus(ctx, "C01", judge_sat=False, judge_unsat=True)
    answercheck.sweep(ctx, "C01", 110 if ctx.quick else 2500, 3, judge_sat=False, judge_unsat=True,
                      gen_kwargs=dict(p_incremental=0.4, p_big=0.15, nassert=None, depth=None), all_configs=not ctx.quick and False)
