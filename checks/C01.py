"""C01 — an unsat answer is never given for a satisfiable assertion set."""
import answercheck

META = dict(
    title="An unsat answer is never given for a satisfiable assertion set",
    category="proof",
    technique="Coq-verified model evaluator certifying counterexamples to unsat answers + clause-level soundness theorems (RUP, Farkas, CC) on the solver's trace; untrusted z3/cvc5 only propose models",
    level_text="PARTIAL. Proved for all traces (Properties_C01.v c01_trace_sound): a trace of the abstract CDCL(T) machine whose input clauses follow from the "
               "assertions, whose theory clauses are T-valid and whose learnt/derived/final clauses pass reverse unit propagation refutes the assertions "
               "when it reaches the empty clause under the frame-activation assumptions. Per run the SAT-level hook trace of every unsat answer of the default "
               "engine is replayed by the extracted `replay` (every trace must be accepted). Also proved: a model accepted by the verified evaluator witnesses satisfiability, so an `unsat` "
               "answer for such a set is wrong (this makes every reported violation machine-checked). Per run: every `unsat` answer of the "
               "working-tree binary on generated scripts (all model-supporting logics, incremental histories, 2-3 option vectors each incl. "
               "lookahead/picky/ghost engines, proof/core/interpolant tracking) is challenged: z3 proposes a model, the extracted evaluator confirms it. "
               "That the search engine itself is sound for all inputs is NOT proved here; its steps are validated per run by C12 (learnt clauses RUP), "
               "C11/C26 (theory clauses valid) on the hooked trace.",
    level_note="Trusted: Coq kernel, coq/Sem semantics, extraction, lib/smtlib.py elaborator. z3/cvc5 untrusted (they only propose models; an "
               "oracle-only disagreement is labelled ORACLE-ONLY in the replay). Array logics: no evaluator support -> oracle agreement only.",
    design_ref="DESIGN.md §7 C01",
    trusted_base=["Coq 8.16.1 kernel", "coq/Sem/Eval.v (SMT-LIB semantics)", "extraction ExtrOcamlBasic/ExtrOcamlString", "lib/smtlib.py, lib/solvercheck.py, lib/answercheck.py",
                  "z3 4.8.12 / cvc5 1.0.3 are NOT trusted: proposals only"],
    assumptions=["generated scripts are well-sorted SMT-LIB (by construction of lib/scriptgen.py)"],
    rule="lib/scriptgen.py scripts (<= 7 assertions of depth <= 3, or push/pop histories of <= 16 steps) under the default and two PRNG-chosen option "
         "vectors of answercheck.CONFIGS; case = one check-sat answer; non-trivial = non-empty active assertion set; distinct = (script, config, check index)",
)


def trace_events(path):
    """event string for ocaml/trace_driver.ml from the hooked trace of the first solver instance, with a `q` after every
    unsat answer reached by solving or by clause insertion; returns (string, number of q)"""
    import re
    out, inst, nq = [], None, 0
    for line in open(path, errors="replace"):
        m = re.match(r"\((o|d|l|f|a) (\S+) \(([-0-9 ]*)\)\)", line)
        if m:
            if inst is None:
                inst = m.group(2)
            if m.group(2) != inst:
                continue
            k = {"o": "o", "d": "d", "l": "d", "f": "d", "a": "a"}[m.group(1)]
            out.append("%s:%s" % (k, ",".join(m.group(3).split())))
            continue
        m = re.match(r"\(t (\S+) \w+ \(([-0-9 ]*)\)", line)
        if m:
            if inst is None:
                inst = m.group(1)
            if m.group(1) == inst:
                out.append("t:%s" % ",".join(m.group(2).split()))
            continue
        if line.startswith("(ms ") and "(result unsat)" in line and "(via flag)" not in line:
            fl = re.search(r"\(frame-lits ([-0-9 ]*)\)", line)
            flits = [int(x) for x in (fl.group(1).split() if fl else [])]
            # the answer flags frames k, k+1, ... as unsat: the refutation may use the activation of frames 0..k only
            # (k = reported conflict frame when solving, frame fns-1 when a clause insertion failed)
            cf = re.search(r"\(conflict-frame (\d+)\)", line)
            fns = re.search(r"\(fns (\d+)\)", line)
            k = int(cf.group(1)) if cf else (int(fns.group(1)) - 1 if fns else len(flits))
            lits = [str(-x) for x in flits[:max(k, 0)] if x != 0]
            out.append("a:%s" % ",".join(lits))
            out.append("q")
            nq += 1
    return ";".join(out), nq


def trace_certificates(ctx, n):
    """Positive direction per run: the SAT-level trace of every unsat answer of the default engine is replayed by the
    extracted `replay` (Properties_C01.v c01_trace_sound): learnt / derived / final clauses must be RUP and the empty
    clause must follow by unit propagation from the clauses seen plus the frame-activation assumptions."""
    import os, random
    import concurrent.futures as cf
    import vlib, scriptgen
    exe, log = vlib.build_extracted("trace")
    if not exe:
        ctx.tie_broken("extraction-trace", log)
        return

    def one(i):
        rng = random.Random(ctx.seed * 2750159 + i)
        text, meta = scriptgen.gen_script(rng, incremental=rng.random() < 0.4, queries=(), produce_models=False, nassert=rng.choice([4, 6, 8, 10, 12]))
        tr = os.path.join(vlib.BUILD, "tmp", "c01_%d_%d.trace" % (os.getpid(), i))
        os.makedirs(os.path.dirname(tr), exist_ok=True)
        if os.path.exists(tr):
            os.remove(tr)
        rc, out, err = vlib.run_opensmt(text, timeout=10, env_extra={"OPENSMT_VERIF_TRACE": tr})
        ev, nq = trace_events(tr) if os.path.exists(tr) else ("", 0)
        contract = []
        if os.path.exists(tr):
            import C04
            # answers given through the per-frame unsat flags rest on the reported conflict frame and on the guards
            contract = [("check %d: conflict frame %d but the final conflict uses frame %d" % c) if c[2] != -2 else ("check %d: level-0 conflict reported with conflict frame %d" % c[:2]) for c in C04.engine_contract_violations(tr)] + C04.frame_guard_violations(tr)
            os.remove(tr)
        return text, meta, rc, ev, nq, out.count("unsat"), contract
    with cf.ThreadPoolExecutor(max_workers=12) as ex:
        allres = list(ex.map(one, range(n)))
        for r in allres:
            for c in r[6]:
                ctx.tie_broken("frame-flag-contract", c, dict(script=r[0]))
        res = [r for r in allres if r[2] in (0, 1) and r[4] > 0]
    if not res:
        return
    rc, out = vlib.sh([exe], input="\n".join(r[3] for r in res) + "\n", timeout=900)
    lines = out.split("\n")
    if rc != 0 or len(lines) < len(res):
        ctx.tie_broken("trace-replay-run", out[-300:])
        return
    for (text, meta, rc_, ev, nq, nunsat, contract), l in zip(res, lines):
        toks = l.split()
        ctx.case(key=("trace", text), nontrivial=len(toks) > 1, kind="trace-certificate:%s:%s" % (meta["logic"], "accepted" if "FAIL" not in toks else "rejected"),
                 sample=dict(script=text, events=ev[:300], verdicts=l))
        ctx.count("trace:derived-clauses-and-answers-checked", len(toks))
        if "FAIL" in toks:
            ctx.tie_broken("trace-certificate", "the SAT-level trace of an unsat answer is not accepted by the extracted replay (position %d of %d)" % (toks.index("FAIL"), len(toks)),
                           dict(script=text, events=ev))


def run(ctx):
    answercheck.run_corpus(ctx, "C01", judge_sat=False, judge_unsat=True)
    trace_certificates(ctx, 100 if ctx.quick else 800)
    answercheck.sweep(ctx, "C01", 80 if ctx.quick else 640, 3, judge_sat=False, judge_unsat=True,
                      gen_kwargs=dict(p_incremental=0.4, p_big=0.15, nassert=None, depth=None), all_configs=not ctx.quick and False)
