"""C09 — sequence interpolants satisfy the path-interpolation property."""
import C08 as base

META = dict(
    title="Sequence interpolants satisfy the path-interpolation property",
    category="proof",
    technique="Coq proof of the path property for pairs of labelled interpolation systems on one refutation (all six algorithms) + Farkas two-colouring "
              "contract; per-run decision of every returned sequence by certified satisfiability",
    level_text="PARTIAL. Proved for all inputs (Properties_C09.v): for one refutation, nested A-masks and leaf labellings ordered by b <= ab <= a on the "
               "variables shared under both masks, I1 /\\ (clauses moved into A) |= I2 (path_itp); each of the six labelling functions of the implementation "
               "is monotone in the A-mask — the proof-sensitive ones because computePSFunction's counts are (impl_labellings_monotone) —, the cumulative "
               "masks of a request are nested (cumulative_masks_nested), hence getPathInterpolants' sequence has the path property (path_itps_correct); "
               "Farkas sums satisfy the two-colouring leaf contract (farkas_path). Per run: for every request with k >= 3 groups answered by the "
               "working-tree binary, each I_i is decided as in C08 for its cumulative split and I_i /\\ G_{i+1} /\\ ~I_{i+1} is given to z3 and cvc5; "
               "a model found is confirmed by the Coq-verified evaluator. NOT proved for all inputs: as C08 (EUF interpolator, decomposition search, proof "
               "reduction, frame literals, link to the solver's actual proof DAG).",
    level_note=base.META["level_note"],
    design_ref="DESIGN.md §7 C09 / design/C09.md",
    trusted_base=base.META["trusted_base"],
    assumptions=base.META["assumptions"],
    coq_targets=base.META["coq_targets"],
    rule="as C08 with 3-6 named assertions and every request made of 3-5 groups; case = one interpolant of a sequence (its three Craig conditions and, "
         "from the second on, the path step); corpus/C09 first",
)


def run(ctx):
    base.sweep(ctx, "C09", 45 if ctx.quick else 250, [3, 3, 4, 5], nbool=50 if ctx.quick else 250, ndecomp=130 if ctx.quick else 650)
