"""C27 — integer rounding is exact."""
import vlib
import numgen

META = dict(
    title="Integer rounding is exact for every integer input",
    category="proof",
    technique="Coq proof (Euclidean div/mod, bound tightening, gcd normalisation) + exact correspondence of the extracted model with ArithLogic through a C++ harness",
    level_text="Theorems in Properties_C27.v hold for all integers (unbounded Z, either divisor sign); the Gallina functions "
               "proved correct are extracted and compared exactly with the working tree's ArithLogic::mkIntDiv/mkMod on "
               "boundary-aimed and random operands on every run.",
    level_note="Trusted: Coq kernel, extraction (ExtrOcamlBasic, ExtrOcamlString; Z stays the Coq datatype), ocaml/bits.ml "
               "decimal conversion, harness/h_divmod.cc. Modelled rather than verified: the C++ itself; FastRational "
               "division/floor/ceil are taken as exact here (that is C15).",
    design_ref="DESIGN.md §7 C27, design/C27.md",
    trusted_base=["Coq 8.16.1 kernel", "extraction: Require Import ExtrOcamlBasic ExtrOcamlString; no Extract Constant / Extract Inductive of our own",
                  "ocaml/divmod_driver.ml + ocaml/bits.ml (decimal <-> positive)", "harness/h_divmod.cc linked against the working-tree libopensmt.a"],
    assumptions=["FastRational arithmetic used inside the folding is exact (property C15)"],
    rule="operand pairs (n,d): all pairs from the boundary set {0,±1,±2,±3,2^31±1,2^32±1,2^53±1,2^63±1,2^64±1,10^20,10^40+7,...} "
         "restricted by tier, plus PRNG-derived pairs aimed at those boundaries; a case is non-trivial when d is not in {0,1,-1}; "
         "distinct = distinct (n,d)",
)


def run(ctx):
    exe, log = vlib.build_extracted("divmod")
    if not exe:
        ctx.tie_broken("extraction-divmod", log)
        return
    h, hlog = vlib.compile_harness("h_divmod")
    if not h:
        ctx.tie_broken("harness-h_divmod", hlog)
        return
    B = numgen.boundary_ints()
    cases = []
    if ctx.quick:
        small = [b for b in B if abs(b) <= 2**32 + 1 or abs(b) in (2**63, 2**64, 10**20)]
        cases = [(n, d) for n in small for d in small]
    else:
        cases = [(n, d) for n in B for d in B]
    nrand = 20000 if ctx.quick else 300000
    for _ in range(nrand):
        cases.append((numgen.rand_int(ctx.rng), numgen.rand_int(ctx.rng)))
    inp = "".join("%d %d\n" % c for c in cases)
    rc1, out_m = vlib.sh(exe, input=inp, timeout=1200)
    rc2, out_i = vlib.sh(h, input=inp, timeout=1200)
    lm, li = out_m.split("\n"), out_i.split("\n")
    if rc1 != 0 or rc2 != 0 or len(lm) < len(cases) or len(li) < len(cases):
        ctx.tie_broken("divmod-correspondence-run", "model rc=%s impl rc=%s lines %d/%d/%d" % (rc1, rc2, len(lm), len(li), len(cases)))
        return
    for (n, d), m, i in zip(cases, lm, li):
        ctx.case(key=(n, d), nontrivial=d not in (0, 1, -1), kind="d=0" if d == 0 else ("|d|=1" if abs(d) == 1 else ("d>0" if d > 0 else "d<0")),
                 sample=dict(n=str(n), d=str(d), model=m, impl=i))
        if m != i:
            ctx.tie_broken("divmod-correspondence", "n=%d d=%d model=%s impl=%s" % (n, d, m, i), dict(n=str(n), d=str(d)))
            # property-level judgement: python's exact integers, SMT-LIB Euclidean semantics
            if d != 0:
                r = n % abs(d)
                q = (n - r) // d
                if i != "%d %d" % (q, r):
                    ctx.violation("fold-divmod:%s" % ("d>0" if d > 0 else "d<0"),
                                  "constant folding of (div %d %d)/(mod ...) gives %s, SMT-LIB says %d %d" % (n, d, i, q, r),
                                  dict(n=str(n), d=str(d), impl=i, expected="%d %d" % (q, r), how="harness/h_divmod.cc: echo 'n d' | build/harness/h_divmod"))
            elif i != "exc exc":
                ctx.violation("fold-divmod:d=0", "division by the constant 0 not rejected: %s" % i, dict(n=str(n), d="0", impl=i))
