"""C27 — integer rounding is exact."""
import glob
import math
import os
from fractions import Fraction

import vlib
import numgen

META = dict(
    title="Integer rounding is exact for every integer input",
    category="proof",
    technique="Coq proof (Euclidean div/mod and its elimination definitions, integer bound tightening, lcm/gcd normalisation of "
              "(in)equalities, difference-constraint negation, SafeInt arithmetic, conversion of difference constants) + exact "
              "correspondence of the extracted model with ArithLogic / LASolver / SafeInt / Converter<SafeInt> / DivModRewriter "
              "through C++ harnesses + end-to-end QF_IDL scripts predicted by the model",
    level_text="Theorems in Properties_C27.v hold for all integers / rationals (unbounded Z and Q, either divisor sign, any number "
               "of summands). The Gallina functions they are about are extracted and compared exactly, on every run, with the "
               "working tree: mkIntDiv/mkMod folding, the formula DivModRewriter produces (evaluated), "
               "LASolver::getBoundsValueForIntVar and the bounds LASolver::addBound stores, the atoms ArithLogic::mkLeq/mkEq "
               "build from integer sums, SafeInt +/-, Converter<SafeInt>::negate/getValue, and the answers of the opensmt "
               "binary on two-constraint QF_IDL scripts. The conversion of difference-logic constants through double is "
               "refuted (dl_conv_refuted, dl_conv_unsound_refuted) and reproduced on the implementation as a known finding.",
    level_note="Trusted: Coq kernel, extraction (ExtrOcamlBasic, ExtrOcamlString; Z/positive/Q stay the Coq datatypes), "
               "ocaml/bits.ml decimal conversion and the drivers' parsing/printing, the C++ harnesses (which read private "
               "members of LASolver via '#define private public'). Modelled rather than verified: the C++ itself; FastRational "
               "+,*,/,floor,ceil,gcd,lcm are taken as exact here (that is C15; gcd/lcm are used on non-negative operands only). "
               "The sign choice of normalised equalities depends on term ids and is a parameter of the model (the theorem "
               "covers both values). mpq_get_d is modelled as truncation to 53 bits; conversions outside [-2^63,2^63) are "
               "undefined behaviour in the C++ and not compared.",
    design_ref="DESIGN.md §7 C27, design/C27.md",
    trusted_base=["Coq 8.16.1 kernel", "extraction: Require Import ExtrOcamlBasic ExtrOcamlString; no Extract Constant / Extract Inductive of our own",
                  "ocaml/divmod_driver.ml, ocaml/intarith_driver.ml + ocaml/bits.ml (decimal <-> positive, p/q parsing)",
                  "harness/h_divmod.cc, harness/h_intarith.cc linked against the working-tree libopensmt.a (private members opened by macro)",
                  "python fractions.Fraction for the property-level judgement of a disagreement"],
    assumptions=["FastRational arithmetic used inside these functions is exact (property C15)"],
    rule="div/mod: all pairs from the boundary set {0,±1,±2,±3,2^31±1,2^32±1,2^53±1,2^63±1,2^64±1,10^20,10^40+7,...} restricted by "
         "tier plus PRNG pairs aimed at those boundaries (non-trivial: d not in {0,1,-1}); div/mod definitions: (n,d) so generated "
         "with (q,r) the true pair and perturbations of it; tightening: c = p/q with q in 1..12 or a boundary denominator, p "
         "boundary-aimed, both strictness values, and integer c through declareAtom/initSolver for both orientations; "
         "normalisation: 1..5 summands, coefficients = small or boundary integers times a common factor (so that the gcd step "
         "fires), a quarter with rational coefficients (lcm step), constants integral / fractional / multiples of the factor ± 1; "
         "rewriter cache: 2-6 div/mod applications over two dividends with divisors from {n,-n,m,-m} given to one DivModConfig and to DivModRewriter (sharing pattern of auxiliary pairs compared exactly, rewritten formula evaluated under the Euclidean extension), "
         "QF_LIA scripts with 2-4 applications over one bounded dividend judged by enumeration; "
         "difference logic: SafeInt operands and constants around ±2^31, ±2^53, ±2^62, ±2^63; QF_IDL scripts "
         "x-y<=k1, y-x<=k2 with k1+k2 in {-2..1} around those boundaries. distinct = distinct case line",
)

DENS = list(range(1, 13)) + [2 ** 31 - 1, 2 ** 32 + 1, 10 ** 20 + 39]
PMAX, PMIN = 2 ** 63 - 1, -2 ** 63
SAMPLES = {}


def fstr(q):
    q = Fraction(q)
    return str(q.numerator) if q.denominator == 1 else "%d/%d" % (q.numerator, q.denominator)


def fparse(s):
    return Fraction(s)


def rand_rat(rng):
    d = rng.choice(DENS) if rng.random() < 0.85 else rng.randint(1, 10 ** 6)
    n = numgen.rand_int(rng)
    if rng.random() < 0.3:   # just beside an integer
        n = numgen.rand_int(rng) * d + rng.choice([-1, 0, 1])
    return Fraction(n, d)


def rand_i64(rng):
    k = rng.random()
    b = rng.choice([0, 1, 2 ** 31, 2 ** 32, 2 ** 53, 2 ** 62, 2 ** 63 - 1, 2 ** 63])
    v = b + rng.randint(-3, 3) if k < 0.7 else rng.randint(-2 ** 63, 2 ** 63 - 1)
    v = v if rng.random() < 0.5 else -v
    return max(PMIN, min(PMAX, v))


def gen_sum(rng):
    n = rng.choice([1, 1, 2, 2, 2, 3, 3, 4, 5])
    g = rng.choice([1, 1, 2, 3, 4, 6, 10, 2 ** 31, 2 ** 32 + 1, 10 ** 20])
    cs = []
    for _ in range(n):
        a = rng.choice([1, -1, 2, -2, 3, -3, 5, 7, -9, 12]) if rng.random() < 0.7 else numgen.rand_int(rng)
        if a == 0:
            a = 1
        cs.append(Fraction(a * g))
    if rng.random() < 0.25:
        cs = [a / rng.choice(DENS[:12]) for a in cs]
    k = rng.random()
    if k < 0.35:
        c = Fraction(numgen.rand_int(rng))
    elif k < 0.7:
        c = Fraction(g * rng.randint(-20, 20) + rng.choice([-1, 0, 1]))
    else:
        c = rand_rat(rng)
    return c, cs


def euclid(n, d):
    r = n % abs(d)
    return (n - r) // d, r


def gen_rewrite_case(rng):
    """2..6 applications over dividends x0, x1 with divisors drawn from {n, -n, m, -m}: equal dividend with equal divisor,
    with the opposite divisor, with another divisor, div together with mod."""
    n = rng.choice([2, 3, 4, 5, 7, 10, 2 ** 31, 2 ** 32 + 1, 10 ** 20])
    m = rng.choice([2, 3, 6, 9, 2 ** 31 - 1, 2 ** 53])
    pool = [n, -n, n, -n, m, -m]
    apps = ["%s:%d:%d" % (rng.choice("dm"), rng.choice([0, 0, 0, 1]), rng.choice(pool)) for _ in range(rng.randint(2, 6))]
    xs = [numgen.rand_int(rng) if rng.random() < 0.6 else rng.randint(-40, 40) for _ in range(2)]
    return "Y %s | %d %d" % (" ".join(apps), xs[0], xs[1])


def eval_sum(cs, xs):
    return sum(a * x for a, x in zip(cs, xs))


def find_diff(rng, n, f, g):
    """integer assignment on which the two predicates differ (search only)."""
    for t in range(4000):
        r = rng.choice([2, 5, 50, 10 ** 6, 2 ** 33])
        xs = [rng.randint(-r, r) for _ in range(n)]
        if f(xs) != g(xs):
            return xs
    return None


def run(ctx):
    exe_d, log = vlib.build_extracted("divmod")
    if not exe_d:
        ctx.tie_broken("extraction-divmod", log)
        return
    exe_i, log = vlib.build_extracted("intarith")
    if not exe_i:
        ctx.tie_broken("extraction-intarith", log)
        return
    h_d, hlog = vlib.compile_harness("h_divmod")
    if not h_d:
        ctx.tie_broken("harness-h_divmod", hlog)
        return
    h_i, hlog = vlib.compile_harness("h_intarith")
    if not h_i:
        ctx.tie_broken("harness-h_intarith", hlog)
        return
    rng = ctx.rng
    B = numgen.boundary_ints()

    # ------------------------------------------------------------------ div / mod folding
    if ctx.quick:
        small = [b for b in B if abs(b) <= 2 ** 32 + 1 or abs(b) in (2 ** 63, 2 ** 64, 10 ** 20)]
        cases = [(n, d) for n in small for d in small]
    else:
        cases = [(n, d) for n in B for d in B]
    nrand = 20000 if ctx.quick else 300000
    for _ in range(nrand):
        cases.append((numgen.rand_int(rng), numgen.rand_int(rng)))
    inp = "".join("%d %d\n" % c for c in cases)
    rc1, out_m = vlib.sh(exe_d, input=inp, timeout=1200)
    rc2, out_i = vlib.sh(h_d, input=inp, timeout=1200)
    lm, li = out_m.split("\n"), out_i.split("\n")
    if rc1 != 0 or rc2 != 0 or len(lm) < len(cases) or len(li) < len(cases):
        ctx.tie_broken("divmod-correspondence-run", "model rc=%s impl rc=%s lines %d/%d/%d" % (rc1, rc2, len(lm), len(li), len(cases)))
        return
    for (n, d), m, i in zip(cases, lm, li):
        ctx.case(key=(n, d), nontrivial=d not in (0, 1, -1), kind="fold:d=0" if d == 0 else ("fold:|d|=1" if abs(d) == 1 else ("fold:d>0" if d > 0 else "fold:d<0")))
        if d < -1 and n < 0 and "fold" not in SAMPLES:
            SAMPLES["fold"] = dict(case="div/mod folding", n=str(n), d=str(d), model=m, impl=i)
        if m != i:
            ctx.tie_broken("divmod-correspondence", "n=%d d=%d model=%s impl=%s" % (n, d, m, i), dict(n=str(n), d=str(d)))
            if d != 0:
                r = n % abs(d)
                q = (n - r) // d
                if i != "%d %d" % (q, r):
                    ctx.violation("fold-divmod:%s" % ("d>0" if d > 0 else "d<0"),
                                  "constant folding of (div %d %d)/(mod ...) gives %s, SMT-LIB says %d %d" % (n, d, i, q, r),
                                  dict(n=str(n), d=str(d), impl=i, expected="%d %d" % (q, r), how="echo 'n d' | build/harness/h_divmod"))
            elif i != "exc exc":
                ctx.violation("fold-divmod:d=0", "division by the constant 0 not rejected: %s" % i, dict(n=str(n), d="0", impl=i))

    # ------------------------------------------------------------------ the other functions
    lines = []   # (line, kind, nontrivial)

    def add(line, kind, nontrivial=True):
        lines.append((line, kind, nontrivial))

    for p in sorted(glob.glob(os.path.join(vlib.VERIF, "corpus", "C27", "*.txt"))):
        for l in open(p):
            l = l.strip()
            if l and not l.startswith("#"):
                add(l, "corpus")
    scale = 1 if ctx.quick else 12
    # tightening
    for b in B:
        for q in range(1, 13):
            for dn in (-1, 0, 1):
                for s in (0, 1):
                    if ctx.quick and abs(b) > 2 ** 32 + 1 and abs(b) not in (2 ** 63, 10 ** 20):
                        continue
                    add("T %s %d" % (fstr(Fraction(b * q + dn, q)), s), "tighten:boundary")
    for _ in range(6000 * scale):
        add("T %s %d" % (fstr(rand_rat(rng)), rng.randint(0, 1)), "tighten:random")
    for b in B:
        for dn in (-1, 0, 1):
            for neg in (0, 1):
                add("B %d %d" % (b + dn, neg), "addbound")
    for _ in range(1500 * scale):
        add("B %d %d" % (numgen.rand_int(rng), rng.randint(0, 1)), "addbound")
    # normalisation
    for _ in range(9000 * scale):
        c, cs = gen_sum(rng)
        rat = any(a.denominator != 1 for a in cs)
        add("I %s %s" % (fstr(c), " ".join(fstr(a) for a in cs)), "ineq:rational-coeffs(API only)" if rat else "ineq", len(cs) > 0)
    for _ in range(9000 * scale):
        c, cs = gen_sum(rng)
        rat = any(a.denominator != 1 for a in cs)
        add("E %s %s" % (fstr(c), " ".join(fstr(a) for a in cs)), "eq:rational-coeffs(API only)" if rat else "eq", len(cs) > 0)
    for _ in range(400):
        add("S %s" % fstr(rand_rat(rng) or 1), "single-factor")
    # difference logic
    for b in [0, 1, 2 ** 31, 2 ** 32, 2 ** 53, 2 ** 54, 2 ** 62, 2 ** 63 - 1024, 2 ** 63 - 1, 2 ** 63, 2 ** 64, 10 ** 20, 10 ** 40]:
        for dn in range(-3, 4):
            for sg in (1, -1):
                add("C %d" % (sg * (b + dn)), "dl-conv")
    for _ in range(3000 * scale):
        z = rand_i64(rng) if rng.random() < 0.8 else numgen.rand_int(rng)
        add("C %d" % z, "dl-conv")
    for _ in range(2000 * scale):
        add("N %d" % rand_i64(rng), "dl-negate")
    for _ in range(4000 * scale):
        add("%s %d %d" % (rng.choice("AU"), rand_i64(rng), rand_i64(rng)), "safeint")
    # div/mod elimination definitions
    for _ in range(4000 * scale):
        n, d = numgen.rand_int(rng), numgen.rand_int(rng)
        if d == 0:
            continue
        r = n % abs(d)
        q = (n - r) // d
        k = rng.random()
        if k < 0.45:
            pass
        elif k < 0.6:
            q, r = q + 1, r - d          # still n = d*q + r, r out of range
        elif k < 0.75:
            q, r = q - 1, r + d
        elif k < 0.85:
            r = r + rng.choice([-1, 1])
        elif k < 0.95:
            q = q + rng.choice([-1, 1])
        else:
            q, r = numgen.rand_int(rng), numgen.rand_int(rng)
        add("X %d %d %d %d" % (n, d, q, r), "divmod-def:|d|=1" if abs(d) == 1 else "divmod-def", abs(d) != 1)

    # several div/mod applications handed to one rewriter: the cache of auxiliary variable pairs
    for _ in range(3000 * scale):
        add(gen_rewrite_case(rng), "divmod-rewrite-cache")

    inp = "".join(l + "\n" for l, _, _ in lines)
    rc1, out_m = vlib.sh(exe_i, input=inp, timeout=2400)
    rc2, out_i = vlib.sh(h_i, input=inp, timeout=2400)
    lm, li = out_m.split("\n"), out_i.split("\n")
    if rc1 != 0 or rc2 != 0 or len(lm) < len(lines) or len(li) < len(lines):
        ctx.tie_broken("intarith-correspondence-run", "model rc=%s impl rc=%s lines %d/%d/%d; last impl output: %s" %
                       (rc1, rc2, len(lm), len(li), len(lines), out_i[-300:]))
        return

    # which variant of the constant conversion does the tree have?  dl_conv (through double, refuted) or
    # dl_conv_fixed (exact or rejected: the proposed repair).  Decided on one probe, then every case must
    # agree with the chosen model variant.
    probe = dict(zip([l for l, _, _ in lines], li))
    conv_variant = "fixed" if probe.get("C %d" % (2 ** 53 + 1)) == str(2 ** 53 + 1) else "double"
    ctx.note("constant conversion variant observed on the tree: " + ("dl_conv_fixed (exact or rejected)" if conv_variant == "fixed" else "dl_conv (through double)"))
    clines = [l for l, _, _ in lines if l.startswith("C ")]
    rc3, out_f = vlib.sh(exe_i, input="".join("CF" + l[1:] + "\n" for l in clines), timeout=600)
    conv_fixed_model = dict(zip(clines, out_f.split("\n")))
    if rc3 != 0 or len(out_f.split("\n")) < len(clines):
        ctx.tie_broken("intarith-correspondence-run", "model run for dl_conv_fixed failed rc=%s" % rc3)
        return
    ub_skipped = 0
    for (line, kind, nontriv), m, i in zip(lines, lm, li):
        w = line.split()
        op = w[0]
        if op not in SAMPLES and rng.random() < 0.02:
            SAMPLES[op] = dict(case=line, model=m, impl=i)
        ctx.case(key=line, nontrivial=nontriv, kind=kind)
        if i.startswith("exc"):
            i_cmp = "none"
        else:
            i_cmp = i
        ok = None
        if op == "E":
            alts = [a.strip() for a in m.split(";")]
            if i_cmp in ("false", "true"):
                ok = i_cmp in alts
            else:
                body, _, lead = i_cmp.rpartition(" lead")
                ok = body in alts and lead == "+"
        elif op == "C":
            z = int(w[1])
            mf = conv_fixed_model[line]
            if conv_variant == "fixed":
                ok = i_cmp == mf
            elif m == "none":
                ub_skipped += 1          # undefined behaviour in the C++ (out-of-range double -> ptrdiff_t)
                ok = True
            else:
                ok = i_cmp == m
            if PMIN <= z <= PMAX and i_cmp != str(z):
                ctx.violation("dl-conv:double-rounding" if abs(z) < 2 ** 63 - 512 else "dl-conv:double-out-of-range",
                              "Converter<SafeInt>::getValue(%d) = %s: the constant of an integer difference constraint is changed by the "
                              "conversion through double" % (z, i), dict(z=str(z), impl=i, model=m, how="echo 'C %d' | build/harness/h_intarith" % z))
        elif op == "N" and m == "none":
            ub_skipped += 1
            ok = True
        else:
            ok = (i_cmp == m)
        if ok:
            continue
        ctx.tie_broken("intarith-correspondence:" + op, "%s model=%s impl=%s" % (line, m, i), dict(case=line))
        # ---- property-level judgement of the disagreeing case, by exact arithmetic
        try:
            judge(ctx, rng, w, i_cmp)
        except Exception as e:   # unparsable implementation output: stays a broken tie
            ctx.note("could not judge %s / %s: %s" % (line, i, e))
    ctx.note("cases skipped from comparison because the C++ is undefined there (out-of-range double->int, PTRDIFF_MAX+1): %d" % ub_skipped)

    # ------------------------------------------------------------------ end to end: QF_IDL scripts predicted by the model
    e2e(ctx, rng, exe_i, probe)
    e2e_divmod(ctx, rng)


def judge(ctx, rng, w, i):
    op = w[0]
    how = "echo '%s' | build/harness/h_intarith" % " ".join(w)
    if op == "T":
        c, strict = fparse(w[1]), w[2] == "1"
        ub = (math.ceil(c) - 1) if strict else math.floor(c)     # largest integer v with v < c resp. v <= c
        if i != "%d %d" % (ub, ub + 1):
            ctx.violation("tighten:%s" % ("strict" if strict else "nonstrict"),
                          "getBoundsValueForIntVar(%s, strict=%s) = {%s}; the integers v with v %s c are exactly v <= %d, the others v >= %d"
                          % (w[1], strict, i, "<" if strict else "<=", ub, ub + 1), dict(case=" ".join(w), impl=i, how=how))
    elif op == "B":
        c, neg = int(w[1]), w[2] == "1"
        exp = "UB %d LB %d" % (-c, -c + 1) if neg else "LB %d UB %d" % (c, c - 1)
        if i != exp:
            ctx.violation("addbound:%s" % ("negated" if neg else "plain"), "bounds stored for the atom %d <= %sx are %s, integer semantics gives %s"
                          % (c, "-" if neg else "", i, exp), dict(case=" ".join(w), impl=i, how=how))
    elif op in ("I", "E"):
        c = fparse(w[1])
        cs = [fparse(a) for a in w[2:]]
        n = len(cs)
        orig = (lambda xs: 0 <= eval_sum(cs, xs) + c) if op == "I" else (lambda xs: 0 == eval_sum(cs, xs) + c)
        if i in ("true", "false"):
            norm = lambda xs: i == "true"
        else:
            body = i.rpartition(" lead")[0] if " lead" in i else i
            k, _, rest = body.partition("|")
            k = fparse(k.strip())
            cs2 = [fparse(a) for a in rest.split()]
            norm = (lambda xs: k <= eval_sum(cs2, xs)) if op == "I" else (lambda xs: k == eval_sum(cs2, xs))
        xs = find_diff(rng, n, orig, norm)
        if xs is None and op == "I" and i not in ("true", "false"):
            # aim at the boundary: solve for x0
            for t in range(2000):
                rest = [rng.randint(-50, 50) for _ in range(n - 1)]
                x0 = -(eval_sum(cs[1:], rest) + c) / cs[0]
                for cand in (math.floor(x0), math.ceil(x0), math.floor(x0) - 1, math.ceil(x0) + 1):
                    if orig([cand] + rest) != norm([cand] + rest):
                        xs = [cand] + rest
                        break
                if xs:
                    break
        if xs is not None:
            ctx.violation("gcd-norm:%s" % ("ineq" if op == "I" else "eq"),
                          "0 %s %s + %s is normalised to '%s' which differs at the integer assignment %s" %
                          ("<=" if op == "I" else "=", " + ".join("%s*x%d" % (a, j) for j, a in enumerate(w[2:])), w[1], i, xs),
                          dict(case=" ".join(w), impl=i, assignment=[str(x) for x in xs], how=how))
    elif op == "S":
        a = fparse(w[1])
        if i != str((a > 0) - (a < 0)):
            ctx.violation("gcd-norm:single-factor", "0 <= %s*x becomes 0 <= %s*x" % (w[1], i), dict(case=" ".join(w), impl=i, how=how))
    elif op == "N":
        c = int(w[1])
        if c != PMAX and i != str(-(c + 1)):
            ctx.violation("dl-negate", "negate(%d) = %s but not(x-y <= %d) is y-x <= %d" % (c, i, c, -(c + 1)), dict(case=" ".join(w), impl=i, how=how))
    elif op in ("A", "U"):
        a, b = int(w[1]), int(w[2])
        r = a + b if op == "A" else a - b
        exp = str(r) if PMIN <= r <= PMAX else "none"
        if i != exp:
            ctx.violation("safeint:%s" % ("add" if op == "A" else "sub"), "SafeInt %d %s %d = %s, expected %s" % (a, "+" if op == "A" else "-", b, i, exp),
                          dict(case=" ".join(w), impl=i, how=how))
    elif op == "Y":
        k = w.index("|")
        apps, xs = w[1:k], list(map(int, w[k + 1:]))
        fields = [f.strip() for f in i.split(";")]
        pat = fields[0].split() if fields else []
        # the value each auxiliary pair is forced to by its definitions = Euclidean quotient / remainder of the application
        # that created it (divmod_def_characterise); an application replaced by a variable of another value has lost its meaning
        owner = {}
        bad = None
        for a, pv in zip(apps, pat):
            kind, nidx, d = a.split(":")
            pair = pv[:-1]
            owner.setdefault(pair, (int(nidx), int(d)))
            on, od = owner[pair]
            forced = euclid(xs[on], od)[0 if pv[-1] == "d" else 1]
            own = euclid(xs[int(nidx)], int(d))[0 if kind == "d" else 1]
            if forced != own or pv[-1] != kind:
                bad = (a, pv, forced, own)
                break
        evals = fields[2].split() if len(fields) > 2 else []
        if bad or "0" in evals:
            what = ("the applications %s (x0=%d, x1=%d) are replaced by the variables %s; " % (" ".join(apps), xs[0], xs[1], " ".join(pat)))
            if bad:
                what += "%s is replaced by %s whose definitions force the value %d, but its SMT-LIB value is %d; " % bad
            what += "the rewritten formula evaluates to %s under the Euclidean extension (the only one its definitions allow)" % "/".join(evals)
            ctx.violation("divmod-rewrite:sharing", what, dict(case=" ".join(w), impl=i, how=how))
    elif op == "X":
        n, d, q, r = map(int, w[1:])
        exp = "1" if (n == d * q + r and 0 <= r <= abs(d) - 1) else "0"
        tq_r = n % abs(d)
        tq = (n - tq_r) // d
        if i != exp:
            ctx.violation("divmod-def", "the definitions introduced for (div x %d),(mod x %d) evaluate to %s at x=%d, div=%d, mod=%d; "
                          "SMT-LIB: div=%d mod=%d" % (d, d, i, n, q, r, tq, tq_r), dict(case=" ".join(w), impl=i, how=how))


def lit(k):
    return str(k) if k >= 0 else "(- %d)" % (-k)


def e2e(ctx, rng, exe_i, probe):
    """x - y <= k1  /\\  y - x <= k2  is satisfiable over the integers iff k1 + k2 >= 0."""
    pairs = []
    bases = [0, 7, 2 ** 31, 2 ** 32 + 5, 2 ** 53 - 1, 2 ** 53, 2 ** 53 + 1, 2 ** 54 + 2, 2 ** 60 + 12345, 2 ** 62, 2 ** 62 + 1, 2 ** 63 - 1, 2 ** 63, 2 ** 64 + 3, 10 ** 30]
    for b in bases:
        for s in (-2, -1, 0, 1):
            pairs.append((b, -b + s))
            pairs.append((-b + s, b))
    n_extra = 10 if ctx.quick else 200
    for _ in range(n_extra):
        b = rng.choice([2 ** 53, 2 ** 55, 2 ** 58, 2 ** 61]) + rng.randint(0, 2 ** 20)
        pairs.append((b, -b + rng.choice([-2, -1, 0, 1])))
    # model prediction: conv both constants, add with SafeInt
    q = "".join("C %d\nC %d\n" % p for p in pairs)
    rc, out = vlib.sh(exe_i, input=q, timeout=300)
    conv = out.split("\n")
    wrong = 0
    for idx, (k1, k2) in enumerate(pairs):
        d1, d2 = conv[2 * idx], conv[2 * idx + 1]
        truth = "sat" if k1 + k2 >= 0 else "unsat"
        script = ("(set-logic QF_IDL)\n(declare-fun x () Int)\n(declare-fun y () Int)\n(assert (<= (- x y) %s))\n"
                  "(assert (<= (- y x) %s))\n(check-sat)\n" % (lit(k1), lit(k2)))
        rc, so, se = vlib.run_opensmt(script, timeout=30)
        ans = so.strip().split("\n")[-1] if so.strip() else "(none rc=%s)" % rc
        pred = None
        if d1 != "none" and d2 != "none" and PMIN <= int(d1) + int(d2) <= PMAX:
            pred = "sat" if int(d1) + int(d2) >= 0 else "unsat"
        ctx.case(key="idl %d %d" % (k1, k2), nontrivial=True, kind="e2e-idl",
                 )
        if idx == 20:
            SAMPLES["e2e"] = dict(script=script, answer=ans, truth=truth, model_prediction=pred)
        if ans in ("sat", "unsat") and ans != truth:
            wrong += 1
            ctx.violation("idl-unsound:double-rounding" if max(abs(k1), abs(k2)) < 2 ** 63 - 512 else "idl-unsound:out-of-range",
                          "QF_IDL  x-y <= %d, y-x <= %d  answered %s, is %s (constants pass through double in Converter<SafeInt>::getValue)"
                          % (k1, k2, ans, truth), dict(script=script, answer=ans, expected=truth))
        if pred is not None and ans in ("sat", "unsat") and ans != pred and ans != truth:
            # wrong AND not explained by the model of the conversion: the tie is broken as well
            ctx.tie_broken("e2e-idl-prediction", "k1=%d k2=%d model predicts %s, implementation %s, truth %s" % (k1, k2, pred, ans, truth),
                           dict(script=script))
    ctx.note("end-to-end QF_IDL scripts: %d, answered wrongly: %d" % (len(pairs), wrong))
    ctx.samples = [SAMPLES[k] for k in ("fold", "T", "I", "Y", "X", "e2e", "E", "C", "B") if k in SAMPLES][:6]


def e2e_divmod(ctx, rng):
    """QF_LIA scripts with several div/mod applications over one bounded dividend; the answer is compared with the truth
    obtained by enumerating the dividend under SMT-LIB (Euclidean) semantics."""
    n_scripts = 40 if ctx.quick else 400
    wrong = 0
    for idx in range(n_scripts):
        n = rng.choice([2, 3, 4, 5, 7])
        m = rng.choice([2, 3, 6])
        pool = [n, -n, n, -n, m, -m]
        lo = rng.randint(-30, 20)
        hi = lo + rng.randint(3, 12)
        apps = [(rng.choice(["div", "mod"]), rng.choice(pool)) for _ in range(rng.randint(2, 4))]
        cs = [rng.choice([1, -1, 1, 2]) for _ in apps]

        def val(x):
            return sum(c * euclid(x, d)[0 if k == "div" else 1] for c, (k, d) in zip(cs, apps))
        vals = [val(x) for x in range(lo, hi + 1)]
        kconst = rng.choice(vals) if rng.random() < 0.6 else rng.randint(min(vals) - 1, max(vals) + 1)
        neg = rng.random() < 0.5
        holds = [(v == kconst) != neg for v in vals]
        truth = "sat" if any(holds) else "unsat"
        terms = " ".join("(* %s (%s x %s))" % (lit(c), k, lit(d)) for c, (k, d) in zip(cs, apps))
        atom = "(= (+ %s 0) %s)" % (terms, lit(kconst))
        script = ("(set-logic QF_LIA)\n(declare-fun x () Int)\n(assert (and (<= %s x) (<= x %s)))\n(assert %s)\n(check-sat)\n"
                  % (lit(lo), lit(hi), "(not %s)" % atom if neg else atom))
        rc, so, se = vlib.run_opensmt(script, timeout=60)
        ans = so.strip().split("\n")[-1] if so.strip() else "(none rc=%s)" % rc
        ctx.case(key="divmod-script " + script, nontrivial=True, kind="e2e-divmod")
        if idx == 3:
            SAMPLES["e2e"] = SAMPLES.get("e2e") or dict(script=script, answer=ans, truth=truth)
        if ans in ("sat", "unsat") and ans != truth:
            wrong += 1
            ctx.violation("divmod-rewrite:answer", "QF_LIA script with the applications %s over one dividend in [%d,%d] answered %s, is %s under "
                          "SMT-LIB semantics" % (", ".join("(%s x %d)" % a for a in apps), lo, hi, ans, truth),
                          dict(script=script, answer=ans, expected=truth))
        elif ans not in ("sat", "unsat"):
            ctx.tie_broken("e2e-divmod-run", "no answer: %s %s" % (so[-200:], se[-200:]), dict(script=script))
    ctx.note("end-to-end QF_LIA div/mod scripts: %d, answered wrongly: %d" % (n_scripts, wrong))
