"""C04 — incremental answers equal fresh answers on the active assertions."""
import concurrent.futures as cf
import os
import random
import re
import vlib
import scriptgen
import smtlib
import solvercheck as sc
import answercheck
from smtlib import sx_str

META = dict(
    title="Incremental answers equal fresh answers on the active assertions",
    category="proof",
    technique="Coq proof over all push/pop/assert/check histories of the MainSolver bookkeeping model (relative to an engine contract) + exact state correspondence with the hooked implementation + fresh-process and query-stripping differentials",
    level_text="PARTIAL. Proved for ALL histories (Properties_C04.v, c04_history): in the model of MainSolver's frame bookkeeping (unsat flags, "
               "firstNotSimplifiedFrame, frame ids guarding the clauses, short-cut on a flagged frame) every check-sat answer is correct for exactly "
               "the assertions on the stack, relative to the engine contract (sat => given formulas satisfiable; unsat with conflict frame k => frames "
               "0..k unsatisfiable) that C01/C02/C12 establish per run. Tie on every run: the (ms ...) hook events of the working-tree binary are "
               "replayed on the extracted model — frame count, per-frame unsat flags, firstNotSimplifiedFrame, inserted count and the way each "
               "answer was reached must agree exactly. End-to-end: every incremental answer is compared with a fresh process on the flattened "
               "active assertions, and with the same script stripped of get-* queries.",
    level_note="Trusted: Coq kernel, extraction, ocaml/frames_driver.ml, the hook in MainSolver.cc. Modelled, not verified: preprocessing of a frame "
               "(identity in the model; C13) and the engine (oracle with contract).",
    design_ref="DESIGN.md §7 C04, design/C04.md",
    trusted_base=["Coq 8.16.1 kernel", "extraction ExtrOcamlBasic/ExtrOcamlString", "ocaml/frames_driver.ml", "hook MainSolver::verifTraceState (/repo 9bca3ef)",
                  "lib/smtlib.py, lib/solvercheck.py"],
    assumptions=["engine contract engine_sat / engine_unsat / early_sound (discharged per run by C01/C02/C12)", "sat is monotone (a subset of a satisfiable set is satisfiable)"],
    rule="push/pop/assert/check-sat histories of 6-16 steps from lib/scriptgen.py (depth <= 4 levels, multi-level push/pop, repeated checks, unsat levels popped "
         "and re-entered, get-model between checks); a case = one history; non-trivial = >= 2 checks and >= 1 pop; distinct = script text",
)


def ops_from_trace(path):
    """The op sequence and the observed bookkeeping states of the first MainSolver instance."""
    ops, states = [], []
    inst = None
    for line in open(path, errors="replace"):
        if not line.startswith("(ms "):
            continue
        m = re.match(r"\(ms (\S+) (\w+) \(frames (\d+)\) \(unsat ([01 ]*)\) \(fns (\d+)\) \(inserted (\d+)\)(.*)\)$", line.strip())
        if not m:
            return None, "unparsable ms event: " + line.strip()
        if inst is None:
            inst = m.group(1)
        if m.group(1) != inst:
            continue
        op, n, flags, fns, ins, rest = m.group(2), int(m.group(3)), m.group(4).replace(" ", ""), int(m.group(5)), int(m.group(6)), m.group(7)
        ans = "-"
        if op == "check":
            r = re.search(r"\(result (\w+)\) \(via (\w+)\)(?: \(conflict-frame (\d+)\))?", rest)
            if not r:
                return None, "unparsable check event: " + line.strip()
            ans = r.group(1)
            if r.group(2) == "flag":
                tok = "check:flag"
            elif r.group(2) == "simplify":
                tok = "check:simplify:%d" % fns
            elif ans == "sat":
                tok = "check:solve:sat"
            elif ans == "unsat":
                tok = "check:solve:unsat:%s" % r.group(3)
            else:
                tok = "check:solve:unknown"
        else:
            tok = op
        ops.append(tok)
        states.append("%d|%s|%d|%d|%s" % (n, flags, fns, ins, ans))
    return ops, states


def engine_contract_violations(path):
    """Per-run discharge of the engine contract `engine_unsat` used by c04_history: when a check is answered unsat by
    solving with conflict frame k, the final conflict clause (`f` event: activation literals of the frames the refutation
    used) may only mention frames of index <= k; and when the refutation used no activation literal at all (no `f` event
    during that solve: the conflict was found at decision level 0), the reported conflict frame must be the base frame —
    flags of lower frames that stay unset would let a later pop "restore" a solver whose base level is refuted.
    Returns a list of (check index, k, offending frame index or -2)."""
    import re
    bad, last_f, inst, k = [], None, None, 0
    for line in open(path, errors="replace"):
        m = re.match(r"\(f (\S+) \(([-0-9 ]*)\)\)", line)
        if m:
            last_f = [int(x) for x in m.group(2).split()]
            continue
        if line.startswith("(a "):
            last_f = None
            continue
        if line.startswith("(ms "):
            m = re.match(r"\(ms (\S+) (\w+) ", line)
            if inst is None:
                inst = m.group(1)
            if m.group(1) != inst:
                continue
            if m.group(2) == "check":
                k += 1
                cf = re.search(r"\(conflict-frame (\d+)\)", line)
                fl = re.search(r"\(frame-lits ([-0-9 ]*)\)", line)
                if cf and fl and last_f is not None:
                    lits = [int(x) for x in fl.group(1).split()]
                    for l in last_f:
                        if abs(l) in [abs(x) for x in lits if x != 0]:
                            idx = [abs(x) for x in lits].index(abs(l)) + 1
                            if idx > int(cf.group(1)):
                                bad.append((k, int(cf.group(1)), idx))
                elif cf and last_f is None and int(cf.group(1)) != 0:
                    bad.append((k, int(cf.group(1)), -2))
                last_f = None
    return bad


def frame_guard_violations(path):
    """Dead-guard discipline (invariant I3 of Stack/FramesProofs.v: a clause given under the id of a live frame belongs to
    that frame): in the trace every clause handed over while frame index i is processed (`ot` events after the `pp` event of
    frame i) carries the activation literal `.frame<id>` of that frame only; the base frame carries none; two live frames
    never share a guard.  Returns a list of descriptions."""
    import re
    bad, G, cur, inst = [], {}, None, None
    for line in open(path, errors="replace"):
        if line.startswith("(pp "):
            m = re.match(r"\(pp (\S+) (\d+) ", line)
            if inst is None:
                inst = m.group(1)
            if m.group(1) == inst:
                cur = int(m.group(2))
                G.setdefault(cur, set())
        elif line.startswith("(ot ") and cur is not None:
            for g in re.findall(r"(?<![\w.])\.frame(\d+)\b", line):
                G[cur].add(int(g))
        elif line.startswith("(ms "):
            m = re.match(r"\(ms (\S+) (\w+) \(frames (\d+)\)", line)
            if inst is None:
                inst = m.group(1)
            if m.group(1) != inst:
                continue
            n = int(m.group(3))
            if m.group(2) == "pop":
                for i in [i for i in G if i >= n]:
                    del G[i]
                cur = None
            if m.group(2) == "check":
                live = {i: g for i, g in G.items() if i < n}
                if live.get(0):
                    bad.append("base frame clauses carry the guard(s) %s" % sorted(live[0]))
                for i, g in live.items():
                    if len(g) > 1:
                        bad.append("clauses of frame %d carry several guards %s" % (i, sorted(g)))
                idx = sorted(live)
                for a in range(len(idx)):
                    for b in range(a + 1, len(idx)):
                        if live[idx[a]] & live[idx[b]]:
                            bad.append("live frames %d and %d share the guard %s" % (idx[a], idx[b], sorted(live[idx[a]] & live[idx[b]])))
    return bad


def strip_queries(text):
    return "\n".join(l for l in text.split("\n") if not l.startswith(("(get-model", "(get-value", "(get-assignment"))) + "\n"


def prop_history(rng):
    """Dense propositional push/pop history: 2-literal clauses over 3 variables (unsatisfiable sets that only search finds, at the
    base level and at pushed levels, in alternation), so that unsat answers, conflict frames and their reset meet in one history."""
    vs = ["p0", "p1", "p2"]
    lines = ["(set-logic QF_UF)"] + ["(declare-fun %s () Bool)" % v for v in vs]
    depth = 0

    def clause():
        a, b = rng.sample(vs, 2)
        return "(assert (or %s %s))" % tuple(v if rng.random() < 0.5 else "(not %s)" % v for v in (a, b))

    def bundle():
        a, b = rng.sample(vs, 2)
        cs = ["(assert (or %s %s))" % (x, y) for x in (a, "(not %s)" % a) for y in (b, "(not %s)" % b)]
        rng.shuffle(cs)
        return cs

    nchecks = 0
    if rng.random() < 0.5:
        # structured: unsat under pushed levels, pop, unsat bundle lower down, push again, check, pop, check
        for rnd in range(rng.randint(1, 2)):
            a = rng.randint(1, 2)
            lines.append("(push %d)" % a)
            depth += a
            lines += [clause() for _ in range(rng.randint(0, 2))] + bundle() + ["(check-sat)"]
            c = rng.randint(1, depth)
            lines.append("(pop %d)" % c)
            depth -= c
            lines += [clause() for _ in range(rng.randint(0, 2))]
            if rng.random() < 0.7:
                lines += bundle()
            b = rng.randint(1, 3)
            lines.append("(push %d)" % b)
            depth += b
            lines += [clause() for _ in range(rng.randint(0, 1))] + ["(check-sat)"]
            c = rng.randint(1, min(depth, 3))
            lines.append("(pop %d)" % c)
            depth -= c
            lines.append("(check-sat)")
    for _ in range(rng.randint(8, 18) if len(lines) < 8 else rng.randint(0, 4)):
        k = rng.random()
        if k < 0.2:
            n = rng.randint(1, 2)
            lines.append("(push %d)" % n)
            depth += n
        elif k < 0.4 and depth > 0:
            n = rng.randint(1, min(2, depth))
            lines.append("(pop %d)" % n)
            depth -= n
        elif k < 0.6:
            lines.append("(check-sat)")
            nchecks += 1
        elif k < 0.75:
            lines += bundle()
        else:
            lines.append(clause())
    while depth > 0:
        lines.append("(check-sat)")
        n = rng.randint(1, depth)
        lines.append("(pop %d)" % n)
        depth -= n
    lines.append("(check-sat)")
    return "\n".join(lines) + "\n", dict(logic="QF_UF", incremental=True, nchecks=nchecks + 1)


def one(args):
    seed, idx = args
    rng = random.Random(seed * 15485863 + idx)
    if idx >= 1000000:
        text, meta = prop_history(rng)
    else:
        text, meta = scriptgen.gen_script(rng, incremental=True, queries=("model",) if rng.random() < 0.7 else (), big=False,
                                          numprefix=rng.choice(["v", "x"]), named=False)
    tr = os.path.join(vlib.BUILD, "tmp", "c04_%d_%d.trace" % (os.getpid(), idx))
    os.makedirs(os.path.dirname(tr), exist_ok=True)
    rc, res, out, err = sc.run_aligned(text, timeout=20, trace=tr)
    if not os.path.exists(tr):
        # the run did not start or was killed before its first event (binary being relinked by a concurrent check, overload): once more
        rc, res, out, err = sc.run_aligned(text, timeout=40, trace=tr)
    ops, states = (None, "no trace (rc=%s)" % rc)
    contract = []
    tev = ""
    if os.path.exists(tr):
        ops, states = ops_from_trace(tr)
        contract = engine_contract_violations(tr)
        contract += [(0, -1, g) for g in frame_guard_violations(tr)]
        import C01
        tev, tnq = C01.trace_events(tr)
        os.remove(tr)
    # fresh runs of each check on the flattened active assertions
    ans = answercheck.answers_of(text, res, out) if rc in (0, 1) else None
    fresh = []
    decls = sc.decl_lines(text)
    if ans:
        for k, a, frames, sig, model in ans:
            A = sc.active_assertions(frames)
            ft = sc.flat_script(decls, meta["logic"] if meta["logic"] != "QF_BOOL" else "QF_UF", [sc.strip_named(x) for x in A])
            rc2, out2, err2 = vlib.run_opensmt(ft, timeout=20)
            fresh.append(out2.strip().split("\n")[0] if out2.strip() else "none")
    # the same script without get-* queries
    st = strip_queries(text)
    rc3, out3, err3 = vlib.run_opensmt(st, timeout=20) if st != text else (rc, None, None)
    if rc3 not in (0, 1):
        out3 = None      # crashed / timed out / not started: not comparable
    return text, meta, rc, out, ops, states, ans, fresh, out3, contract, tev


def run(ctx):
    exe, log = vlib.build_extracted("frames")
    if not exe:
        ctx.tie_broken("extraction-frames", log)
        return
    n = 140 if ctx.quick else 1100
    with cf.ThreadPoolExecutor(max_workers=12) as ex:
        results = list(ex.map(one, [(ctx.seed, i) for i in range(n)] + [(ctx.seed, 1000000 + i) for i in range(n // 2)]))
    # 1. exact bookkeeping correspondence (model replay of the traced op sequences)
    lines, keep = [], []
    for r in results:
        text, meta, rc, out, ops, states, ans, fresh, out3, contract, tev = r
        if ops is None and rc not in (0, 1):
            ctx.count("not-run(crash/timeout before the first trace event)")
            continue
        if ops is None:
            ctx.tie_broken("ms-trace", str(states), dict(script=text))
            continue
        if rc not in (0, 1):
            ctx.count("crash-or-timeout")
            continue
        lines.append(" ".join(ops))
        keep.append(r)
    rcm, outm = vlib.sh([exe], input="\n".join(lines) + "\n", timeout=600)
    mlines = outm.split("\n")
    if rcm != 0 or len(mlines) < len(keep):
        ctx.tie_broken("frames-model-run", "rc=%s lines=%d/%d %s" % (rcm, len(mlines), len(keep), outm[-300:]))
        return
    # engine contract by certificate: every unsat answer reached by solving / clause insertion must be refutable by the
    # extracted replay using the activation of frames 0..k only (k = the frame from which the answer flags unsat)
    texe, tlog = vlib.build_extracted("trace")
    if texe:
        with_q = [r for r in keep if ";q" in r[10] or r[10].endswith("q")]
        if with_q:
            rct, outt = vlib.sh([texe], input="\n".join(r[10] for r in with_q) + "\n", timeout=900)
            tl = outt.split("\n")
            if rct == 0 and len(tl) >= len(with_q):
                for r, l in zip(with_q, tl):
                    ctx.count("engine-contract-certificates", len(l.split()))
                    if "FAIL" in l.split():
                        ctx.tie_broken("engine-contract:prefix-refutation",
                                       "an unsat answer is not refutable from the clauses seen with the activation of frames 0..k only (k = frame the answer flags from)",
                                       dict(script=r[0], verdicts=l))
            else:
                ctx.tie_broken("trace-driver", outt[-300:])
    else:
        ctx.tie_broken("extraction-trace", tlog)
    for r, ml in zip(keep, mlines):
        text, meta, rc, out, ops, states, ans, fresh, out3, contract, tev = r
        for (kk, cfr, idx) in contract:
            if cfr == -1:
                ctx.tie_broken("frame-guard-discipline", str(idx), dict(script=text))
                continue
            ctx.tie_broken("engine-contract:conflict-frame", ("check %d: reported conflict frame %d but the final conflict uses the activation literal of frame %d" % (kk, cfr, idx)) if idx != -2 else
                           ("check %d: the refutation used no activation literal (level-0 conflict) but the reported conflict frame is %d, not the base frame" % (kk, cfr)),
                           dict(script=text))
        mstates = [x for x in ml.split(";") if x]
        nchecks = sum(1 for o in ops if o.startswith("check"))
        npops = sum(1 for o in ops if o == "pop")
        ctx.case(key=text, nontrivial=nchecks >= 2 and npops >= 1, kind="history:%s:checks=%d" % (meta["logic"], min(nchecks, 6)),
                 sample=dict(script=text, ops=ops, impl_states=states, model_states=mstates))
        bad = None
        for j, (si, sm) in enumerate(zip(states, mstates)):
            sm_core, consulted = sm.rsplit("|", 1)
            if si != sm_core:
                bad = (j, ops[j], si, sm_core)
                break
        if bad or len(states) != len(mstates):
            ctx.tie_broken("frames-bookkeeping-correspondence",
                           "after op #%s (%s): implementation %s, model %s" % (bad[0], bad[1], bad[2], bad[3]) if bad else "length mismatch",
                           dict(script=text, ops=ops))
        # 2. incremental answer vs fresh process
        if ans is None:
            ctx.count("misaligned-output")
        else:
            for (k, a, frames, sig, model), f in zip(ans, fresh):
                ctx.count("check:%s/fresh:%s" % (a, f))
                if {a, f} == {"sat", "unsat"}:
                    A = sc.active_assertions(frames)
                    lg = meta["logic"] if meta["logic"] != "QF_BOOL" else "QF_UF"
                    v, detail = (sc.judge_sat(sig, lg, sc.decl_lines(text), A, model) if a == "sat" else sc.judge_unsat(sig, lg, sc.decl_lines(text), A))
                    ctx.violation("incremental-differs-from-fresh:%s:%s" % (meta["logic"], "incremental-%s" % a),
                                  "check %d answers %s incrementally but a fresh solver answers %s on the same active assertions (judgement of the incremental answer: %s)" % (k, a, f, v),
                                  dict(script=text, check_index=k, active_assertions=[sx_str(x) for x in A], incremental=a, fresh=f, judgement=v))
        # 3. queries between checks must not change later answers / responses
        if out3 is not None:
            def core(o):
                toks, _ = smtlib.read_all_tolerant(o, placeholder=True)
                return [sx_str(t) for t in toks if isinstance(t, str) and t in ("sat", "unsat", "unknown") or (isinstance(t, list) and t and t[0] == "error" and "not in SAT state" not in sx_str(t))]
            a_with, a_without = core(out), core(out3)
            ctx.count("query-differential")
            if a_with != a_without:
                cause = "ambiguous-symbol" if "Ambiguous symbol" in out else "other"
                ctx.violation("query-changes-later-behaviour:%s" % cause,
                              "removing the get-model/get-value queries changes the check-sat answers or error responses: with %s, without %s" % (a_with, a_without),
                              dict(script=text, with_queries=a_with, without_queries=a_without))
