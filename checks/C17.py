"""C17 — printed SMT-LIB reads back to the same object."""
import glob
import json
import os
import re

import vlib
import smtlib
import scriptgen
import solvercheck
import scriptgen_names2 as N2
from scriptgen_names2 import hx, un

META = dict(
    title="Printed SMT-LIB reads back to the same object",
    category="proof",
    technique="Coq proof (name protection / disambiguation / formal-parameter naming / get-assignment / get-value echo / "
              "unsat-core names / sort names against an SMT-LIB 2.6 lexer and s-expression reader, both for the reference "
              "lexer and for opensmt's own) + exact correspondence of the extracted printers with Logic / ArithLogic / "
              "ModelBuilder / Model / Interpret through a C++ harness + end-to-end scripts over adversarial names whose every "
              "printed artefact is read back by the extracted reader, by opensmt, by z3 and cvc5",
    level_text="Proved for all legal symbol names (any printable characters and white space except | and \\): the repaired printer "
               "round-trips under both lexers (protect_repaired_roundtrip_std/_osmt), Logic::protectName as it is round-trips "
               "except for the names listed in the hypotheses of protect_roundtrip_partial_std/_osmt (reserved words its table "
               "lacks, the empty name, names that opensmt's lexer reads as negative numbers), is injective on legal names, "
               "repaired formal parameters never carry a user symbol's name and the renaming loop always terminates with a name. "
               "The faithful models of the defective sites are refuted with witnesses that are replayed on the implementation "
               "(known findings).  Per run the extracted functions are compared exactly with the working tree (protectName, "
               "termToSMT2String, printDefinitionSmtlib headers, get-assignment, get-value echo, unsat-core names), and models, "
               "values, interpolants, cores and dumped queries of generated scripts are read back and compared semantically.",
    level_note="partial: the printer/reader models are proved; that the C++ behaves like the models is checked per run on generated "
               "cases only; acceptance by z3 / cvc5 is sampled (untrusted readers, used to find inputs, never to accept). The "
               "reader model covers the lexical level and s-expression structure, not sort checking.  Trusted: Coq kernel, "
               "extraction, ocaml/print_driver.ml (hex coding, request parsing), harness/h_print.cc (opens private members by "
               "macro; captures std::cout), lib/scriptgen_names2.py (renaming, mapping printed names back), lib/smtlib.py + the "
               "verified evaluator of coq/Sem for the semantic comparison, translate/smt2tokens.py.",
    design_ref="DESIGN.md §7 C17, design/C17.md",
    trusted_base=["Coq 8.16.1 kernel", "extraction: Require Import ExtrOcamlBasic ExtrOcamlString; no Extract Constant / Extract Inductive of our own",
                  "ocaml/print_driver.ml", "harness/h_print.cc linked against the working-tree libopensmt.a (private members opened by macro)",
                  "translate/smt2tokens.py (pattern translator: tokenNames, hasQuotableChars set, protectName guards, lexer rules, site shapes)",
                  "lib/scriptgen_names2.py, lib/smtlib.py, lib/solvercheck.py (glue); z3 4.8.12 and cvc5 1.0.3 as untrusted readers/oracles"],
    assumptions=["std::string::front()/back() on the empty string return NUL (observed with libstdc++; formally undefined)",
                 "flex longest-match / first-rule semantics for the token rules of smt2newlexer.ll"],
    translators=["smt2tokens.py"],
    coq_targets=["Print/SiteProofs.vo", "Extract/Extract_print.vo"],
    rule="names: every class of scriptgen_names2 (plain, simple with special characters, quoted with blanks / parentheses / "
         "semicolons / double quotes / newlines / CR / UTF-8 bytes / # , : ' [ {, leading digits, reserved words in and outside "
         "opensmt's table, sort-like, internal-looking (x0, x!0, ?def0), solver-reserved (@0, .frame0), arithmetic operators in "
         "QF_UF, numeral-like (-5), empty, 64..3000 characters) plus random legal byte strings; terms: random well-sorted terms "
         "over 3..7 such symbols in QF_UF/QF_LRA/QF_LIA/QF_UFLRA/QF_UFLIA built through the API; definitions: ModelBuilder "
         "valuations in a chosen order; scripts: lib/scriptgen scripts renamed with such names, with :produce-models, "
         "get-value, get-assignment, unsat cores (named and full), interpolants, :dump-query.  distinct = distinct case text",
)

LOGICS_T = ["QF_UF", "QF_LRA", "QF_LIA", "QF_UFLRA", "QF_UFLIA"]


def evaluate(sig, model, asserts):
    """solvercheck.evaluate, waiting out a concurrent rebuild of the extracted evaluator by another check"""
    import time
    for attempt in range(60):
        try:
            r = solvercheck.evaluate(sig, model, asserts)
            if "error" in r and "No such file" in str(r["error"]):
                raise FileNotFoundError(r["error"])
            return r
        except (FileNotFoundError, PermissionError, OSError):
            time.sleep(3)
            solvercheck._sem_exe = None
    return solvercheck.evaluate(sig, model, asserts)


def run_ref(tool, text, timeout=20):
    import time
    for attempt in range(20):
        try:
            return vlib.run_ref(tool, text, timeout=timeout)
        except (FileNotFoundError, PermissionError, OSError):
            time.sleep(2)
    return vlib.run_ref(tool, text, timeout=timeout)


def run_osmt(text, timeout=30):
    """vlib.run_opensmt, waiting out a concurrent relink of the shared binary (other checks rebuild build/impl)"""
    import time
    for attempt in range(40):
        try:
            return vlib.run_opensmt(text, timeout=timeout)
        except (PermissionError, FileNotFoundError, OSError):
            time.sleep(3)
    return vlib.run_opensmt(text, timeout=timeout)
SAMPLES = {}


def sample(key, val):
    if key not in SAMPLES:
        SAMPLES[key] = val


# ---------------------------------------------------------------------------------------------
# cause of a name that does not read back
# ---------------------------------------------------------------------------------------------
STD_RESERVED = set("""! _ as BINARY DECIMAL exists HEXADECIMAL forall let match NUMERAL par STRING assert check-sat
 check-sat-assuming declare-const declare-datatype declare-datatypes declare-fun declare-sort define-fun define-fun-rec
 define-funs-rec define-sort echo exit get-assertions get-assignment get-info get-model get-option get-proof
 get-unsat-assumptions get-unsat-core get-value pop push reset reset-assertions set-info set-logic set-option""".split())
NUMLIKE = re.compile(r"^-([1-9][0-9]*(/[1-9][0-9]*)?|[0-9]+\.[0-9]+)$")


def name_cause(name, printed, rs, ro):
    """why `printed` (what the implementation printed for `name`) does not read back; None when it does"""
    if rs == name and ro == name:
        return None
    if name == "":
        return "empty-name"
    if printed == name and (name in STD_RESERVED or name in ("DECIMAL", "NUMERAL", "STRING", "_", "!")):
        return "reserved-word-unquoted:" + name
    if printed == name and ro != name and rs == name and NUMLIKE.match(name):
        return "numeral-like-symbol"
    return "unexplained"


def legal_random_name(rng):
    n = rng.choice([1, 1, 2, 3, 4, 6, 9, 14])
    pool = [c for c in range(32, 127) if chr(c) not in "|\\"] + [9, 10, 13] + list(range(128, 256))
    weights_simple = "abcxyz019~!@$%^&*_-+=<>.?/"
    out = []
    for _ in range(n):
        if rng.random() < 0.55:
            out.append(rng.choice(weights_simple))
        else:
            out.append(chr(rng.choice(pool)))
    return "".join(out)


# ---------------------------------------------------------------------------------------------
# part 1: Logic::protectName against the model, read back by the extracted reader
# ---------------------------------------------------------------------------------------------
def part_protect(ctx, M, H):
    rng = ctx.rng
    names = []
    for p in sorted(glob.glob(os.path.join(vlib.VERIF, "corpus", "C17", "names*.txt"))):
        for l in open(p):
            l = l.rstrip("\n")
            if l and not l.startswith("#"):
                names.append((un(l), "corpus"))
    for cls in N2.GOOD_CLASSES + N2.BAD_CLASSES + N2.OTHER_CLASSES:
        seen = set()
        for _ in range(60 if ctx.quick else 400):
            nm = N2.gen_name(rng, cls)
            if nm not in seen and "|" not in nm and "\\" not in nm:
                seen.add(nm)
                names.append((nm, cls))
    for w in sorted(STD_RESERVED) + N2.TABLE_WORDS + ["true", "false", "and", "Int", "+", "-"]:
        names.append((w, "word-list"))
    for _ in range(3000 if ctx.quick else 60000):
        names.append((legal_random_name(rng), "random-legal"))
    bad = 0
    for nm, cls in names:
        for interp in ((0, 1) if cls in ("word-list", "plain") else (0,)):
            hw = H.ask("P %d %s" % (interp, hx(nm))).split(" ")
            mw = M.proc.ask("P f %d %s" % (interp, hx(nm))).split(" ")
            ctx.case(key=("P", nm, interp), nontrivial=True, kind="protect:" + cls)
            if len(hw) < 3 or len(mw) < 3:
                ctx.tie_broken("protect-correspondence-run", "name %r: harness %r model %r" % (nm, hw, mw), dict(name=nm))
                return
            impl = un(hw[0])
            if hw[0] != mw[0]:
                ctx.tie_broken("protect-correspondence", "protectName(%r, interp=%d): implementation %r, model %r" % (nm, interp, impl, un(mw[0])),
                               dict(name=nm, hex=hx(nm), interp=interp))
            if interp:
                continue
            rs, ro = M.read_symbol(impl)
            cause = name_cause(nm, impl, rs, ro)
            if cls in ("quoted-space", "reserved-missing", "numlike", "empty"):
                sample("protect:" + cls, dict(case="Logic::protectName", name=nm, printed=impl, read_smtlib=rs, read_opensmt_lexer=ro))
            if cause:
                bad += 1
                ctx.violation("protect:" + cause,
                              "Logic::protectName(%r) = %r which reads back as %r (SMT-LIB 2.6 lexer) / %r (opensmt's lexer)" % (nm, impl, rs, ro),
                              dict(name=nm, name_hex=hx(nm), printed=impl, how="echo 'P 0 %s' | build/harness/h_print" % hx(nm)))
    ctx.note("protectName: %d names, %d do not read back" % (len(names), bad))


# ---------------------------------------------------------------------------------------------
# part 2: terms built through the API
# ---------------------------------------------------------------------------------------------
class TermGen:
    """A random signature with adversarial names and a random well-sorted Boolean term over it (recipe of h_print T)."""

    def __init__(self, rng, logic, profile):
        self.r = rng
        self.logic = logic
        self.has_num = logic != "QF_UF"
        self.has_uf = "UF" in logic
        self.sorts = []          # declared sort names
        self.syms = []           # (name, argsorts idx list, ret idx)
        self.profile = profile
        r = rng
        classes = list(N2.GOOD_CLASSES) + ["solver-reserved"]
        if logic == "QF_UF":
            classes.append("arith-op-in-uf")
        if profile == "bad-name":
            classes = classes + N2.BAD_CLASSES * 4
        if self.has_uf:
            ns = r.choice([1, 1, 1, 2])
            for i in range(ns):
                if profile == "sort-name" or (profile == "any" and r.random() < 0.15):
                    self.sorts.append(N2.pick_names(r, 1, ["quoted-space", "reserved-in-table", "digit-leading", "quoted-paren"], logic, self.sorts)[0][0])
                else:
                    self.sorts.append(["U", "V", "S2"][i])
        nsym = r.randint(3, 7)
        names = N2.pick_names(r, nsym, classes, logic)
        valsorts = [0] + ([1] if self.has_num else []) + [2 + i for i in range(len(self.sorts))]
        for (nm, cls) in names:
            if self.has_uf and r.random() < 0.45:
                k = r.choice([1, 1, 2])
                args = [r.choice(valsorts) for _ in range(k)]
                self.syms.append((nm, args, r.choice(valsorts)))
            else:
                self.syms.append((nm, [], r.choice(valsorts)))
        # every sort has a constant (the term generator needs leaves)
        for s in valsorts:
            if not any((not a) and ret == s for (_, a, ret) in self.syms):
                extra = N2.pick_names(r, 1, classes, logic, [x[0] for x in self.syms])[0]
                self.syms.append((extra[0], [], s))
                names.append(extra)
        if profile == "overload" or (profile == "any" and r.random() < 0.1):
            # the same nullary name at two sorts (an opensmt extension; test_AmbiguousVarPrinting)
            cands = [s for s in self.syms if not s[1]]
            if cands and len(valsorts) > 1:
                nm, _, ret = r.choice(cands)
                other = r.choice([s for s in valsorts if s != ret])
                self.syms.append((nm, [], other))
        self.classes = dict(names)

    def decls(self):
        out = [str(len(self.sorts))] + [hx(s) for s in self.sorts] + [str(len(self.syms))]
        for nm, args, ret in self.syms:
            out += [hx(nm), str(len(args))] + [str(a) for a in args] + [str(ret)]
        return " ".join(out)

    def term(self, sort, depth):
        r = self.r
        leaves = [i for i, s in enumerate(self.syms) if not s[1] and s[2] == sort]
        funs = [i for i, s in enumerate(self.syms) if s[1] and s[2] == sort]
        if depth <= 0 or (r.random() < 0.3 and leaves):
            if leaves and (sort != 1 or r.random() < 0.8):
                return "u%d/0" % r.choice(leaves)
            if sort == 0:
                return r.choice(["t", "f"]) if not leaves else "u%d/0" % r.choice(leaves)
            if sort == 1:
                lit = str(r.randint(0, 9)) if self.logic.endswith("IA") else r.choice(["0", "1", "2", "3/2", "-1/3", "-4", "7/5", "0.5"])
                if lit.startswith("-") and self.logic.endswith("IA"):
                    lit = lit[1:]
                return "c" + hx(lit)
            return None
        k = r.random()
        if funs and k < 0.4:
            i = r.choice(funs)
            subs = [self.term(a, depth - 1) for a in self.syms[i][1]]
            if all(subs):
                return "u%d/%d %s" % (i, len(subs), " ".join(subs))
        if sort == 0:
            op = r.choice(["and", "or", "not", "eq", "eq", "ite", "distinct", "xor", "imp"] + (["leq", "lt", "geq", "gt"] if self.has_num else []))
            if op in ("and", "or"):
                n = r.randint(2, 3)
                subs = [self.term(0, depth - 1) for _ in range(n)]
            elif op == "not":
                subs = [self.term(0, depth - 1)]
            elif op in ("xor", "imp"):
                subs = [self.term(0, depth - 1), self.term(0, depth - 1)]
            elif op == "ite":
                subs = [self.term(0, depth - 1) for _ in range(3)]
            elif op in ("eq", "distinct"):
                s = r.choice([0] + ([1] if self.has_num else []) + [2 + i for i in range(len(self.sorts))])
                n = 2 if op == "eq" else r.randint(2, 3)
                subs = [self.term(s, depth - 1) for _ in range(n)]
            else:
                subs = [self.term(1, depth - 1), self.term(1, depth - 1)]
            if not all(subs):
                return self.term(0, 0)
            return "o%s/%d %s" % (op, len(subs), " ".join(subs))
        if sort == 1:
            op = r.choice(["plus", "times", "minus", "neg", "ite"])
            if op == "plus":
                subs = [self.term(1, depth - 1) for _ in range(r.randint(2, 3))]
            elif op == "times":
                lit = "c" + hx(str(r.randint(2, 5)))
                subs = [lit, self.term(1, depth - 1)]
            elif op == "minus":
                subs = [self.term(1, depth - 1), self.term(1, depth - 1)]
            elif op == "neg":
                subs = [self.term(1, depth - 1)]
            else:
                subs = [self.term(0, depth - 1), self.term(1, depth - 1), self.term(1, depth - 1)]
            if not all(subs):
                return self.term(1, 0)
            return "o%s/%d %s" % (op, len(subs), " ".join(subs))
        # uninterpreted sort
        if r.random() < 0.3:
            subs = [self.term(0, depth - 1), self.term(sort, depth - 1), self.term(sort, depth - 1)]
            if all(subs):
                return "oite/3 " + " ".join(subs)
        return self.term(sort, 0)


def term_failure_cause(M, impl_text, spec_syms_names, want_wire, got):
    """classify a printed term that does not read back as the term it was built from"""
    bad = []
    for nm in spec_syms_names:
        p, rs, ro = M.protect(nm, "f")
        c = name_cause(nm, p, rs, ro)
        if c and (p in impl_text):
            bad.append(c)
    if bad:
        return sorted(set(bad))[0]
    w = N2.wire_str(want_wire)
    if "r:as" in w and (got is None or "r:as" not in " ".join(N2.wire_str(g) for g in got)):
        # which names had to be qualified?  the known defect concerns only those that are printed between bars
        need = []

        def walk(e):
            if isinstance(e, list):
                if len(e) == 3 and e[0] == ("r", "as") and isinstance(e[1], tuple):
                    need.append(e[1][1])
                for x in e:
                    walk(x)
        walk(want_wire)
        if need and all(M.protect(n, "f")[0] != n for n in need):
            return "quoted-ambiguous-not-qualified"
        return "ambiguous-not-qualified"
    if "r:as" in w:
        return "sort-name-unquoted"
    return "unexplained"


def part_terms(ctx, M, H):
    rng = ctx.rng
    n = 500 if ctx.quick else 8000
    profiles = ["good"] * 5 + ["any"] * 2 + ["bad-name", "overload", "sort-name"]
    stats = dict(ok=0, exc=0, fail=0)
    for it in range(n):
        logic = rng.choice(LOGICS_T)
        profile = rng.choice(profiles)
        g = TermGen(rng, logic, profile)
        t = g.term(0, rng.randint(1, 3))
        if not t:
            continue
        req = "T %s %s %s" % (logic, g.decls(), t)
        a = H.ask(req)
        ctx.case(key=req, nontrivial=True, kind="term:%s:%s" % (profile, logic))
        if a.startswith("EXC") or a.startswith("ERR"):
            stats["exc"] += 1
            ctx.count("term:rejected-by-api")
            continue
        if not a.startswith("OK ") or " | " not in a:
            ctx.tie_broken("term-correspondence-run", "request %s -> %s" % (req[:200], a[:200]), dict(request=req))
            return
        head, spec = a[3:].split(" | ", 1)
        texts = [un(w) for w in head.split(" ")]
        smt2, pp, lets = texts[0], texts[1], texts[2]
        mw = M.proc.ask("T f " + spec).split(" ", 1)
        if len(mw) < 2:
            ctx.tie_broken("term-correspondence-run", "model answer %r" % mw, dict(request=req))
            return
        model_text, want = un(mw[0]), N2.parse_wire(mw[1])
        if model_text != smt2:
            ctx.tie_broken("term-correspondence", "termToSMT2String: implementation %r, model %r" % (smt2, model_text), dict(request=req))
        names = [s[0] for s in g.syms] + g.sorts
        for cfgk, cfgname in (("s", "SMT-LIB lexer"), ("o", "opensmt lexer")):
            st, got = M.read(smt2, cfgk)
            ok = st == "ok" and len(got) == 1 and N2.wire_str(got[0]) == N2.wire_str(want[0])
            if ok:
                continue
            stats["fail"] += 1
            cause = term_failure_cause(M, smt2, names, want[0], got)
            sample("term:" + cause, dict(case="Logic::termToSMT2String", logic=logic, printed=smt2, reads_as=(N2.wire_str(got[0]) if got else st), built=N2.wire_str(want[0])))
            ctx.violation("term:" + cause, "termToSMT2String printed %r which the %s reads as %s, the term built is %s" %
                          (smt2[:300], cfgname, (" ".join(N2.wire_str(x) for x in got)[:300] if got is not None else st), N2.wire_str(want[0])[:300]),
                          dict(request=req, printed=smt2, how="echo '<request>' | build/harness/h_print"))
            break
        else:
            stats["ok"] += 1
            if profile == "good" and len(smt2) > 30:
                sample("term:good", dict(case="Logic::termToSMT2String", logic=logic, printed=smt2, reads_back=True))
        # dumpWithLets: must read, and expanding the lets must give the same term
        st, got = M.read(lets, "s")
        exp = None
        if st == "ok" and len(got) == 1:
            try:
                exp = expand_lets(got[0], {})
            except Exception:
                exp = None
        if exp is None or N2.wire_str(exp) != N2.wire_str(want[0]):
            cause = term_failure_cause(M, lets, names, want[0], [exp] if exp is not None else got)
            if cause == "unexplained" and any(re.match(r"^\?def\d+$", nm) for nm in names):
                cause = "let-name-capture"
            ctx.violation("dump-with-lets:" + cause, "dumpWithLets printed %r; with its lets expanded it reads as %s, the term built is %s" %
                          (lets[:300], N2.wire_str(exp)[:300] if exp is not None else st, N2.wire_str(want[0])[:300]),
                          dict(request=req, printed=lets))
    ctx.note("terms: %d read back, %d did not, %d recipes rejected by the API" % (stats["ok"], stats["fail"], stats["exc"]))


def expand_lets(e, env):
    if isinstance(e, list):
        if e and e[0] == ("r", "let"):
            env2 = dict(env)
            for b in e[1]:
                env2[b[0][1]] = expand_lets(b[1], env)
            return expand_lets(e[2], env2)
        return [expand_lets(x, env) for x in e]
    if e[0] == "y" and e[1] in env:
        return env[e[1]]
    return e


# ---------------------------------------------------------------------------------------------
# part 3: printed definitions (ModelBuilder / Model::getDefinition / printDefinitionSmtlib)
# ---------------------------------------------------------------------------------------------
def sort_spec(name):
    return hx(name) + "/0"


def part_definitions(ctx, M, H):
    rng = ctx.rng
    n = 250 if ctx.quick else 4000
    for it in range(n):
        profile = rng.choice(["good", "good", "good", "sort-name", "bad-name"])
        sorts = ["U"] if profile != "sort-name" else [N2.pick_names(rng, 1, ["quoted-space", "reserved-in-table", "digit-leading"], "QF_UF")[0][0]]
        if rng.random() < 0.3:
            sorts.append("V")
        classes = list(N2.GOOD_CLASSES) + ["internal-like"] * 3 + ["solver-reserved", "arith-op-in-uf"]
        if profile == "bad-name":
            classes += N2.BAD_CLASSES * 4
        nf = rng.randint(1, 4)
        names = N2.pick_names(rng, nf, classes, "QF_UF")
        vs = [0] + [2 + i for i in range(len(sorts))]
        syms = []
        for nm, cls in names:
            k = rng.choice([1, 1, 2, 3])
            syms.append((nm, [rng.choice(vs[1:]) for _ in range(k)], rng.choice(vs)))
        # valuation order decides the numbering of formal parameters
        order = [i for i in range(nf) if rng.random() < 0.7]
        rng.shuffle(order)
        ops = []
        for i in order:
            for _ in range(rng.randint(1, 2)):
                ops.append((i, [rng.randint(0, 3) for _ in syms[i][1]], rng.randint(0, 3)))
        req = ["M", str(len(sorts))] + [hx(s) for s in sorts] + [str(nf)]
        for nm, args, ret in syms:
            req += [hx(nm), str(len(args))] + [str(a) for a in args] + [str(ret)]
        req.append(str(len(ops)))
        for i, vals, v in ops:
            req += [str(i)] + [str(x) for x in vals] + [str(v)]
        req += [str(nf)] + [str(i) for i in range(nf)]
        line = " ".join(req)
        a = H.ask(line)
        ctx.case(key=line, nontrivial=True, kind="definition:" + profile)
        if not a.startswith("OK"):
            ctx.tie_broken("definition-correspondence-run", "request %s -> %s" % (line[:200], a[:200]), dict(request=line))
            return
        texts = [un(w) for w in a.split(" ")[1:]]
        # model: the builder creates the parameters of a function at its first valuation (in the order of the ops), the
        # default definitions are created when they are asked for (in the order of the queries)
        first_seen = []
        for i, _, _ in ops:
            if i not in first_seen:
                first_seen.append(i)
        allsorts = ["Bool", "?"] + sorts
        symspecs = ["%s 0 %d %s %s" % (hx(nm), len(args), " ".join(sort_spec(allsorts[x]) for x in args), sort_spec(allsorts[ret])) if args else
                    "%s 0 0 %s" % (hx(nm), sort_spec(allsorts[ret])) for (nm, args, ret) in syms]
        predicted = {}
        for v in ("f", "r"):
            tbl = list(symspecs)
            uniq = 0
            heads = {}
            ok = True
            for i in first_seen + [j for j in range(nf) if j not in first_seen]:
                kind = "b" if i in first_seen else "d"
                w = M.proc.ask("D %s %s %d %d %s %d" % (v, kind, uniq, len(tbl), " ".join(tbl), i)).split(" ")
                if w[0] == "NONE" or len(w) < 3:
                    ok = False
                    break
                heads[i] = un(w[0])
                if kind == "b":
                    uniq = int(w[1])
                np_ = int(w[2])
                rest = w[3:]
                k = 0
                for _ in range(np_):
                    nmh = rest[k]
                    # a sort in the wire form: name/arity followed by its arguments (only nullary sorts here)
                    tbl.append("%s 0 0 %s" % (nmh, rest[k + 1]))
                    k += 2
            predicted[v] = heads if ok else None
        for i, (nm, args, ret) in enumerate(syms):
            k = texts[i].rfind("\n    ")
            header = texts[i][:k]
            if predicted["f"] is None or predicted["f"].get(i) != header:
                if predicted["r"] is not None and predicted["r"].get(i) == header:
                    ctx.count("definition:repaired-variant-observed")
                else:
                    ctx.tie_broken("definition-correspondence", "printDefinitionSmtlib header: implementation %r, model %r" %
                                   (header, (predicted["f"] or {}).get(i)), dict(request=line, function=nm))
            judge_definition(ctx, M, texts[i], nm, [allsorts[x] for x in args], allsorts[ret], [s[0] for s in syms], i in first_seen, line)
        # constants
        if rng.random() < 0.5:
            cn = N2.pick_names(rng, 1, classes, "QF_UF")[0][0]
            si = rng.randrange(len(sorts))
            kl = "K %d %s %s %d" % (len(sorts), " ".join(hx(s) for s in sorts), hx(cn), 2 + si)
            ka = H.ask(kl)
            ctx.case(key=kl, nontrivial=True, kind="definition:constant")
            text = un(ka.split(" ")[0])
            mw = M.proc.ask("K f %s 0 0 %s" % (hx(cn), sort_spec(sorts[si])))
            mr = M.proc.ask("K r %s 0 0 %s" % (hx(cn), sort_spec(sorts[si])))
            k = text.rfind("\n    ")
            if un(mw) != text[:k] and un(mr) == text[:k]:
                ctx.count("definition:repaired-variant-observed")
            elif un(mw) != text[:k]:
                ctx.tie_broken("definition-correspondence", "printDefinitionSmtlib(constant) header: implementation %r, model %r" % (text[:k], un(mw)), dict(request=kl))
            judge_definition(ctx, M, text, cn, [], sorts[si], [cn], True, kl)


def judge_definition(ctx, M, text, name, argsorts, retsort, usernames, known_to_builder, request):
    """the printed (define-fun ...) must read back as a definition of `name` with these sorts"""
    for cfgk in ("s", "o"):
        st, got = M.read(text, cfgk)
        why = None
        if st != "ok" or len(got) != 1 or not isinstance(got[0], list) or len(got[0]) != 5:
            why = "shape"
        else:
            d = got[0]
            if d[0] != ("r", "define-fun"):
                why = "shape"
            elif d[1] != ("y", name):
                why = "name"
            elif not isinstance(d[2], list) or len(d[2]) != len(argsorts) or any((not isinstance(p, list)) or len(p) != 2 or p[1] != ("y", s) for p, s in zip(d[2], argsorts)):
                why = "params"
            elif d[3] != ("y", retsort):
                why = "sort"
        if why is None:
            continue
        p, rs, ro = M.protect(name, "f")
        cause = name_cause(name, p, rs, ro)
        if cause and cause != "unexplained":
            sig = "definition:" + cause
        elif any(M.quote(s) != s for s in argsorts + [retsort]):
            sig = "definition:sort-name-unquoted"
        elif not known_to_builder and M.quote(name) != name:
            sig = "definition:default-fn-name-unquoted"
        else:
            sig = "definition:unexplained"
        sample(sig, dict(case="printDefinitionSmtlib", name=name, printed=text, problem=why))
        ctx.violation(sig, "the printed definition of %r does not read back (%s): %r" % (name, why, text[:300]),
                      dict(request=request, printed=text, how="echo '<request>' | build/harness/h_print"))
        return



# ---------------------------------------------------------------------------------------------
# part 4: whole scripts over adversarial names
# ---------------------------------------------------------------------------------------------
def ast_spec(t, ren, bound=()):
    """plain request term -> the driver's ast notation (what opensmt's parser makes of the concrete request)"""
    if isinstance(t, list):
        if t and t[0] == "let":
            bs = []
            b2 = set(bound)
            for b in t[1]:
                bs.append("%s %s" % (hx(ren.letvar.get(b[0], b[0])), ast_spec(b[1], ren, bound)))
                b2.add(b[0])
            return "l%d %s %s" % (len(bs), " ".join(bs), ast_spec(t[2], ren, b2))
        if t and t[0] == "!":
            return "b%s %s" % (hx(ren.label.get(t[3], t[3])), ast_spec(t[1], ren, bound))
        if t and t[0] == "as":
            return "q%s %s" % (hx(ren.fun.get(t[1], t[1])), sort_spec(ren.sort.get(t[2], t[2])))
        h = t[0]
        return "p%d h%s %s" % (len(t) - 1, hx(ren.fun.get(h, h)), " ".join(ast_spec(x, ren, bound) for x in t[1:]))
    if t in bound:
        return "s" + hx(ren.letvar.get(t, t))
    if re.match(r"^[0-9]+(\.[0-9]+)?$", t):
        return "c" + hx(t)
    return "s" + hx(ren.fun.get(t, t))


class ScriptCase:
    pass


def make_renaming(rng, plain_text, logic, profile):
    funs, sorts, labels, lets = N2.plain_symbols(plain_text)
    ren = N2.Renaming()
    good = list(N2.GOOD_CLASSES) + ["solver-reserved"]
    if logic == "QF_UF":
        good.append("arith-op-in-uf")
    fun_classes = good
    if profile == "bad-name":
        fun_classes = good + N2.BAD_CLASSES * 3
    if profile == "clash":
        fun_classes = good + ["internal-like"] * 12
    taken = []
    picks = N2.pick_names(rng, len(funs), fun_classes, logic, taken)
    if profile == "pool":
        # one pool of difficult names for everything: names that need bars or are reserved words, and the names the
        # printers generate themselves (formal parameters x0 x1 x!0, abstract values, auxiliary variables).  Symbols with
        # arguments lean to the first kind, constants to the second, so that both meet in one printed model.
        arity = {}
        for cmd in smtlib.read_all(plain_text):
            if isinstance(cmd, list) and cmd and cmd[0] == "declare-fun":
                arity[cmd[1]] = len(cmd[2])
        hard = ["quoted-space", "quoted-paren", "quoted-semicolon", "quoted-dquote", "quoted-newline", "quoted-misc", "quoted-utf8",
                "digit-leading", "reserved-in-table", "sortlike"]
        own = ["internal-like"] * 4 + ["solver-reserved"]
        picks = []
        for f in funs:
            if arity.get(f, 0) > 0:
                cls = hard * 4 + own
            else:
                cls = ["formal-parameter-like"] * 14 + own * 3 + hard
            picks.append(N2.pick_names(rng, 1, cls, logic, [p[0] for p in picks])[0])
    if profile == "bad-name" and not any(c in N2.BAD_CLASSES for _, c in picks) and picks:
        picks[rng.randrange(len(picks))] = N2.pick_names(rng, 1, N2.BAD_CLASSES, logic, [p[0] for p in picks])[0]
    for f, (nm, cls) in zip(funs, picks):
        ren.fun[f] = nm
        ren.classes[nm] = cls
        taken.append(nm)
    for s in sorts:
        if profile == "sort-name" or (profile == "pool" and rng.random() < 0.25):
            nm = N2.pick_names(rng, 1, ["quoted-space", "reserved-in-table", "digit-leading", "quoted-paren", "quoted-semicolon"], logic, taken)[0][0]
        else:
            nm = rng.choice(["U", "U", "Sort1", "T"])
        ren.sort[s] = nm
        taken.append(nm)
    lab_classes = ["plain", "simple-special"] if profile != "label-name" else (good + N2.BAD_CLASSES)
    for l, (nm, cls) in zip(labels, N2.pick_names(rng, len(labels), lab_classes, logic, taken)):
        if profile != "label-name" and "%" in nm:
            nm = nm.replace("%", "_") + "q"
        ren.label[l] = nm
        ren.classes[nm] = cls
        taken.append(nm)
    for v, (nm, cls) in zip(lets, N2.pick_names(rng, len(lets), ["plain", "simple-special", "quoted-space", "reserved-in-table"], logic, taken)):
        ren.letvar[v] = nm
        taken.append(nm)
    return ren


def gen_case(rng, M, mode, profile):
    """a plain script and its concrete twin for one mode"""
    c = ScriptCase()
    c.mode, c.profile = mode, profile
    if mode == "itp":
        logic = rng.choice(["QF_UF", "QF_LRA", "QF_LIA"])
    elif profile in ("pool", "clash") and mode in ("model", "model+value", "value"):
        logic = rng.choice(["QF_UF", "QF_UF", "QF_UFLRA"])      # printed function definitions need functions
    else:
        logic = rng.choice(["QF_UF", "QF_LRA", "QF_LIA", "QF_UFLRA"])
    c.logic = logic
    opts, queries, named = [], (), False
    if mode in ("model", "value", "model+value"):
        queries = tuple(q for q in ("model", "value") if q in mode)
    elif mode == "assignment":
        opts.append(":produce-assignments true")
        queries = ("assignment",)
        named = True
    elif mode in ("core", "fullcore"):
        opts.append(":produce-unsat-cores true")
        if mode == "fullcore":
            opts.append(":print-cores-full true")
        named = True
    elif mode == "itp":
        opts.append(":produce-interpolants true")
        named = True
    nassert = rng.choice([1, 2, 3, 4]) if mode not in ("core", "fullcore", "itp") else rng.choice([2, 3, 4])
    if profile in ("pool", "clash") and mode in ("model", "model+value"):
        nassert = rng.choice([1, 1, 2])       # these scripts are about the printed model: keep them satisfiable
    text, meta = scriptgen.gen_script(rng, logic=logic, options=opts, produce_models=mode in ("model", "value", "model+value", "dump", "assignment"),
                                      nassert=nassert, named=named, queries=queries, depth=rng.randint(1, 2), divmod=False)
    lines = text.strip().split("\n")
    if mode == "assignment" and rng.random() < 0.25:
        # no named term at all
        lines = [re.sub(r"^\(assert \(! (.*) :named n\d+\)\)$", r"(assert \1)", l) for l in lines]
    if mode in ("core", "fullcore", "itp"):
        # make it unsatisfiable: the negation of one of the assertions, every assertion named
        k = 0
        out = []
        asserts = []
        for l in lines:
            m = re.match(r"^\(assert (.*)\)$", l)
            if m:
                body = m.group(1)
                mm = re.match(r"^\(! (.*) :named (n\d+)\)$", body)
                if mm:
                    body = mm.group(1)
                k += 1
                asserts.append(body)
                out.append("(assert (! %s :named n%d))" % (body, k))
            elif l == "(check-sat)":
                victim = rng.choice(asserts)
                k += 1
                out.append("(assert (! (not %s) :named n%d))" % (victim, k))
                out.append(l)
                if mode == "itp":
                    cut = rng.randint(1, k - 1)
                    a = ["n%d" % j for j in range(1, cut + 1)]
                    b = ["n%d" % j for j in range(cut + 1, k + 1)]
                    fa = a[0] if len(a) == 1 else "(and %s)" % " ".join(a)
                    fb = b[0] if len(b) == 1 else "(and %s)" % " ".join(b)
                    out.append("(get-interpolants %s %s)" % (fa, fb))
                    c.partition = (a, b)
                else:
                    out.append("(get-unsat-core)")
            else:
                out.append(l)
        lines = out
    if mode == "value+as":
        pass
    c.plain = "\n".join(lines) + "\n"
    c.ren = make_renaming(rng, c.plain, logic, profile)
    if mode in ("value", "model+value") and rng.random() < 0.3:
        # a qualified constant in the request
        funs, _, _, _ = N2.plain_symbols(c.plain)
        sc = smtlib.Script(c.plain)
        sc.run()
        consts = [f for f in funs if f in sc.sig.funs and not sc.sig.funs[f][0]]
        if consts:
            f = rng.choice(consts)
            s = sc.sig.funs[f][1]
            sname = {"B": "Bool", "I": "Int", "R": "Real"}.get(s) if isinstance(s, str) else "U"
            c.plain = re.sub(r"\(get-value \(", "(get-value ((as %s %s) " % (f, sname), c.plain, count=1)
    return c


def run_concrete(c, M, extra_opts=()):
    text, cmds, conc = N2.rename_text(c.plain, c.ren, M)
    c.conc = conc
    if extra_opts:
        text = "".join("(set-option %s)\n" % o for o in extra_opts) + text
    rc, out, err = run_osmt(text, timeout=30)
    segs, rest = N2.split_segments(out, len(cmds))
    return text, cmds, rc, out, segs


def names_causes(M, c, text):
    """causes (by name) that could explain a printed text that does not read back"""
    out = []
    for nm in list(c.ren.fun.values()) + list(c.ren.label.values()):
        p, rs, ro = M.protect(nm, "f")
        cause = name_cause(nm, p, rs, ro)
        if cause and (p == "" or p in text):
            out.append(cause)
    return sorted(set(out))


def classify(M, c, artefact, text, extra=None):
    if extra in ("renamed-fn-name-unquoted", "valued-fn-name-unquoted"):
        return "%s:%s" % (artefact, extra)      # evidence in the text itself: not to be attributed to anything else
    cs = names_causes(M, c, text)
    if cs and cs[0] != "unexplained":
        return "%s:%s" % (artefact, cs[0])
    if artefact == "model" and extra == "not-readable-by-opensmt":
        m = re.findall(r"\(as ([^ ()|]+|\|[^|]*\|) ", text)
        params = set(re.findall(r"\(\(?([xyr]!?\d+) ", text))
        if any(x in params for x in m):
            return "model:parameter-qualified"
    if artefact == "dump-query" and any(re.match(r"^\?def\d+$", nm) for nm in c.ren.fun.values()) and "(let ((?def" in text:
        return "dump-query:let-name-capture"
    if any(nm.startswith("@") and ("(as %s " % nm) in text for nm in c.ren.fun.values()):
        return "%s:abstract-prefix-user-symbol" % artefact
    if any(M.quote(s) != s and s in text for s in c.ren.sort.values()):
        return "%s:sort-name-unquoted" % artefact
    if extra:
        return "%s:%s" % (artefact, extra)
    return "%s:unexplained" % artefact


def plain_state(c):
    sc = smtlib.Script(c.plain)
    qs = sc.run()
    return sc, qs


def raw_fn_name_cause(M, c, seg):
    """a function definition printed with its raw name although the name needs bars: which printing path was it?
    The known defect is the default definition of Model::getDefinition (a function without valuation: parameters as
    created, a constant body).  A definition that went through the clash renaming (parameters x!k / y!k) or has a
    case-split body took another path: not the known defect."""
    for nm in c.ren.fun.values():
        if M.quote(nm) == nm or M.protect(nm, "f")[0] == nm:
            continue
        k = seg.find("(define-fun %s (" % nm)
        if k < 0:
            continue
        rest = seg[k + len("(define-fun %s (" % nm):]
        header, _, body = rest.partition("\n")
        body = body.split("\n  (define-fun ")[0]
        if re.search(r"\((?:x|y)!\d+ ", header):
            return "renamed-fn-name-unquoted"
        if "(ite " in body:
            return "valued-fn-name-unquoted"
        return "default-fn-name-unquoted"
    return None


def check_model(ctx, M, c, seg, frames, sig, concrete_text, idx):
    """seg: the text printed for (get-model)"""
    art = "model"
    replay = dict(script=concrete_text, printed=seg, plain=c.plain)
    inv = c.ren.inverse()
    user_names = set(c.ren.fun.values())
    for cfgk in ("s", "o"):
        st, got = M.read(seg, cfgk)
        if st != "ok" or len(got) != 1 or not isinstance(got[0], list):
            ctx.violation(classify(M, c, art, seg, raw_fn_name_cause(M, c, seg)),
                          "the printed model is not an s-expression (%s reader: %s): %r" % ("SMT-LIB" if cfgk == "s" else "opensmt", st, seg[:300]), replay)
            return None
    st, got = M.read(seg, "s")
    defs = got[0]
    plain_defs = []
    seen = []
    clash = None
    for d in defs:
        ok = isinstance(d, list) and len(d) == 5 and d[0] == ("r", "define-fun") and isinstance(d[1], tuple) and d[1][0] == "y" and isinstance(d[2], list)
        if ok:
            ks = [p for (k, p) in inv.get(d[1][1], []) if k == "fun"]
            ok = bool(ks)
        if not ok:
            ctx.violation(classify(M, c, art, seg, raw_fn_name_cause(M, c, seg)),
                          "an entry of the printed model is not the definition of a declared symbol: %s" % N2.wire_str(d)[:300], replay)
            return None
        pname = ks[0]
        seen.append(pname)
        bound = {}
        params = []
        try:
            for j, p in enumerate(d[2]):
                if not (isinstance(p, list) and len(p) == 2 and isinstance(p[0], tuple) and p[0][0] == "y"):
                    raise N2.Unmapped("parameter", N2.wire_str(p))
                if p[0][1] in user_names:
                    clash = (p[0][1], d[1][1], p[1])
                bound[p[0][1]] = "prm%d" % j
                params.append(["prm%d" % j, N2.to_plain(p[1], inv, sort_pos=True)])
            rs = N2.to_plain(d[3], inv, sort_pos=True)
            body = N2.to_plain(d[4], inv, bound)
        except N2.Unmapped as e:
            ctx.violation(classify(M, c, art, seg), "the printed model mentions %s" % e, replay)
            return None
        plain_defs.append(["define-fun", pname, params, rs, body])
    declared = [f for f in sig.funs]
    if sorted(seen) != sorted(declared):
        ctx.violation(classify(M, c, art, seg, raw_fn_name_cause(M, c, seg)), "the printed model defines %s, declared are %s" % (sorted(seen), sorted(declared)), replay)
        return None
    if clash:
        # NameClashResolver renames a parameter that *is* one of the user's constants (same name, same sort); what it
        # does not see (the known defect) are user symbols of that name with another sort or arity
        same = False
        try:
            pl = [p_ for (k_, p_) in inv.get(clash[0], []) if k_ == "fun"]
            if pl and not sig.funs[pl[0]][0]:
                same = sig.funs[pl[0]][1] == sig.sort_of_sx(N2.to_plain(clash[2], inv, sort_pos=True))
        except Exception:
            same = False
        sample("model:formal-arg-clash", dict(case="get-model", script=concrete_text, printed=seg, parameter=clash[0], of=clash[1]))
        ctx.violation("model:formal-arg-clash-same-sort" if same else "model:formal-arg-clash", "the definition of %r printed by get-model has the formal parameter %r, which is the name of a "
                      "declared symbol" % (clash[1], clash[0]), replay)
    # semantic: the plain image of the printed model satisfies the plain assertions (verified evaluator)
    asserts = [solvercheck.strip_named(a) for a in solvercheck.active_assertions(frames)]
    ev = evaluate(sig, plain_defs, asserts)
    if "error" in ev or not ev.get("ok"):
        # is it the naming?  compare with the model opensmt prints for the plain script
        rc, res, out, err = solvercheck.run_aligned(c.plain)
        pm = [a for (k, _, _, _, a) in res if k == "get-model"]
        ev2 = evaluate(sig, pm[0], asserts) if pm and isinstance(pm[0], list) else dict(error="no plain model")
        if "error" not in ev2 and ev2.get("ok"):
            ctx.violation(classify(M, c, "model", seg, "reads-back-different") if "error" in ev else "model:reads-back-different",
                          "the model printed for the renamed script, read back and mapped to plain names, does not satisfy "
                          "the assertions (%s) although the model of the plain script does" % (ev.get("error") or ev.get("asserts")), replay)
        else:
            ctx.count("uncovered:model-invalid-also-on-plain-names")
        return None
    return plain_defs


def abstract_values(seg_wire, acc):
    if isinstance(seg_wire, list):
        if len(seg_wire) == 3 and seg_wire[0] == ("r", "as") and isinstance(seg_wire[1], tuple) and seg_wire[1][1].startswith("@") and isinstance(seg_wire[2], tuple):
            acc.add((seg_wire[1][1], seg_wire[2][1]))
        for x in seg_wire:
            abstract_values(x, acc)


def decl_prelude(c, M, concrete_text, with_funs=True):
    """the declarations of the concrete script (sorts always; functions on request), one text per command"""
    return [txt for (h, txt) in c.conc if h == "declare-sort" or (with_funs and h in ("declare-fun", "declare-const"))]


def concrete_asserts(c):
    return [txt for (h, txt) in c.conc if h == "assert"]


def reread_with_tools(ctx, M, c, art, concrete_text, body_lines, expect, replay, absvals=()):
    """feed declarations + printed text to opensmt, z3, cvc5; expect: 'sat' | 'unsat' | None (no error only)"""
    logic = c.logic
    abs_decl = ["(declare-fun %s () %s)" % (a, M.quote(s)) for (a, s) in sorted(absvals)]
    if len(abs_decl) > 1:
        by = {}
        for (a, s) in sorted(absvals):
            by.setdefault(s, []).append("(as %s %s)" % (a, M.quote(s)))
        for s, l in by.items():
            if len(l) > 1:
                abs_decl.append("(assert (distinct %s))" % " ".join(l))
    script = ["(set-logic %s)" % logic] + body_lines(abs_decl) + ["(check-sat)"]
    text = "\n".join(script) + "\n"
    rc, out, err = run_osmt(text, timeout=30)
    ans = out.strip().split("\n")[-1] if out.strip() else ""
    if rc == -9:
        ctx.count("uncovered:timeout")
        return True
    if "(error" in out or rc != 0 or (expect and ans != expect):
        ctx.violation(classify(M, c, art, text, "not-readable-by-opensmt"), "opensmt does not accept what it printed (%s): %s" % (art, out.strip()[:300]),
                      dict(replay, reread_script=text, reread_output=out))
        return False
    # The foreign readers are supplementary evidence (the deciding reader is the Coq-extracted one): a rejection by one tool that
    # another applicable tool does not share is that tool's own quirk (z3 4.8.12 reads the quoted symbol |as| in a define-fun as the
    # keyword `as`), counted but not reported.
    rejected, accepted = [], []
    for tool in ("z3", "cvc5"):
        base = baseline_ok(c, M, tool, concrete_text, abs_decl)
        if not base:
            ctx.count("foreign:%s:n/a(input names not accepted)" % tool)
            continue
        rc2, out2 = run_ref(tool, text, timeout=20)
        ans2 = out2.strip().split("\n")[-1] if out2.strip() else ""
        ctx.count("foreign:%s:checked" % tool)
        if "error" in out2.lower() or (expect and ans2 in ("sat", "unsat") and ans2 != expect):
            rejected.append((tool, out2))
        else:
            accepted.append(tool)
    if rejected and accepted:
        for tool, out2 in rejected:
            ctx.count("foreign:%s:reject-not-shared-by-%s(tool quirk)" % (tool, "+".join(accepted)))
        return True
    for tool, out2 in rejected[:1]:
        ctx.violation(classify(M, c, art, text, "foreign-reject") + ":" + tool, "%s accepts the script's declarations and assertions but not what opensmt printed (%s): %s"
                      % (tool, art, out2.strip()[:300]), dict(replay, reread_script=text, reread_output=out2))
        return False
    return True


def baseline_ok(c, M, tool, concrete_text, abs_decl):
    if not hasattr(c, "_base"):
        c._base = {}
    _BASE = c._base
    k = (tool, tuple(abs_decl))
    if k not in _BASE:
        lines = ["(set-logic %s)" % c.logic] + [txt for (h, txt) in c.conc if h.startswith("declare-") or h == "assert"]
        # the abstract values are declared after the sorts
        out = []
        done = False
        for l in lines:
            if not done and l.startswith("(assert"):
                out += list(abs_decl)
                done = True
            out.append(l)
        if not done:
            out += list(abs_decl)
        out.append("(check-sat)")
        rc, o = run_ref(tool, "\n".join(out) + "\n", timeout=20)
        _BASE[k] = "error" not in o.lower() and rc == 0
    return _BASE[k]


def seg_inner_lines(seg):
    s = seg.strip()
    return s


def corpus_cases(M):
    out = []
    for p in sorted(glob.glob(os.path.join(vlib.VERIF, "corpus", "C17", "s*.json"))):
        d = json.load(open(p))
        c = ScriptCase()
        c.mode, c.profile, c.logic, c.plain = d["mode"], "corpus:" + os.path.basename(p)[:-5], d["logic"], d["plain"]
        c.ren = N2.Renaming()
        funs, sorts, labels, lets = N2.plain_symbols(c.plain)
        r = d.get("ren", {})
        for f in funs:
            c.ren.fun[f] = r.get("fun", {}).get(f, f)
        for s in sorts:
            c.ren.sort[s] = r.get("sort", {}).get(s, s)
        for l in labels:
            c.ren.label[l] = r.get("label", {}).get(l, l)
        for v in lets:
            c.ren.letvar[v] = r.get("letvar", {}).get(v, v)
        if d.get("partition"):
            c.partition = tuple(d["partition"])
        out.append(c)
    return out


def part_scripts(ctx, M, H):
    rng = ctx.rng
    for c in corpus_cases(M):
        script_case(ctx, M, c)
    modes = ["model", "model+value", "value", "assignment", "core", "fullcore", "itp", "dump"]
    profiles = ["good"] * 4 + ["pool"] * 4 + ["bad-name", "sort-name", "label-name", "clash", "clash"]
    # printed models over the pooled names (function definitions with difficult names beside constants that are called
    # like formal parameters): a share of their own, the renaming path of get-model is reached only by such scripts
    for it in range(20 if ctx.quick else 200):
        try:
            c = gen_case(rng, M, rng.choice(["model", "model+value"]), "pool")
            script_case(ctx, M, c)
        except smtlib.ParseError as e:
            ctx.note("glue could not interpret a generated script (pool): %s" % e)
    n = 72 if ctx.quick else 700
    for it in range(n):
        mode = modes[it % len(modes)] if it < 6 * len(modes) else rng.choice(modes)
        profile = rng.choice(profiles)
        try:
            c = gen_case(rng, M, mode, profile)
        except smtlib.ParseError:
            continue
        try:
            script_case(ctx, M, c)
        except smtlib.ParseError as e:
            ctx.note("glue could not interpret a generated script (%s): %s" % (mode, e))


def script_case(ctx, M, c):
    mode = c.mode
    extra = []
    dump_base = None
    if mode == "dump":
        dump_base = os.path.join(vlib.BUILD, "tmp", "c17dq_%d_%d" % (os.getpid(), ctx.rng.getrandbits(30)))
        os.makedirs(os.path.dirname(dump_base), exist_ok=True)
        extra = [":dump-query true", ':dump-query-name "%s"' % dump_base]
    concrete, cmds, rc, out, segs = run_concrete(c, M, extra)
    sc, qs = plain_state(c)
    ctx.case(key=concrete, nontrivial=True, kind="script:%s:%s:%s" % (mode, c.profile, c.logic))
    replay0 = dict(script=concrete, plain=c.plain, output=out)
    # answers per command
    qmap = {idx: (k, cmd, frames, sig) for (k, idx, cmd, frames, sig) in qs}
    status = None
    dead = False
    for idx, cmd in enumerate(cmds):
        if not isinstance(cmd, list) or not cmd:
            continue
        seg = segs[idx] if idx < len(segs) else None
        h = cmd[0]
        if seg is None:
            if not dead:
                dead = True
                if h == "get-value":
                    check_value_dead(ctx, M, c, cmd, concrete, out)
                elif h == "get-assignment" and idx in qmap:
                    check_assignment_dead(ctx, M, c, qmap[idx][2], concrete, out)
                else:
                    ctx.violation("%s:output-lost" % h, "no output marker after command %d (%s): standard output stopped" % (idx, h), replay0)
            continue
        if h == "check-sat":
            status = seg.strip()
            continue
        if "(error" in seg and h in ("declare-fun", "declare-sort", "assert", "set-option", "set-logic", "declare-const"):
            ctx.count("uncovered:input-rejected")
            ctx.note("opensmt rejected an input command of a generated script: %s -> %s" % (smtlib.sx_str(cmd)[:80], seg.strip()[:120]))
            return
        if idx not in qmap:
            continue
        k, _, frames, sig = qmap[idx]
        if h == "get-model":
            if status != "sat":
                ctx.count("uncovered:not-sat")
                continue
            pm = check_model(ctx, M, c, seg, frames, sig, concrete, idx)
            if pm is not None:
                ctx.count("model:read-back-and-satisfies")
                sample("script:model", dict(case="get-model over adversarial names", script=concrete, printed=seg, satisfies_assertions=True))
                st, got = M.read(seg, "s")
                av = set()
                abstract_values(got, av)
                inner = seg.strip()
                inner = inner[1:-1] if inner.startswith("(") and inner.endswith(")") else inner
                asserts = concrete_asserts(c)

                def body(abs_decl, inner=inner, asserts=asserts):
                    return decl_prelude(c, M, concrete, with_funs=False) + abs_decl + [inner] + asserts
                reread_with_tools(ctx, M, c, "model", concrete, body, "sat", dict(replay0, printed=seg), av)
        elif h == "get-value":
            if status != "sat":
                ctx.count("uncovered:not-sat")
                continue
            dead = check_value(ctx, M, c, seg, cmd, idx, segs, concrete, out) or dead
        elif h == "get-assignment":
            if status != "sat":
                ctx.count("uncovered:not-sat")
                continue
            dead = check_assignment(ctx, M, c, seg, frames, idx, segs, concrete, out) or dead
        elif h == "get-unsat-core":
            if status != "unsat":
                ctx.count("uncovered:not-unsat")
                continue
            check_core(ctx, M, c, seg, frames, sig, concrete, out)
        elif h == "get-interpolants":
            if status != "unsat":
                ctx.count("uncovered:not-unsat")
                continue
            check_itp(ctx, M, c, seg, frames, sig, concrete, out)
    if mode == "dump":
        check_dumps(ctx, M, c, dump_base, qs, concrete, out)


# ---- get-value
def check_value(ctx, M, c, seg, cmd, idx, segs, concrete, out):
    """returns True when standard output died in this command"""
    replay = dict(script=concrete, printed=seg, output=out)
    terms = cmd[1]
    errs = re.findall(r'^\(error "([^"]*)"\)\n', seg, re.M)
    if errs:
        amb = [e for e in errs if e.startswith("Ambiguous symbol")]
        had_model = any(h == "get-model" for (h, _) in c.conc)
        ambname = re.match(r"Ambiguous symbol: `(.*)'$", amb[0]).group(1) if amb and re.match(r"Ambiguous symbol: `(.*)'$", amb[0]) else None
        if ambname is not None and ambname.startswith("@") and ambname in c.ren.fun.values():
            # not a formal parameter: the user's symbol @d<k> / @<k> is a homonym of an abstract value the logic creates itself
            # (the default value of an uninterpreted sort exists from declare-sort on), with or without a get-model before
            sample("get-value:abstract-prefix-user-symbol", dict(case="get-value over a user symbol @x", script=concrete, output=out))
            ctx.violation("get-value:abstract-prefix-user-symbol", "get-value is refused with %r: the declared symbol %r is called like an abstract value "
                          "the solver creates itself (another sort), OpenSMT accepted its declaration" % (amb[0], ambname), replay)
        elif amb and had_model:
            sample("model:formal-arg-clash", dict(case="get-value after get-model", script=concrete, output=out))
            ctx.violation("model:formal-arg-clash", "after get-model a later get-value is refused with %r: get-model created a formal parameter that carries the name "
                          "of a declared symbol (different sort), the symbol became ambiguous" % amb[0], replay)
        else:
            ctx.violation(classify(M, c, "get-value", seg, "request-refused"), "get-value refused a well-sorted request: %r" % errs[0], replay)
        return False
    specs = [ast_spec(t, c.ren) for t in terms]
    pred = {}
    for v in ("f", "r"):
        pred[v] = []
        for s in specs:
            w = M.proc.ask("E %s %s" % (v, s)).split(" ", 2)
            pred[v].append((un(w[0]), w[1] == "1", N2.parse_wire(w[2])[0]))
    lost = idx + 1 < len(segs) and segs[idx + 1] is None and seg is not None and False
    # tie: the echo is the model's text
    def pattern(v):
        pat = r"^\("
        for (e, dead, _) in pred[v]:
            if dead:
                return pat + re.escape("(" + e) + r"$", True
            pat += re.escape("(" + e + " ") + r"(.*?)\)"
        return pat + r"\)\n$", False
    variant = None
    for v in ("f", "r"):
        pat, dead = pattern(v)
        if re.match(pat, seg, re.S):
            variant = v
            break
    if variant is None:
        # when the stream died the marker is lost too: the segment is None and we never get here; a died stream shows as
        # a missing marker, handled by the caller through seg None.
        ctx.tie_broken("get-value-echo-correspondence", "get-value printed %r; faithful model expects the echoes %r" % (seg[:300], [p[0] for p in pred["f"]]), replay)
    elif variant == "r" and pred["f"] != pred["r"]:
        ctx.note("get-value echo: repaired variant observed")
    # judgement
    st, got = M.read(seg, "s")
    want = [p[2] for p in pred["f"]]
    okv = st == "ok" and len(got) == 1 and isinstance(got[0], list) and len(got[0]) == len(want) and \
        all(isinstance(pr, list) and len(pr) == 2 and N2.wire_str(pr[0]) == N2.wire_str(w) for pr, w in zip(got[0], want))
    if okv:
        ctx.count("get-value:echo-reads-back")
        return False
    differs = any(a[0] != b[0] for a, b in zip(pred["f"], pred["r"]))
    glued = any(isinstance(t, list) and t and t[0] == "!" for t in terms)
    sig = "get-value:echo-unquoted" if differs else classify(M, c, "get-value", seg)
    sample("get-value:echo", dict(case="get-value", request=smtlib.sx_str(cmd), printed=seg))
    ctx.violation(sig, "the answer of get-value does not read back as (request value) pairs for the requested terms: %r" % seg[:300], replay)
    return False


def check_value_dead(ctx, M, c, cmd, concrete, out):
    terms = cmd[1]
    specs = [ast_spec(t, c.ren) for t in terms]
    deadpred = False
    for s in specs:
        w = M.proc.ask("E f %s" % s).split(" ", 2)
        if w[1] == "1":
            deadpred = True
    replay = dict(script=concrete, output=out)
    if not deadpred:
        ctx.tie_broken("get-value-echo-correspondence", "standard output stopped inside get-value although the model predicts a complete answer", replay)
    sample("get-value:as-term", dict(case="get-value with (as c S)", script=concrete, output=out))
    ctx.violation("get-value:as-term-null-stream", "get-value of a qualified identifier (as c S): printAstTermNode streams a null pointer, standard output goes bad and "
                  "every later answer is lost (exit status 0): output ends with %r" % out[-60:], replay)


# ---- get-assignment
def check_assignment(ctx, M, c, seg, frames, idx, segs, concrete, out):
    replay = dict(script=concrete, printed=seg, output=out)
    labels = []
    for f in frames:
        for (t, name) in f:
            if name is not None:
                labels.append(c.ren.label.get(name, name))
    req = "G %%s %d %s" % (len(labels), " ".join("%s %s" % (hx(l), hx("VALUE")) for l in labels))
    pf = M.proc.ask(req % "f").split(" ")
    pr = M.proc.ask(req % "r").split(" ")
    variant = None
    for v, p in (("f", pf), ("r", pr)):
        if p[0] != "OK":
            continue
        pat = "^" + re.escape(un(p[1])).replace("VALUE", "(true|false|unknown)") + r"\n$"
        if re.match(pat, seg, re.S):
            variant = v
            break
    if variant is None and pf[0] == "OK":
        ctx.tie_broken("get-assignment-correspondence", "get-assignment printed %r, the model %r" % (seg[:200], un(pf[1])[:200]), replay)
    st, got = M.read(seg, "s")
    ok = st == "ok" and len(got) == 1 and isinstance(got[0], list) and len(got[0]) == len(labels) and \
        all(isinstance(p, list) and len(p) == 2 and p[0] == ("y", l) and p[1] in (("y", "true"), ("y", "false")) for p, l in zip(got[0], labels))
    if ok:
        ctx.count("get-assignment:reads-back")
        return False
    if st == "ok" and len(got) == 1 and isinstance(got[0], list) and any(isinstance(p, list) and len(p) == 2 and p[1] == ("y", "unknown") for p in got[0]) \
            and all(isinstance(p, list) and len(p) == 2 and p[0] == ("y", l) for p, l in zip(got[0], labels)) and len(got[0]) == len(labels):
        sig = "get-assignment:unknown-value"
    elif not labels:
        sig = "get-assignment:stray-paren"
    elif any("%" in l for l in labels):
        sig = "get-assignment:format-string"
    elif any(M.quote(l) != l for l in labels):
        sig = "get-assignment:name-unquoted"
    else:
        sig = classify(M, c, "get-assignment", seg)
    sample(sig, dict(case="get-assignment", labels=labels, printed=seg))
    ctx.violation(sig, "get-assignment printed %r which does not read back as the list of (label value) pairs for %r" % (seg[:200], labels), replay)
    return False


def check_assignment_dead(ctx, M, c, frames, concrete, out):
    labels = [c.ren.label.get(n, n) for f in frames for (_, n) in f if n is not None]
    pf = M.proc.ask("G f %d %s" % (len(labels), " ".join("%s %s" % (hx(l), hx("true")) for l in labels))).split(" ")
    replay = dict(script=concrete, output=out)
    if pf[0] != "UB":
        ctx.tie_broken("get-assignment-correspondence", "standard output stopped inside get-assignment although the model predicts a complete answer", replay)
    sample("get-assignment:format-string", dict(case="get-assignment with % in a label", labels=labels, output=out))
    ctx.violation("get-assignment:format-string", "get-assignment passes the assembled text to notify_formatted as the FORMAT: the labels %r contain %%s / %%d / a trailing %%; "
                  "a missing variadic argument is read, standard output goes bad and every later answer is lost: output ends with %r" % (labels, out[-60:]), replay)


def z3_batch(c, sig_decls, queries):
    """one z3 process for several satisfiability questions (each a list of plain formulas): list of 'sat'|'unsat'|'unknown'"""
    lines = ["(set-logic %s)" % c.logic] + sig_decls
    for q in queries:
        lines.append("(push 1)")
        lines += ["(assert %s)" % smtlib.sx_str(f) for f in q]
        lines += ["(check-sat)", "(pop 1)"]
    rc, out = run_ref("z3", "\n".join(lines) + "\n", timeout=30)
    res = [l.strip() for l in out.split("\n") if l.strip() in ("sat", "unsat", "unknown")]
    errs = "error" in out.lower()
    if errs or len(res) != len(queries):
        return ["unknown"] * len(queries)
    return res


# ---- unsat cores
def z3_equiv(c, sig_decls, a, b):
    """plain formulas a, b equivalent? (z3, untrusted: used to find a failing case, a 'no' is reported as violation with both texts)"""
    lines = ["(set-logic %s)" % c.logic] + sig_decls + ["(assert (distinct %s %s))" % (smtlib.sx_str(a), smtlib.sx_str(b)), "(check-sat)"]
    rc, out = run_ref("z3", "\n".join(lines) + "\n", timeout=20)
    return out.strip().split("\n")[0] if out.strip() else "unknown"


def check_core(ctx, M, c, seg, frames, sig, concrete, out):
    replay = dict(script=concrete, printed=seg, output=out)
    inv = c.ren.inverse()
    named = [(t, n) for f in frames for (t, n) in f]
    labels = [c.ren.label.get(n, n) for (_, n) in named if n]
    full = ":print-cores-full true" in c.plain
    st, got = M.read(seg, "s")
    if not full:
        # tie: the body is a sequence of raw label lines
        body = seg
        okshape = body.startswith("(\n") and body.endswith(")\n")
        items = None
        if okshape:
            rest = body[2:-2]
            items = []
            while rest:
                for l in sorted(labels, key=len, reverse=True):
                    for spelled in (l, M.protect(l, "r")[0]):
                        if rest.startswith(spelled + "\n"):
                            items.append((l, spelled))
                            rest = rest[len(spelled) + 1:]
                            break
                    else:
                        continue
                    break
                else:
                    items = None
                    break
        if items is None:
            ctx.tie_broken("unsat-core-correspondence", "get-unsat-core printed %r: not a sequence of label lines" % seg[:200], replay)
        elif items:
            raw = "".join(s + "\n" for (_, s) in items)
            pf = un(M.proc.ask("C f %d %s" % (len(items), " ".join(hx(l) for (l, _) in items))))
            pr = un(M.proc.ask("C r %d %s" % (len(items), " ".join(hx(l) for (l, _) in items))))
            if seg.rstrip("\n") not in (pf, pr):
                ctx.tie_broken("unsat-core-correspondence", "get-unsat-core printed %r, the model %r" % (seg[:200], pf[:200]), replay)
        ok = st == "ok" and len(got) == 1 and isinstance(got[0], list) and all(isinstance(x, tuple) and x[0] == "y" and x[1] in labels for x in got[0])
        if ok:
            ctx.count("unsat-core:reads-back")
            return
        sig_ = "unsat-core:name-unquoted" if any(M.quote(l) != l for l in labels) else classify(M, c, "unsat-core", seg)
        sample(sig_, dict(case="get-unsat-core", labels=labels, printed=seg))
        ctx.violation(sig_, "get-unsat-core printed %r which does not read back as a list of the labels %r" % (seg[:200], labels), replay)
        return
    # full cores: every printed term reads back as a formula equivalent to one of the assertions
    if st != "ok" or len(got) != 1 or not isinstance(got[0], list):
        ctx.violation(classify(M, c, "full-core", seg), "the full unsat core is not an s-expression: %r" % seg[:300], replay)
        return
    decls = solvercheck.decl_lines(c.plain)
    asserts = [solvercheck.strip_named(t) for (t, _) in named]
    for e in got[0]:
        try:
            pt = N2.to_plain(e, inv)
        except N2.Unmapped as ex:
            if ex.what == "symbol" and re.match(r"^\.(ite|purify|frame)", ex.name):
                sample("full-core:internal-symbol", dict(case="full unsat core", script=concrete, printed=seg))
                ctx.violation("full-core:internal-symbol", "the full unsat core contains the internal auxiliary symbol %r, which no reader knows: %r" % (ex.name, seg[:300]), replay)
            else:
                ctx.violation(classify(M, c, "full-core", seg), "the full unsat core mentions %s" % ex, replay)
            return
        verdicts = z3_batch(c, decls, [[["distinct", pt, a]] for a in asserts])
        if "unsat" not in verdicts:
            if all(v == "sat" for v in verdicts):
                ctx.violation(classify(M, c, "full-core", seg, "reads-back-different"), "a term of the full unsat core, read back, is equivalent to none of the assertions: %s" % smtlib.sx_str(pt)[:300], replay)
            else:
                ctx.count("uncovered:z3-undecided-or-rejected")
            return
    ctx.count("full-core:reads-back-equivalent")
    sample("script:full-core", dict(case="full unsat core over adversarial names", script=concrete, printed=seg, each_term_equivalent_to_an_assertion=True))
    lines = [l for l in seg.strip().split("\n")[1:-1]]
    inner = seg.strip()[1:-1]

    def body(abs_decl):
        return decl_prelude(c, M, concrete) + abs_decl + ["(assert (and true\n%s\n))" % inner]
    reread_with_tools(ctx, M, c, "full-core", concrete, body, "unsat", replay)


# ---- interpolants
def check_itp(ctx, M, c, seg, frames, sig, concrete, out):
    replay = dict(script=concrete, printed=seg, output=out)
    if "(error" in seg:
        ctx.count("uncovered:interpolation-refused")
        return
    inv = c.ren.inverse()
    st, got = M.read(seg, "s")
    st2, got2 = M.read(seg, "o")
    if st != "ok" or st2 != "ok" or len(got) != 1 or not isinstance(got[0], list) or len(got[0]) != 1:
        ctx.violation(classify(M, c, "interpolant", seg), "the answer of get-interpolants is not a list of one term: %r" % seg[:300], replay)
        return
    try:
        itp = N2.to_plain(got[0][0], inv)
        itp2 = N2.to_plain(got2[0][0], inv)
    except N2.Unmapped as ex:
        ctx.violation(classify(M, c, "interpolant", seg), "the interpolant mentions %s" % ex, replay)
        return
    if itp != itp2:
        ctx.violation(classify(M, c, "interpolant", seg), "the interpolant reads differently under opensmt's lexer: %r" % seg[:300], replay)
        return
    named = {n: solvercheck.strip_named(t) for f in frames for (t, n) in f if n}
    a = ["and", "true"] + [named[n] for n in c.partition[0]]
    b = ["and", "true"] + [named[n] for n in c.partition[1]]
    decls = solvercheck.decl_lines(c.plain)

    def unsat(fs):
        lines = ["(set-logic %s)" % c.logic] + decls + ["(assert %s)" % smtlib.sx_str(f) for f in fs] + ["(check-sat)"]
        rc, o = run_ref("z3", "\n".join(lines) + "\n", timeout=20)
        return o.strip().split("\n")[0] if o.strip() else "unknown"
    v1, v2 = z3_batch(c, decls, [[a, ["not", itp]], [itp, b]])
    if v1 == "unsat" and v2 == "unsat":
        ctx.count("interpolant:reads-back-valid")
        sample("script:itp", dict(case="interpolant over adversarial names", script=concrete, printed=seg, is_interpolant_after_reading=True))
        inner = seg.strip()[1:-1]

        def body(abs_decl):
            return decl_prelude(c, M, concrete) + abs_decl + ["(assert %s)" % inner]
        reread_with_tools(ctx, M, c, "interpolant", concrete, body, None, replay)
    elif "sat" in (v1, v2):
        # the same on plain names?  then it is C08's matter, not the printing
        rc, res, o, e = solvercheck.run_aligned(c.plain)
        pi = [x for (k, _, _, _, x) in res if k == "get-interpolants"]
        same = False
        if pi and isinstance(pi[0], list) and len(pi[0]) == 1:
            w1 = unsat([a, ["not", pi[0][0]]])
            w2 = unsat([pi[0][0], b])
            same = "sat" in (w1, w2)
        if same:
            ctx.count("uncovered:interpolant-wrong-also-on-plain-names")
        else:
            ctx.violation(classify(M, c, "interpolant", seg, "reads-back-different"), "the interpolant, read back, is not an interpolant (A=>I: %s, I&B: %s): %s" % (v1, v2, smtlib.sx_str(itp)[:300]), replay)
    else:
        ctx.count("uncovered:z3-undecided-or-rejected")


# ---- dumped queries
def check_dumps(ctx, M, c, base, qs, concrete, out):
    files = sorted(glob.glob(base + "-*.smt2"), key=lambda p: int(re.search(r"-(\d+)\.smt2$", p).group(1)))
    checks = [q for q in qs if q[0] == "check-sat"]
    inv = c.ren.inverse()
    try:
        for fi, path in enumerate(files):
            text = open(path, "rb").read().decode("utf-8", errors="replace")
            replay = dict(script=concrete, dumped_file=text, output=out)
            ctx.case(key=("dump", text), nontrivial=True, kind="dump-file:%s" % c.logic)
            if fi >= len(checks):
                break
            frames, sig = checks[fi][3], checks[fi][4]
            st, got = M.read(text, "s")
            st2, got2 = M.read(text, "o")
            if st != "ok" or st2 != "ok":
                ctx.violation(classify(M, c, "dump-query", text), "the dumped query is not a sequence of s-expressions: %r" % text[:300], replay)
                continue
            # command shapes
            bad = None
            extra_decl = []
            asserts = []
            for cmdw in got:
                if not isinstance(cmdw, list) or not cmdw or not isinstance(cmdw[0], tuple):
                    bad = cmdw
                    break
                h = cmdw[0][1]
                if h == "declare-const" and not (len(cmdw) == 3 and isinstance(cmdw[1], tuple)):
                    bad = cmdw
                    break
                if h in ("declare-fun",) and not (len(cmdw) == 4 and isinstance(cmdw[1], tuple) and isinstance(cmdw[2], list)):
                    bad = cmdw
                    break
                if h == "declare-sort" and not (len(cmdw) == 3 and isinstance(cmdw[1], tuple) and isinstance(cmdw[2], tuple) and cmdw[2][0] == "n"):
                    bad = cmdw
                    break
                if h == "assert":
                    asserts.append(cmdw[1])
            if bad is not None:
                w = N2.wire_str(bad)
                if "declare-const" in w and "r:as" in w:
                    sg = "dump-query:abstract-default-declared"
                else:
                    sg = classify(M, c, "dump-query", text)
                sample(sg, dict(case=":dump-query", script=concrete, dumped_file=text))
                ctx.violation(sg, "the dumped query contains a malformed command: %s" % w[:200], replay)
                continue
            # opensmt reads its own dump and answers the same
            want = None
            rc, o, e = run_osmt(text, timeout=30)
            if rc == -9:
                ctx.count("uncovered:timeout")
                continue
            ans = [l for l in o.strip().split("\n") if l in ("sat", "unsat", "unknown")]
            orig = [l.strip() for l in out.split("\n") if l.strip() in ("sat", "unsat", "unknown")]
            if "(error" in o or rc != 0 or not ans or (fi < len(orig) and ans[0] != orig[fi]):
                ctx.violation(classify(M, c, "dump-query", text, "not-readable-by-opensmt"), "opensmt on its own dumped query: %s (the original answer was %s)" %
                              (o.strip()[:200], orig[fi] if fi < len(orig) else "?"), dict(replay, reread_output=o))
                continue
            # semantic: the dumped assertions are equivalent to the active assertions
            try:
                dumped = []
                internal = set()
                for a in asserts:
                    collect_internal(a, internal)
                inv2 = dict(inv)
                for nm in internal:
                    inv2.setdefault(nm, []).append(("fun", "intern_%s" % re.sub(r"\W", "_", nm)))
                for a in asserts:
                    dumped.append(N2.to_plain(a, inv2))
            except N2.Unmapped as ex:
                ctx.violation(classify(M, c, "dump-query", text), "the dumped query mentions %s" % ex, replay)
                continue
            active = [solvercheck.strip_named(t) for t in solvercheck.active_assertions(frames)]
            decls = solvercheck.decl_lines(c.plain) + ["(declare-fun intern_%s () Bool)" % re.sub(r"\W", "_", nm) for nm in sorted(internal)]
            frame_guards = [["intern_%s" % re.sub(r"\W", "_", nm)] for nm in sorted(internal)]
            v = z3_equiv(c, decls, ["and", "true"] + dumped, ["and", "true"] + active)
            if v == "unsat" or internal:
                ctx.count("dump-query:reads-back" + ("(internal symbols present: equivalence not compared)" if internal and v != "unsat" else "-equivalent"))
                sample("script:dump", dict(case=":dump-query file over adversarial names", dumped_file=text, equivalent_to_assertions=(v == "unsat")))
            elif v == "sat":
                ctx.violation(classify(M, c, "dump-query", text, "reads-back-different"), "the assertions of the dumped query, read back, are not equivalent to the active assertions", replay)
                continue
            else:
                ctx.count("uncovered:z3-undecided-or-rejected")
            # foreign readers
            for tool in ("z3", "cvc5"):
                if not baseline_ok(c, M, tool, concrete, []):
                    ctx.count("foreign:%s:n/a(input names not accepted)" % tool)
                    continue
                rc2, o2 = run_ref(tool, text, timeout=20)
                ctx.count("foreign:%s:checked" % tool)
                if "error" in o2.lower():
                    sg = "dump-query:internal-symbol-declared" if re.search(r"\(declare-fun \.[A-Za-z_0-9]+ ", text) and "reserved" in o2 else classify(M, c, "dump-query", text, "foreign-reject")
                    ctx.violation(sg + ":" + tool, "%s accepts the script but not the dumped query: %s" % (tool, o2.strip()[:200]), dict(replay, reread_output=o2))
                    break
    finally:
        for p in glob.glob(base + "-*.smt2"):
            os.remove(p)


def collect_internal(e, acc):
    if isinstance(e, list):
        for x in e:
            collect_internal(x, acc)
    elif e[0] == "y" and (e[1].startswith(".frame") or e[1].startswith(".purify") or e[1].startswith(".ite")):
        acc.add(e[1])


def run(ctx):
    exe, log = vlib.build_extracted("print")
    if not exe:
        ctx.tie_broken("extraction-print", log)
        return
    hp, hlog = vlib.compile_harness("h_print")
    if not hp:
        ctx.tie_broken("harness-h_print", hlog)
        return
    M = N2.Model(exe)
    H = N2.Proc(hp)
    try:
        part_protect(ctx, M, H)
        part_terms(ctx, M, H)
        part_definitions(ctx, M, H)
        part_scripts(ctx, M, H)
    finally:
        M.proc.close()
        H.close()
    ctx.samples = list(SAMPLES.values())[:6]
