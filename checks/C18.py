"""C18 — the executable never crashes and signals every input problem (PARTIAL: status protocol proved)."""
import glob
import json
import os
import re
import signal
import subprocess
import sys
import time

import vlib

sys.path.insert(0, os.path.join(vlib.VERIF, "harness"))
sys.path.insert(0, os.path.join(vlib.VERIF, "translate"))
sys.path.insert(0, os.path.join(vlib.VERIF, "checks"))
import pipe_feed   # noqa: E402
import smtlex      # noqa: E402

META = dict(
    title="The executable never crashes and signals every input problem",
    category="proof",
    technique="Coq proof of the status/diagnostic protocol (file mode, pipe mode, handler table) over facts regenerated "
              "from main / Interpret / yyerror + classification of real runs (grammar-based generation and mutation, file and "
              "pipe) against the extracted protocol model; crashes, aborts, sanitizer reports searched per run",
    level_text="PARTIAL. Proved (Properties_C18.v): c18_status_current_partial — the front end regenerated from the current tree (after "
               "fix 0fce10d, f4f7f0c, fe50f31) is good: no run aborts, problem <-> non-zero status <-> diagnostic; in general c18_status_partial — on every front end that turns parse failures into a "
               "non-zero status, clears the status on error responses, reports pending pipe input and lets no exception escape, no run "
               "aborts and problem <-> non-zero status <-> diagnostic; the proposed repaired front end is one; on the configuration "
               "regenerated from the unchanged tree the statement is refuted (c18_status_refuted: syntax error in a file, status 0; "
               "c18_pending_input_refuted; c18_abort_refuted + uncaught_classes). NOT proved: absence of crashes, memory errors and "
               "undefined behaviour, and which inputs make a command throw — no Gallina model exhibits them; they are searched for on "
               "every run (signals, exit status, ASan+UBSan build in the thorough tier).",
    level_note="Trusted: Coq kernel, extraction, ocaml/protocol_driver.ml, translate/protocol_flags.py (regex/token level facts of "
               "main, Interpret::interp handlers, notify_formatted, interpPipe EOF branch, osmt_yyerror), the hand-written exception "
               "hierarchy of Front/ProtocolBase.v (file:line anchored), harness/smtlex.py and the output classifier of this check.",
    design_ref="DESIGN.md §7 C18, design/C18.md",
    trusted_base=["Coq 8.16.1 kernel", "extraction: Require Import ExtrOcamlBasic ExtrOcamlString; no Extract Constant / Extract Inductive of our own",
                  "ocaml/protocol_driver.ml", "translate/protocol_flags.py", "harness/smtlex.py, harness/pipe_feed.py",
                  "classification of stdout lines into protocol events (checks/C18.py)"],
    assumptions=["memory safety / UB / termination of the solver are not modelled (observed only)"],
    coq_targets=["Extract/Extract_protocol.vo"],
    rule="stream = (a) generated scripts with adversarial layout, (b) targeted near-valid templates (wrong-mode commands, division by "
         "zero, non-linear terms, get-model in array logics, get-interpolants in unsupported logics, huge numerals, format "
         "characters in symbols, unknown symbols, ill-sorted terms), (c) files of /repo/test/regression under token-level mutation "
         "(delete / duplicate / swap tokens, parenthesis imbalance, symbol and numeral replacement, truncation, binary garbage); every "
         "input run as a file and through a pipe under a timeout; non-trivial = the run printed a diagnostic or ended abnormally; "
         "distinct = distinct input text",
)

B = lambda s: s.encode("latin-1")
SIGNAMES = {getattr(signal, n): n for n in dir(signal) if n.startswith("SIG") and not n.startswith("SIG_")}


def prepare(ctx):
    import protocol_flags
    try:
        changed, _ = protocol_flags.regenerate(vlib.REPO)
        if changed:
            ctx.note("translate/protocol_flags.py: Protocol_Gen.v changed (regenerated from the working tree)")
    except protocol_flags.TranslatorError as e:
        ctx.tie_broken("translator-protocol_flags", str(e))


# ------------------------------------------------------------------------------------------------
# running
# ------------------------------------------------------------------------------------------------

def spawn_retry(f):
    for k in range(100):
        try:
            return f()
        except (PermissionError, FileNotFoundError, OSError):
            if k == 99:
                raise
            time.sleep(0.3)


def run_file(binary, text, timeout, env=None):
    tmpd = os.path.join(vlib.BUILD, "tmp")
    os.makedirs(tmpd, exist_ok=True)
    path = os.path.join(tmpd, "c18_%d.smt2" % os.getpid())
    with open(path, "wb") as f:
        f.write(B(text))
    try:
        p = spawn_retry(lambda: subprocess.run([binary, path], stdout=subprocess.PIPE, stderr=subprocess.PIPE, timeout=timeout, env=env))
        return p.returncode, p.stdout.decode("latin-1"), p.stderr.decode("latin-1")
    except subprocess.TimeoutExpired:
        return "timeout", "", ""
    finally:
        os.remove(path)


def run_pipe(binary, text, timeout, env=None):
    r = spawn_retry(lambda: pipe_feed.feed([binary, "-p"], [B(text)], timeout=timeout, env=env))
    if r["timeout"]:
        return "timeout", "", ""
    return r["rc"], r["out"].decode("latin-1"), r["err"].decode("latin-1")


# ------------------------------------------------------------------------------------------------
# generation and mutation
# ------------------------------------------------------------------------------------------------

FORMATS = ["%s", "%s%s%s%s%s%s", "%n", "%d%d%d", "a%sb", "%%", "%5$s", "%", "x%"]
HUGE = ["99999999999999999999999999", "9223372036854775808", "18446744073709551616", "4294967296", "2147483648",
        "340282366920938463463374607431768211456", "0", "1" + "0" * 60, "9007199254740993"]
LOGICS = ["QF_UF", "QF_LRA", "QF_LIA", "QF_RDL", "QF_IDL", "QF_UFLRA", "QF_UFLIA", "QF_AX", "QF_ALIA", "QF_AUFLIA", "QF_BV", "QF_UFBV",
          "QF_LIRA", "ALL", "QF_NRA", "LRA", "UF", "QF_AUFLIRA", "QF_ALRA", "FOO", "QF_UFIDL"]


def templates(rng):
    """targeted near-valid scripts (each a list of command strings)"""
    L = rng.choice
    num = lambda: L(HUGE + ["1", "2", "7", "-3", "1/2", "0.5", "00.5", "007", "1.0", "1e3"])
    fmt = L(FORMATS)
    ari = L(["QF_LRA", "QF_LIA", "QF_RDL", "QF_IDL", "QF_UFLRA", "QF_UFLIA", "QF_LIRA", "QF_ALIA", "QF_AUFLIA", "QF_AUFLIRA"])
    srt = "Int" if "I" in ari.replace("LIRA", "I") and "LIRA" not in ari else "Real"
    if "LIRA" in ari:
        srt = L(["Int", "Real"])
    T = []
    T.append(["(set-logic %s)" % ari, "(declare-fun x () %s)" % srt, "(declare-fun y () %s)" % srt,
              "(assert (= (%s x %s) %s))" % (L(["/", "div", "mod", "*", "+", "-"]), L(["0", "y", "0.0", num(), "(- y y)"]), num()), "(check-sat)"])
    T.append(["(set-logic %s)" % ari, "(declare-fun x () %s)" % srt, "(declare-fun y () %s)" % srt,
              "(assert (%s (* x y %s) %s))" % (L(["<=", "=", "<", ">", "distinct"]), L(["", "x", "2"]), num()), "(check-sat)"])
    T.append(["(set-logic %s)" % L(["QF_IDL", "QF_RDL", "QF_UFIDL"]), "(declare-fun x () Int)", "(declare-fun y () Int)",
              "(assert (<= (- x y) %s))" % num(), "(assert (>= (- x y) %s))" % num(), "(check-sat)", L(["(get-model)", "(exit)", "(get-value (x))"])])
    arr = L(["QF_AX", "QF_ALIA", "QF_AUFLIA", "QF_AUFLIRA", "QF_ALRA", "QF_AUF"])
    T.append(["(set-option :produce-models true)", "(set-logic %s)" % arr, "(declare-sort I 0)", "(declare-sort E 0)",
              "(declare-fun a () (Array I E))", "(declare-fun i () I)", "(declare-fun e () E)",
              L(["(assert (= (select (store a i e) i) e))", "(assert (= a (store a i e)))", "(assert true)"]), "(check-sat)",
              L(["(get-model)", "(get-value (a))", "(get-value ((select a i)))", "(get-value (i))"])])
    itl = L(["QF_UFLRA", "QF_UFLIA", "QF_UF", "QF_LRA", "QF_LIA", "QF_RDL", "QF_IDL", "QF_AX", "QF_ALIA", "QF_LIRA"])
    T.append(["(set-option :produce-interpolants %s)" % L(["true", "true", "1", "false"]), "(set-logic %s)" % itl,
              "(declare-fun p () Bool)", "(declare-fun f (Bool) Bool)" if "UF" in itl else "(declare-fun q () Bool)",
              "(assert (! p :named A))", "(assert (! (not p) :named B))", "(check-sat)",
              L(["(get-interpolants A B)", "(get-interpolants A)", "(get-interpolants B A)", "(get-interpolants C D)", "(get-interpolants (and A B) A)",
                 "(get-interpolants)"])])
    T.append(["(set-logic QF_UF)", "(declare-fun p () Bool)", "(assert %s)" % L([fmt, "(not %s)" % fmt, "(f%s p)" % fmt, "(or p %s)" % fmt, "|%s|" % fmt]),
              L(["(check-sat)", "(get-value (%s))" % fmt, "(get-info :%s)" % fmt.replace("%", "pct")])])
    T.append(["(set-logic %s)" % L(LOGICS), "(declare-fun %s () Bool)" % fmt, "(declare-sort %s 0)" % fmt, "(declare-sort %s 0)" % fmt,
              "(push %s)" % L(["1", "0", "-1", num(), "a"]), "(pop %s)" % L(["1", "2", num(), "x"]), "(check-sat)"])
    T.append([L(["(get-model)", "(get-value (x))", "(check-sat)", "(assert true)", "(push 1)", "(pop 1)", "(get-unsat-core)", "(get-proof)",
                 "(get-interpolants A B)", "(declare-fun x () Bool)", "(declare-sort S 0)", "(define-fun f () Bool true)", "(simplify)",
                 "(get-assignment)", "(get-info :name)", "(get-option :foo)", "(get-assertions)", "(echo \"%s\")" % fmt]),
              "(set-logic QF_UF)", "(set-logic QF_LRA)", L(["(get-model)", "(get-value (true))", "(get-unsat-core)", "(get-proof)", "(get-assignment)"]),
              "(assert false)", "(check-sat)", L(["(get-model)", "(get-value (false))", "(get-unsat-core)", "(get-proof)", "(get-interpolants A B)"])])
    T.append(["(set-option %s %s)" % (L([":produce-models", ":produce-unsat-cores", ":produce-proofs", ":print-success", ":random-seed", ":verbosity",
                                         ":regular-output-channel", ":diagnostic-output-channel", ":foo", ":produce-interpolants", ":minimal-unsat-cores",
                                         ":print-cores-full", ":produce-assignments"]),
                                      L(["true", "false", "3", num(), "\"/nonexistent/dir/x\"", "foo", "\"%s\"" % fmt, "(a b)"])),
              "(set-info %s %s)" % (L([":status", ":source", ":smt-lib-version", ":foo"]), L(["sat", "unsat", "unknown", "foo", "|x y|", "2.6", "\"s\""])),
              "(set-logic QF_UF)", "(declare-fun p () Bool)", "(assert (! p :named n1))", "(assert (! (not p) :named %s))" % L(["n1", "n2", "p", fmt]),
              "(check-sat)", L(["(get-unsat-core)", "(get-model)", "(get-proof)", "(get-assignment)", "(get-value (n1))"])])
    T.append(["(set-logic %s)" % L(["QF_UF", "QF_LRA", "QF_LIA"]), "(declare-fun f (%s) %s)" % (L(["Bool", "Int", "Real", "Foo", ""]), L(["Bool", "Int", "Real", "Foo"])),
              "(define-fun g ((x %s)) %s %s)" % (L(["Bool", "Int", "Real"]), L(["Bool", "Int", "Real"]), L(["x", "true", "1", "(f x)", "(g x)", "(+ x 1)"])),
              "(assert %s)" % L(["(f true)", "(g 1)", "(f 1 2)", "(= (f 1) true)", "(let ((x 1)) x)", "(let ((x true) (x false)) x)", "(! true :named)",
                                 "(ite 1 2 3)", "(distinct)", "(and)", "(=)", "(forall ((x Int)) true)", "(as f Bool)", "((_ f 1) 2)", "1", "x"]),
              "(check-sat)"])
    return L(T)


def mutate(rng, text):
    """token-level mutation of a script text"""
    try:
        toks, _, _ = smtlex.tokenize(text)
    except smtlex.LexFatal:
        toks = None
    k = rng.random()
    if toks is None or len(toks) < 3 or k < 0.08:
        # byte level
        pos = rng.randrange(len(text) + 1)
        junk = rng.choice(["\x00", "\xff\xfe", "\\", "\r", "|", "\"", ")", "(", "#", ",", "[", "{}", "\x1b[0m", "\x7f", "`", "#b", "#xZ", ":", "'"])
        return text[:pos] + junk + text[pos:]
    idx = [i for i, t in enumerate(toks) if t[0] not in ("ws", "comment")]
    if not idx:
        return text + ")"
    pieces = [text[t[2]:t[3]] for t in toks]
    i = rng.choice(idx)
    if k < 0.22:
        pieces[i] = ""
        if i + 1 < len(pieces):
            pieces[i] = " "
    elif k < 0.32:
        pieces[i] = pieces[i] + " " + pieces[i]
    elif k < 0.42:
        j = rng.choice(idx)
        pieces[i], pieces[j] = pieces[j], pieces[i]
    elif k < 0.50:
        pieces[i] = rng.choice(["(", ")", "((", "))"]) + pieces[i]
    elif k < 0.56:
        cut = toks[i][2]
        return text[:cut]
    elif k < 0.75:
        kind = toks[i][0]
        if kind in ("num", "dec"):
            pieces[i] = rng.choice(HUGE + ["-1", "0.0", "1/0", "1.", ".5", "0x10", "1e9"])
        elif kind in ("sym", "qsym"):
            pieces[i] = rng.choice(["unknownsym", "Int", "Real", "Bool", "true", "and", "+", "select", "|un known|", "x" * 300] + FORMATS)
        elif kind == "kw":
            pieces[i] = rng.choice(smtlex.KEYWORDS)
        elif kind == "key":
            pieces[i] = rng.choice([":named", ":foo", ":status", ":produce-models", ":print-success"])
        elif kind == "str":
            pieces[i] = rng.choice(["\"\"", "\"a\\\"b\"", "\"" + "y" * 500 + "\"", "\"%s%s%s\"", "\"a\nb\""])
        else:
            pieces[i] = rng.choice(["(", ")", ""])
    elif k < 0.85:
        ins = rng.choice(["(get-model)", "(get-value (x))", "(pop 1)", "(push 1)", "(check-sat)", "(get-unsat-core)", "(get-proof)", "(exit)",
                          "(get-interpolants)", "(set-logic QF_UF)", "(reset)", "(get-assertions)", "(check-sat-assuming (p))", "(declare-datatypes () ())",
                          "(set-option :produce-models true)", "(get-info :all-statistics)", "(get-info :reason-unknown)", "(simplify)", "(get-assignment)"])
        cmd_starts = [t[2] for n, t in enumerate(toks) if t[0] == "("]
        pos = rng.choice(cmd_starts) if cmd_starts else 0
        return text[:pos] + ins + text[pos:]
    else:
        # change the logic
        return re.sub(r"\(set-logic\s+[A-Za-z_]+", "(set-logic " + rng.choice(LOGICS), text, count=1) if "set-logic" in text else text + "(set-logic QF_UF)"
    return "".join(pieces)


# ------------------------------------------------------------------------------------------------
# systematic families (no PRNG needed for the cross products; the PRNG only picks samples / positions)
# ------------------------------------------------------------------------------------------------

SUPPORTED_LOGICS = ["QF_UF", "QF_LRA", "QF_LIA", "QF_RDL", "QF_IDL", "QF_UFLRA", "QF_UFLIA", "QF_UFRDL", "QF_UFIDL", "QF_AX",
                    "QF_ALRA", "QF_ALIA", "QF_AUFLRA", "QF_AUFLIA", "QF_AUFLIRA", "ALL", "QF_BV", "QF_UFBV", "QF_LIRA", "QF_NRA", "QF_FOO"]
OPTIONS = [None, ":produce-models", ":produce-interpolants", ":produce-unsat-cores", ":produce-proofs", ":produce-assignments",
           ":print-success", ":minimal-unsat-cores", ":print-cores-full", ":global-declarations"]
QUERY_FOR = {":produce-models": ["(get-model)", "(get-value (p))"], ":produce-interpolants": ["(get-interpolants n1 n2)"],
             ":produce-unsat-cores": ["(get-unsat-core)"], ":produce-proofs": ["(get-proof)"], ":produce-assignments": ["(get-assignment)"],
             ":minimal-unsat-cores": ["(get-unsat-core)"], ":print-cores-full": ["(get-unsat-core)"]}


def logic_profile(lg):
    """what a normal script may use under the logic name (as the front end understands it)"""
    arith = None
    if any(x in lg for x in ("LIA", "IDL")) and "LIRA" not in lg:
        arith = "Int"
    elif any(x in lg for x in ("LRA", "RDL", "LIRA", "NRA")) or lg == "ALL":
        arith = "Real"
    uf = ("UF" in lg and "BV" not in lg) or lg in ("ALL",) or lg.startswith("QF_AUF")
    arrays = lg.startswith("QF_A") or lg == "ALL"
    sorts = lg in ("QF_UF", "QF_AX", "ALL") or uf or arrays
    return dict(arith=arith, uf=uf, arrays=arrays, sorts=sorts)


def normal_body(lg, sat=True):
    """a well-sorted command sequence for the logic: declarations, named assertions, push/pop, check-sat"""
    pr = logic_profile(lg)
    c = ["(declare-fun p () Bool)", "(declare-fun q () Bool)"]
    a = ["(assert (! (or p q) :named n1))"]
    if pr["sorts"]:
        c += ["(declare-sort U 0)", "(declare-fun a () U)", "(declare-fun b () U)"]
        a += ["(assert (= a b))"]
    if pr["uf"] and pr["sorts"]:
        c += ["(declare-fun f (U) U)"]
        a += ["(assert (= (f a) (f b)))"]
    if pr["arith"]:
        t = pr["arith"]
        c += ["(declare-fun x () %s)" % t, "(declare-fun y () %s)" % t]
        a += ["(assert (<= (- x y) 3))", "(assert (< (- y x) 2))"]
    if pr["arrays"] and pr["sorts"]:
        c += ["(declare-sort I 0)", "(declare-sort E 0)", "(declare-fun arr () (Array I E))", "(declare-fun i () I)", "(declare-fun e () E)"]
        a += ["(assert (= (select (store arr i e) i) e))"]
    a += ["(push 1)", "(assert (! (not q) :named n2))" if sat else "(assert (! (and (not p) (not q)) :named n2))", "(check-sat)"]
    return c + a


def option_logic_script(opt, lg, rng=None, val="true", query=True, again=False):
    cmds = []
    if opt:
        cmds.append("(set-option %s %s)" % (opt, val))
    cmds.append("(set-logic %s)" % lg)
    body = normal_body(lg, sat=opt not in (":produce-interpolants", ":produce-unsat-cores", ":produce-proofs", ":minimal-unsat-cores", ":print-cores-full"))
    cmds += body
    if query and opt in QUERY_FOR:
        cmds += [(rng.choice(QUERY_FOR[opt]) if rng else QUERY_FOR[opt][0])]
    cmds += ["(pop 1)", "(check-sat)"]
    if again:
        cmds += ["(set-logic %s)" % lg, "(check-sat)"]
    return "\n".join(cmds) + "\n"


def sort_universe(lg):
    """declarations + for each sort name some well-sorted terms (the generator's knowledge, used as the oracle)"""
    pr = logic_profile(lg)
    d = ["(declare-fun p () Bool)", "(declare-fun q () Bool)", "(declare-fun r () Bool)"]
    T = {"Bool": ["p", "q", "r", "(not p)", "true"]}
    if pr["sorts"]:
        d += ["(declare-sort U 0)", "(declare-sort V 0)", "(declare-fun a () U)", "(declare-fun b () U)", "(declare-fun c () U)",
              "(declare-fun u () V)", "(declare-fun v () V)", "(declare-fun w () V)"]
        T["U"] = ["a", "b", "c"]
        T["V"] = ["u", "v", "w"]
        if pr["uf"]:
            d += ["(declare-fun f (U) U)", "(declare-fun g (U V) Bool)"]
            T["U"] += ["(f a)"]
            T["Bool"] += ["(g a u)"]
    if pr["arith"]:
        t = pr["arith"]
        d += ["(declare-fun x () %s)" % t, "(declare-fun y () %s)" % t, "(declare-fun z () %s)" % t]
        T[t] = ["x", "y", "z", "1", "(+ x 1)"] if "DL" not in lg else ["x", "y", "z"]
    if pr["arrays"] and pr["sorts"]:
        d += ["(declare-fun arr () (Array U V))", "(declare-fun arr2 () (Array U V))"]
        T["(Array U V)"] = ["arr", "arr2", "(store arr a u)"]
        T["V"] += ["(select arr a)"]
    return d, T


def ill_sorted_script(rng, lg):
    """one application of an n-ary symbol with exactly one argument of the wrong sort, at a PRNG-chosen position.
    Returns (text, description) or None when the logic offers no two sorts for the symbol."""
    d, T = sort_universe(lg)
    sorts = list(T)
    pr = logic_profile(lg)
    cands = []   # (symbol, argument sorts, result sort)
    for n in (2, 3, 4):
        for s_ in sorts:
            cands.append(("=", [s_] * n, "Bool"))
            cands.append(("distinct", [s_] * n, "Bool"))
        cands.append(("and", ["Bool"] * n, "Bool"))
        cands.append(("or", ["Bool"] * n, "Bool"))
        if pr["arith"] and "DL" not in lg:
            cands.append(("+", [pr["arith"]] * n, pr["arith"]))
        if pr["arith"]:
            cands.append(("<=", [pr["arith"]] * 2, "Bool"))
            cands.append(("<", [pr["arith"]] * 2, "Bool"))
    cands.append(("not", ["Bool"], "Bool"))
    cands.append(("=>", ["Bool", "Bool"], "Bool"))
    for s_ in sorts:
        cands.append(("ite", ["Bool", s_, s_], s_))
    if "U" in T and pr["uf"]:
        cands.append(("f", ["U"], "U"))
        cands.append(("g", ["U", "V"], "Bool"))
    if "(Array U V)" in T:
        cands.append(("select", ["(Array U V)", "U"], "V"))
        cands.append(("store", ["(Array U V)", "U", "V"], "(Array U V)"))
    sym, argsorts, res = rng.choice(cands)
    k = rng.randrange(len(argsorts))
    others = [s_ for s_ in sorts if s_ != argsorts[k]]
    if not others:
        return None
    bad_sort = rng.choice(others)
    args = []
    for j, s_ in enumerate(argsorts):
        pool = T[bad_sort] if j == k else T[s_]
        args.append(rng.choice(pool))
    if sym in ("=", "distinct") and len(set(args)) < len(args):
        # keep the arguments different so that no simplification hides the application
        seen, fixed = set(), []
        for j, s_ in enumerate(argsorts):
            pool = [t for t in (T[bad_sort] if j == k else T[s_]) if t not in seen] or (T[bad_sort] if j == k else T[s_])
            t = rng.choice(pool)
            seen.add(t)
            fixed.append(t)
        args = fixed
    term = "(%s %s)" % (sym, " ".join(args))
    if res != "Bool":
        term = "(= %s %s)" % (term, rng.choice(T[res]))
    wrap = rng.choice(["%s", "(not %s)", "(or p %s)", "(! %s :named bad)", "(and %s q)"])
    cmds = ["(set-logic %s)" % lg] + d + ["(assert (or p q))", "(assert %s)" % (wrap % term), "(check-sat)"]
    if rng.random() < 0.3:
        cmds.insert(0, "(set-option :produce-models true)")
    return "\n".join(cmds) + "\n", "%s/%d: argument %d of sort %s where %s is expected, logic %s" % (sym, len(argsorts), k + 1, bad_sort, argsorts[k], lg)


def ill_sorted_battery(rng, lg):
    """stratified: every n-ary symbol x n in 2..4 x offending position first / middle / last (and the fixed-arity symbols at
    every position), all in ONE script; each injected assert sits between two echo markers and must produce a diagnostic.
    Returns (text, [(symbol, description, assert command)], declarations)."""
    d, T = sort_universe(lg)
    sorts = list(T)
    pr = logic_profile(lg)
    strata = []
    for n in (2, 3, 4):
        for sym in ("=", "distinct"):
            strata.append((sym, [rng.choice(sorts)] * n, "Bool"))
        strata.append(("and", ["Bool"] * n, "Bool"))
        strata.append(("or", ["Bool"] * n, "Bool"))
        if pr["arith"] and "DL" not in lg:
            strata.append(("+", [pr["arith"]] * n, pr["arith"]))
    if pr["arith"]:
        strata += [("<=", [pr["arith"]] * 2, "Bool"), ("<", [pr["arith"]] * 2, "Bool")]
    strata += [("not", ["Bool"], "Bool"), ("=>", ["Bool", "Bool"], "Bool"), ("ite", ["Bool", rng.choice(sorts), None], None)]
    if "U" in T and pr["uf"]:
        strata += [("f", ["U"], "U"), ("g", ["U", "V"], "Bool")]
    if "(Array U V)" in T:
        strata += [("select", ["(Array U V)", "U"], "V"), ("store", ["(Array U V)", "U", "V"], "(Array U V)")]
    cases = []
    for sym, argsorts, res in strata:
        if sym == "ite":
            argsorts = ["Bool", argsorts[1], argsorts[1]]
            res = argsorts[1]
        n = len(argsorts)
        positions = sorted({0, n // 2, n - 1})
        for k in positions:
            others = [x for x in sorts if x != argsorts[k]]
            if not others:
                continue
            bad = rng.choice(others)
            used, args = set(), []
            for j, s_ in enumerate(argsorts):
                pool = T[bad] if j == k else T[s_]
                pool2 = [t for t in pool if t not in used] or pool
                t = rng.choice(pool2)
                used.add(t)
                args.append(t)
            term = "(%s %s)" % (sym, " ".join(args))
            if res != "Bool":
                term = "(= %s %s)" % (term, rng.choice(T[res]))
            wrap = rng.choice(["%s", "%s", "(not %s)", "(or p %s)"])
            cases.append((sym, "%s/%d: argument %d of sort %s where %s is expected, logic %s" % (sym, n, k + 1, bad, argsorts[k], lg),
                          "(assert %s)" % (wrap % term)))
    cmds = ["(set-logic %s)" % lg] + d + ["(assert (or p q))"]
    for i, (_, _, a) in enumerate(cases):
        cmds += ["(echo \"@%d\")" % i, a]
    cmds += ["(echo \"@end\")", "(check-sat)"]
    return "\n".join(cmds) + "\n", cases, d


# ------------------------------------------------------------------------------------------------
# classification
# ------------------------------------------------------------------------------------------------

# a line may start with backslashes the lexer ECHOed (flex default rule) before the message
RX_SYN = re.compile(r"^\\*At (line \d+|interactive input): ")
RX_LEXF = re.compile(r"^\\*Syntax error")
RX_ERR = re.compile(r'^\\*\(error "')
EXN_MAP = {"opensmt::LANonLinearException": "NonLinear", "opensmt::ArithDivisionByZeroException": "DivZero",
           "opensmt::InternalException": "Internal", "opensmt::strConvException": "StrConv", "std::logic_error": "LogicError",
           "std::out_of_range": "OutOfRange", "std::invalid_argument": "InvalidArg", "std::overflow_error": "Overflow",
           "std::underflow_error": "Overflow", "std::ios_base::failure": "IosFailure", "std::__ios_failure": "IosFailure",
           "std::bad_alloc": "BadAlloc", "opensmt::OutOfMemoryException": "OutOfMemory", "opensmt::ApiException": "Api",
           "std::length_error": "LogicError", "std::bad_array_new_length": "BadAlloc", "std::ios_base::failure[abi:cxx11]": "IosFailure"}


def classify(out, err, rc):
    """stdout/stderr/status -> (items for the protocol model, diag printed, thrown class or None)"""
    items, diag = [], False
    lines = out.split("\n")
    for n, l in enumerate(lines):
        l0 = l.lstrip("\\")
        if RX_SYN.match(l) or l0.startswith("Syntax error: expecting"):
            items.append("s")
            diag = True
        elif RX_LEXF.match(l):
            items.append("l")
            diag = True
        elif l0 == '(error "scanner")' and items and items[-1] == "s":
            continue
        elif l0.startswith('(error "pipe reader: unbalanced parentheses")'):
            items.append("u")
            diag = True
        elif RX_ERR.match(l):
            items.append("e")
            diag = True
    thrown = None
    m = re.search(r"terminate called after throwing an instance of '([^']+)'", err)
    if m:
        thrown = m.group(1)
    elif "terminate called" in err:
        thrown = "?"
    return items, diag, thrown


def last_command(text, out):
    """kind of the command that was running when the process died: the (n+1)-th command, n = commands that answered"""
    try:
        toks, _, _ = smtlex.tokenize(text)
        sig = smtlex.significant(toks)
        return [t[1] for i, t in enumerate(sig) if t[0] == "kw" and i > 0 and sig[i - 1][0] == "("]
    except smtlex.LexFatal:
        return re.findall(r"\(\s*(" + "|".join(re.escape(k) for k in sorted(smtlex.KEYWORDS[8:], key=len, reverse=True)) + r")\b", text)


def logic_of(text):
    m = re.search(r"\(\s*set-logic\s+([A-Za-z_0-9]+)", text)
    return m.group(1) if m else "none"


def gdb_top_frame(binary, text, mode):
    """function of the innermost opensmt frame at the fatal signal (None when gdb is not usable)"""
    tmpd = os.path.join(vlib.BUILD, "tmp")
    path = os.path.join(tmpd, "c18_gdb_%d.smt2" % os.getpid())
    with open(path, "wb") as f:
        f.write(B(text))
    try:
        runcmd = "run %s" % path if mode == "F" else "run -p < %s" % path
        rc, out = vlib.sh(["gdb", "-batch", "-ex", runcmd, "-ex", "bt 25", binary], timeout=120)
        for m in re.finditer(r"^#\d+\s+(?:0x[0-9a-f]+ in )?([^\n]*?)\s*\(", out, re.M):
            fn = m.group(1)
            if "opensmt::" in fn:
                fn = re.sub(r"<[^<>]*>", "", fn)
                fn = fn.replace("opensmt::", "")
                return fn.split("(")[0].strip()
        return None
    except Exception:
        return None
    finally:
        try:
            os.remove(path)
        except OSError:
            pass


def crash_signature(binary, text, mode, rc, err, thrown, timeout, shrink=True):
    """stable name of a crash: exception class + triggering command kind + logic, or signal + crashing function"""
    def once(t):
        r = (run_file if mode == "F" else run_pipe)(binary, t, timeout)
        if r[0] == "timeout":
            return False
        _, _, th = classify(r[1], r[2], r[0])
        return (r[0] == rc) and (th == thrown)
    small = shrink_text(text, once, budget=40) if shrink else text
    if shrink and not (once(small) and once(small)):      # flaky (uninitialised memory): keep the original input as the replay
        small = text
    if "%" in small:
        if not once(small.replace("%", "P")) and not once(small.replace("%", "P")):
            return "crash:format-string", small
    kws = last_command(small, "")
    trig = next((k for k in reversed(kws) if k not in ("exit",)), "none")
    lg = logic_of(small)
    if thrown:
        return "abort:%s:%s:%s" % (thrown, trig, lg), small
    sig = SIGNAMES.get(-rc, str(rc)) if isinstance(rc, int) and rc < 0 else "rc%s" % rc
    fn = gdb_top_frame(binary, small, mode)
    return "signal:%s:%s" % (sig, fn if fn else "%s:%s" % (trig, lg)), small


def shrink_text(text, still, budget=150):
    """delta debugging over commands, then over tokens"""
    try:
        toks, _, st = smtlex.tokenize(text)
    except smtlex.LexFatal:
        return text
    # commands = top-level groups by the lexer's depth; everything else stays attached to the following group
    spans, depth, start = [], 0, 0
    for t in toks:
        if t[0] == "(":
            depth += 1
        elif t[0] == ")":
            depth -= 1
            if depth <= 0:
                spans.append(text[start:t[3]])
                start, depth = t[3], 0
    if start < len(text):
        spans.append(text[start:])
    used = [0]

    def dd(parts, join):
        changed = True
        while changed and len(parts) > 1 and used[0] < budget:
            changed = False
            for i in range(len(parts)):
                cand = parts[:i] + parts[i + 1:]
                used[0] += 1
                if still(join(cand)):
                    parts, changed = cand, True
                    break
                if used[0] >= budget:
                    break
        return parts
    spans = dd(spans, "".join)
    text2 = "".join(spans)
    try:
        toks2, _, _ = smtlex.tokenize(text2)
    except smtlex.LexFatal:
        return text2
    pieces = [text2[t[2]:t[3]] for t in toks2 if t[0] not in ("comment",)]
    pieces = dd(pieces, "".join)
    return "".join(pieces)


# ------------------------------------------------------------------------------------------------
# the check
# ------------------------------------------------------------------------------------------------

def has_checksat(text):
    return "check-sat" in text


def pending_at_eof(text):
    """ground truth for pipe mode: text after the last complete command is not just white space / comments.
    Returns None or the shape: 'unclosed-command' (an open parenthesis), 'open-literal' (input ends inside a string
    literal or quoted symbol), 'stray-tokens' (atoms at top level, no parenthesis open)."""
    try:
        cmds, ok, _ = smtlex.split_commands(text)
    except smtlex.LexFatal:
        return None
    if ok:
        return None
    toks, _, st = smtlex.tokenize(text)
    depth = 0
    for t in smtlex.significant(toks):
        if t[0] == "(":
            depth += 1
        elif t[0] == ")":
            depth -= 1
            if depth < 0:
                return None          # a stray ')' is reported by the reader itself
    if st != "INITIAL":
        return "open-literal"
    if depth > 0:
        return "unclosed-command"
    return "stray-tokens"


def regression_files():
    fs = sorted(glob.glob(os.path.join(vlib.REPO, "test", "regression", "**", "*.smt2"), recursive=True))
    return [f for f in fs if os.path.getsize(f) < 3000]


def _load_c20():
    import importlib
    for name in ("C20", "wip_C20"):
        try:
            return importlib.import_module(name)
        except ImportError:
            continue
    return None


class Proto:
    def __init__(self, exe):
        self.exe = exe

    def ask(self, lines):
        rc, out = vlib.sh([self.exe], input="\n".join(lines) + "\n", timeout=300)
        res = out.strip().split("\n")
        if rc != 0 or len(res) != len(lines):
            raise RuntimeError("protocol driver failed: rc=%s %s" % (rc, out[-300:]))
        return res


def build_asan(ctx):
    """ASan+UBSan build of the working tree (thorough tier). Returns the binary or None."""
    d = os.path.join(vlib.BUILD, "impl-asan") if vlib.REPO == "/repo" else vlib.IMPL + "-asan"
    flags = "-DOPENSMT_VERIF -fsanitize=address,undefined -fno-sanitize-recover=all -fno-omit-frame-pointer -O1"
    with vlib.Lock("impl-asan"):
        if not os.path.exists(os.path.join(d, "build.ninja")):
            rc, out = vlib.sh(["cmake", "-G", "Ninja", "-S", vlib.REPO, "-B", d, "-DCMAKE_BUILD_TYPE=Release", "-DPACKAGE_TESTS=OFF",
                               "-DBUILD_SHARED_LIBS=OFF", "-DCMAKE_CXX_FLAGS=" + flags,
                               "-DCMAKE_EXE_LINKER_FLAGS=-fsanitize=address,undefined"], timeout=600)
            if rc != 0:
                ctx.note("asan build: cmake failed: " + out[-300:])
                return None
        rc, out = vlib.sh(["ninja", "-C", d, "-j16", "opensmt"], timeout=3000)
        if rc != 0:
            rc, out = vlib.sh(["ninja", "-C", d, "-j16"], timeout=3000)
        if rc != 0:
            ctx.note("asan build failed: " + out[-400:])
            return None
    b = os.path.join(d, "opensmt")
    return b if os.path.exists(b) else None


def san_signature(err):
    m = re.search(r"ERROR: AddressSanitizer: ([a-zA-Z-]+)", err)
    if m:
        fr = re.findall(r"#\d+ 0x[0-9a-f]+ in ([^\s(]+)", err)
        fr = [f for f in fr if not f.startswith(("__", "operator", "malloc", "free", "std::", "printf", "vprintf", "strlen", "__interceptor"))]
        return "asan:%s:%s" % (m.group(1), fr[0] if fr else "?")
    m = re.search(r"([A-Za-z0-9_./-]+):(\d+):\d+: runtime error: ([^\n]{0,60})", err)
    if m:
        return "ubsan:%s:%s" % (os.path.basename(m.group(1)), re.sub(r"0x[0-9a-f]+|\d+", "N", m.group(3)).strip())
    if "LeakSanitizer" in err:
        return "lsan:leak"
    return None


def run(ctx):
    exe, log = vlib.build_extracted("protocol")
    if not exe:
        ctx.tie_broken("extraction-protocol", log)
        return
    proto = Proto(exe)
    ctx.extra["escaping_classes_model"] = proto.ask(["classes"])[0]
    rng = ctx.rng
    binary = vlib.opensmt_bin()
    c20 = _load_c20()
    regs = regression_files()
    inputs = []   # (kind, text)
    # corpus first
    for p in sorted(glob.glob(os.path.join(vlib.VERIF, "corpus", "C18", "*.smt2"))):
        inputs.append(("corpus", open(p, "rb").read().decode("latin-1")))
    n_t, n_g, n_r = (70, 20, 50) if ctx.quick else (600, 150, 600)
    for _ in range(n_t):
        cmds = templates(rng)
        t = "\n".join(cmds) + "\n"
        if rng.random() < 0.35:
            t = mutate(rng, t)
        inputs.append(("template", t))
    for _ in range(n_g):
        if c20 is None:
            break
        t = c20.gen_script(rng, rng.choice(["layout", "layout", "escq", "lonebs", "crlf", "poststop"]))["text"]
        for _ in range(rng.choice([0, 1, 1, 2])):
            t = mutate(rng, t)
        inputs.append(("generated", t))
    for _ in range(n_r):
        if not regs:
            break
        t = open(rng.choice(regs), "rb").read().decode("latin-1")
        for _ in range(rng.choice([1, 1, 2, 3])):
            t = mutate(rng, t)
        inputs.append(("regression-mutant", t))
    # systematic: every option x every logic name, followed by a normal command sequence (file mode; a PRNG sample also as pipe)
    real_logics = [l for l in SUPPORTED_LOGICS]
    for lg in real_logics:
        for opt in OPTIONS:
            inputs.append(("option-x-logic", option_logic_script(opt, lg, rng), None, "F" if rng.random() < 0.8 else "FP"))
    # continuing after a rejected set-logic / set-option
    for _ in range(30 if ctx.quick else 300):
        lg = rng.choice(real_logics)
        opt = rng.choice(OPTIONS)
        t = option_logic_script(opt, lg, rng, val=rng.choice(["true", "true", "false", "3", "foo"]), again=rng.random() < 0.5)
        if rng.random() < 0.5:
            t = "(set-logic %s)\n" % rng.choice(["QF_FOO", "FOO", lg]) + t
        inputs.append(("after-rejected-setup", t, None, "FP"))
    # ill-sorted applications of n-ary symbols, offending argument at every position: the generator knows the input is ill-sorted
    il_logics = ["QF_UF", "QF_AX", "QF_UFLRA", "QF_UFLIA", "QF_LRA", "QF_LIA", "QF_ALIA", "QF_AUFLIA", "QF_RDL", "QF_IDL", "QF_ALRA", "QF_AUFLIRA"]
    for lg in il_logics:
        for _ in range(1 if ctx.quick else 6):
            text, cases_, decls = ill_sorted_battery(rng, lg)
            inputs.append(("ill-sorted-battery", text, ("battery", lg, cases_, decls), "F" if rng.random() < 0.7 else "FP"))
    for _ in range(60 if ctx.quick else 1500):
        r = ill_sorted_script(rng, rng.choice(il_logics))
        if r:
            inputs.append(("ill-sorted", r[0], "reject:" + r[1], "F" if rng.random() < 0.7 else "FP"))
    if not ctx.quick:
        for f in rng.sample(regs, min(150, len(regs))):
            inputs.append(("regression", open(f, "rb").read().decode("latin-1")))

    asan = None
    if not ctx.quick:
        asan = build_asan(ctx)
        ctx.extra["asan_build"] = bool(asan)
    seen_sigs = {}
    coarse = set()
    asan_tick = [0]
    prompt_limit = 8.0
    t_limit = 10.0 if ctx.quick else 20.0
    model_lines, model_expect = [], []
    for item in inputs:
        kind, text = item[0], item[1]
        expect = item[2] if len(item) > 2 else None
        modes = item[3] if len(item) > 3 else "FP"
        for mode in modes:
            runner = run_file if mode == "F" else run_pipe
            t0 = time.time()
            rc, out, err = runner(binary, text, t_limit)
            dt = time.time() - t0
            if rc == "timeout":
                if not has_checksat(text):
                    ctx.violation("timeout:no-check-sat:%s" % ("file" if mode == "F" else "pipe"),
                                  "a script without check-sat did not terminate within %.0f s" % t_limit, dict(script=text, mode=mode))
                else:
                    ctx.count("timeout-with-check-sat(not judged here)")
                continue
            if not has_checksat(text) and dt > prompt_limit:
                # wall-clock under load is no evidence: measure again (twice) before blaming the solver
                dts = [dt]
                for _ in range(2):
                    t1 = time.time()
                    runner(binary, text, t_limit)
                    dts.append(time.time() - t1)
                if min(dts) > prompt_limit:
                    ctx.violation("slow:no-check-sat", "a script without check-sat took %.1f s (three runs, fastest)" % min(dts), dict(script=text, mode=mode))
                else:
                    ctx.count("slow-once-then-prompt(load)")
            items, diag, thrown = classify(out, err, rc)
            nontriv = diag or rc not in (0,)
            ctx.case(key=mode + text, nontrivial=nontriv, kind=kind + ":" + ("file" if mode == "F" else "pipe"),
                     sample=dict(kind=kind, mode=mode, script=text[:160], rc=rc, out=out[:120], err=err[:80]) if nontriv else None)
            # 1. abnormal endings
            if rc not in (0, 1):
                kws0 = last_command(text, "")
                key = (rc, thrown, logic_of(text), kws0[-1] if kws0 else "")
                if key in coarse:
                    ctx.count("abnormal-ending-same-class-as-earlier")
                    continue
                coarse.add(key)
                sig, small = crash_signature(binary, text, mode, rc, err, thrown, t_limit, shrink=(kind != "corpus"))
                if sig not in seen_sigs:
                    seen_sigs[sig] = small
                    r2 = runner(binary, small, t_limit)
                    ctx.violation(sig, "opensmt ends abnormally (%s): %s" % (("uncaught " + thrown) if thrown else SIGNAMES.get(-rc, rc) if isinstance(rc, int) else rc,
                                                                              (r2[2] or err).strip().split("\n")[-1][:160]),
                                  dict(script=small, mode="file" if mode == "F" else "pipe (opensmt -p)", rc=r2[0], stdout=r2[1][:300], stderr=r2[2][:600],
                                       original=text if len(text) < 3000 else text[:3000]))
            # 1b. the generator injected sort errors: silence is a violation
            if isinstance(expect, tuple) and expect[0] == "battery" and rc != "timeout":
                _, lg_, cases_, decls_ = expect
                segs = re.split(r"(?m)^@(\d+|end)\n", out)
                # segs = [before, id0, text0, id1, text1, ...]; text_k = output between marker k and the next one
                got = {segs[i]: segs[i + 1] for i in range(1, len(segs) - 1, 2)}
                for i_, (sym, desc, acmd) in enumerate(cases_):
                    seg = got.get(str(i_))
                    complete = str(i_ + 1) in got or "end" in got      # the run got past this assert (it may die later)
                    if seg is not None and complete and "(error " not in seg:
                        mini = "\n".join(["(set-logic %s)" % lg_] + decls_ + [acmd, "(check-sat)"]) + "\n"
                        r2 = runner(binary, mini, t_limit)
                        ctx.violation("silent:ill-sorted-accepted:%s" % sym,
                                      "an ill-sorted term is accepted without a diagnostic (%s): alone the command gives status %s, stdout %r"
                                      % (desc, r2[0], r2[1][:80]),
                                      dict(script=mini, mode=mode, injected=desc, stdout=r2[1][:300], rc=r2[0], battery=text[:3000]))
            elif isinstance(expect, str) and expect.startswith("reject:") and rc == 0 and not diag:
                sym = expect[7:].split("/")[0]
                ctx.violation("silent:ill-sorted-accepted:%s" % sym,
                              "an ill-sorted term is accepted without a diagnostic, exit status 0 (%s); stdout %r" % (expect[7:], out[:80]),
                              dict(script=text, mode=mode, injected=expect[7:], stdout=out[:300], rc=rc))
            # 2. diagnostic <-> non-zero status
            if rc in (0, 1):
                if diag and rc == 0:
                    what = "syntax-error" if ("s" in items) else "error-response"
                    ctx.violation("status0:%s:%s-mode" % (what, "file" if mode == "F" else "pipe"),
                                  "a diagnostic is printed but the exit status is 0", dict(script=text[:2000], mode=mode, stdout=out[:400], rc=rc))
                if rc == 1 and not diag:
                    ctx.violation("nodiag:status1:%s-mode" % ("file" if mode == "F" else "pipe"),
                                  "exit status 1 without a diagnostic on stdout", dict(script=text[:2000], mode=mode, stdout=out[:400], stderr=err[:300]))
                # 3. silent problems (ground truth from the tokenizer): pending text at the end of a pipe
                shape = pending_at_eof(text) if (mode == "P" and rc == 0 and not diag and "exit" not in text) else None
                if shape:
                    ctx.violation("silent:pending-input-at-eof:pipe-mode:" + shape,
                                  "standard input ends with pending text (%s): nothing is reported, status 0" % shape,
                                  dict(script=text[:2000], stdout=out[:300], rc=rc))
            # 4. the protocol model on the observed events
            if rc in (0, 1) or (isinstance(rc, int) and rc == -signal.SIGABRT and thrown in EXN_MAP):
                its = list(items)
                if thrown:
                    its.append("tG:" + EXN_MAP[thrown])
                # the model's pending tail is what the reader itself can see (open parenthesis / literal); stray
                # top-level atoms never reach it (known finding silent:...:stray-tokens)
                tail = "~" if (mode == "P" and "exit" not in text and pending_at_eof(text) in ("unclosed-command", "open-literal")) else "."
                model_lines.append("%s gen %s %s" % (mode, ",".join(its) if its else "-", tail))
                model_expect.append((mode, text, rc, out, "A" if thrown else ("E%d" % rc)))
            # thorough: sanitizers (file mode, every third input + corpus)
            if mode == "F":
                asan_tick[0] += 1
            # inputs that already end abnormally in the plain build are reported above; the sanitizer build looks
            # for memory errors / UB in runs that look normal
            if asan is not None and mode == "F" and rc in (0, 1) and (kind == "corpus" or asan_tick[0] % 3 == 0):
                env = dict(os.environ, ASAN_OPTIONS="detect_leaks=0:abort_on_error=0:exitcode=99", UBSAN_OPTIONS="print_stacktrace=1:exitcode=98")
                r = runner(asan, text, t_limit * 6, env)
                if r[0] != "timeout":
                    sg = san_signature(r[2])
                    if sg and sg not in seen_sigs:
                        seen_sigs[sg] = text

                        def still(t, sg=sg, runner=runner, env=env):
                            rr = runner(asan, t, t_limit * 6, env)
                            return rr[0] != "timeout" and san_signature(rr[2]) == sg
                        small = shrink_text(text, still, budget=60)
                        ctx.violation(sg, "sanitizer report: " + sg, dict(script=small, mode=mode, stderr=runner(asan, small, t_limit * 6, env)[2][:1500]))
    # protocol model against the observed status (batched)
    if model_lines:
        res = proto.ask(model_lines)
        for (mode, text, rc, out, real), line, r in zip(model_expect, model_lines, res):
            m = re.search(r"end=(\S+)", r)
            if not m or m.group(1) != real:
                ctx.tie_broken("protocol-model-vs-binary", "events %r: model %s, binary ended %s (mode %s, stdout %r)" % (line, r, real, mode, out[:200]),
                               dict(script=text[:2000], mode=mode))
    ctx.extra["distinct_abnormal_signatures"] = sorted(seen_sigs)
