"""C03 — models produced after sat satisfy every current assertion."""
import concurrent.futures as cf
import random
import vlib
import scriptgen
import solvercheck as sc
from smtlib import ParseError, sx_str, Elab

META = dict(
    title="Models produced after sat satisfy every current assertion",
    category="proof",
    technique="Coq-verified SMT-LIB evaluator (coq/Sem, extracted) applied to every printed model, get-value and get-assignment answer",
    level_text="The deciding procedure is a Coq-defined SMT-LIB semantics (coq/Sem: Core, Ints, Reals, UF with abstract values) whose "
               "acceptance theorem (Properties_C03.v: a model accepted by model_ok is a well-sorted interpretation defining every declared "
               "symbol under which every current assertion is true; rejection exhibits a false assertion) is proved for all signatures, "
               "models and assertion sets. Every run re-validates, with the extracted evaluator, each model / get-value / get-assignment answer "
               "printed by the working-tree binary on generated satisfiable scripts (single-query and incremental, all model-supporting logics). "
               "PARTIAL: that the solver's model *construction* is right for all inputs is established per run only.",
    level_note="Trusted: Coq kernel; the SMT-LIB semantics written in coq/Sem/Eval.v (it is the specification); extraction (ExtrOcamlBasic, ExtrOcamlString); "
               "ocaml/sem_driver.ml; the python SMT-LIB reader/elaborator lib/smtlib.py (s-expressions -> typed terms; let/define-fun expansion); "
               "the script generator. Not modelled: the model builders of the theory solvers (validated per run).",
    design_ref="DESIGN.md §7 C03, §4.1, §4.4",
    trusted_base=["Coq 8.16.1 kernel", "coq/Sem/Eval.v as the SMT-LIB semantics (specification)",
                  "extraction: ExtrOcamlBasic, ExtrOcamlString; no Extract Constant/Inductive of our own",
                  "ocaml/sem_driver.ml, ocaml/bits.ml, lib/smtlib.py (reader + elaborator), lib/solvercheck.py"],
    assumptions=["the python elaborator maps SMT-LIB text to the Coq term datatype faithfully (round-trip-tested on the generated scripts)"],
    rule="scripts from lib/scriptgen.py (logics QF_UF, QF_LRA, QF_LIA, QF_RDL, QF_IDL, QF_UFLRA, QF_UFLIA, propositional; single-query and push/pop "
         "histories; named assertions; get-model, get-value over generated terms, get-assignment after each sat); a case = one sat answer with its "
         "model; non-trivial = the model is checked against >= 1 active assertion; distinct = distinct (script, check index)",
)


def one(args):
    seed, idx, tier = args
    rng = random.Random(seed * 7919 + idx)
    inc = rng.random() < 0.4
    text, meta = scriptgen.gen_script(rng, incremental=inc, named=rng.random() < 0.5, queries=("model", "value", "assignment"),
                                      options=(":produce-assignments true",) if rng.random() < 0.6 else (), big=rng.random() < 0.2)
    # option vectors that change how the model is produced: SatELite-style elimination + model extension (non-incremental mode,
    # one query only), no top-level substitutions
    r2 = random.Random(seed * 15485863 + idx)
    k = r2.random()
    if k < 0.3 and not inc and text.count("(check-sat)") == 1 and "(push" not in text:
        text = "(set-option :incremental 0)\n" + text
    elif k < 0.4:
        text = "(set-option :do-substitutions 0)\n" + text
    rc, res, out, err = sc.run_aligned(text, timeout=30)
    return text, meta, rc, res, out, err


def run(ctx):
    n = 260 if ctx.quick else 2000
    jobs = [(ctx.seed, i, ctx.tier) for i in range(n)]
    with cf.ThreadPoolExecutor(max_workers=14) as ex:
        results = list(ex.map(one, jobs))
    for i, (text, meta, rc, res, out, err) in enumerate(results):
        logic = meta["logic"]
        if rc == -9:
            ctx.count("timeout")
            continue
        if rc < 0 or rc > 1:
            ctx.count("crash")       # C18's business; recorded in the distribution only
            continue
        nq = sum(1 for c in sc.read_all(text) if isinstance(c, list) and c and c[0] in ("check-sat", "get-model", "get-value", "get-assignment"))
        import smtlib
        outs, stray = smtlib.read_all_tolerant(out)
        nout = len(outs)
        if stray:
            ctx.count("malformed-output:stray-paren")      # C17's business (get-assignment without names prints ")")
            # re-align: the stray ")" is the whole answer of one get-assignment
            outs2, stray2 = smtlib.read_all_tolerant(out, placeholder=True)
            stray2 = 0
            if stray2 == 0:
                outs, nout = outs2, len(outs2)
                qs = [r for r in res] if res else None
                sc2 = sc.Script(text).run()
                res = [(q[0], q[2], q[3], q[4], outs[j] if j < len(outs) else None) for j, q in enumerate([q for q in sc2 if q[0] != "exit"])]
        if nout != nq:
            ctx.count("misaligned-output(skipped)")     # an error response from a non-query command: C04/C19's business
            continue
        last, last_model, last_frames, last_sig = None, None, None, None
        k = 0
        seen_unknown = False
        for kind, cmd, frames, sig, ans in res:
            if kind == "check-sat":
                last = ans
                last_model = None
                k += 1
                ctx.count("answer:%s" % (ans if isinstance(ans, str) else "other"))
                if ans == "unknown":
                    seen_unknown = True
                continue
            if last != "sat":
                continue
            A = sc.active_assertions(frames)
            if isinstance(ans, list) and ans and ans[0] == "error":
                if kind == "get-model":
                    ctx.violation("get-model:error:%s" % logic, "get-model after sat answered %s" % sx_str(ans), dict(script=text, stdout=out))
                else:
                    ctx.count("error-response:%s" % kind)
                continue
            if kind == "get-model":
                if not isinstance(ans, list):
                    ctx.violation("get-model:no-model:%s" % logic, "get-model after sat did not print a model: %s" % sx_str(ans) if ans else "nothing", dict(script=text, stdout=out))
                    continue
                ev = sc.evaluate(sig, ans, A)
                last_model, last_frames, last_sig = ans, frames, sig
                ctx.case(key=(text, k), nontrivial=len(A) > 0, kind="model:%s:%s" % (logic, "incr" if meta["incremental"] else "single"),
                         sample=dict(script=text, check_index=k, verdict=ev if "error" in ev else dict(ok=ev["ok"], asserts=ev["asserts"])))
                if "error" in ev and "abstract value of an interpreted sort" in ev["error"]:
                    ctx.violation("get-model:not-a-value:abstract-interpreted-sort:%s" % logic,
                                  "the printed model uses an abstract value of an interpreted sort (%s), which is not a value of that sort" % ev["error"],
                                  dict(script=text, model=sx_str(ans)))
                    continue
                if "error" in ev:
                    ctx.tie_broken("model-reading", ev["error"], dict(script=text, model=sx_str(ans)))
                    continue
                if ev["missing"]:
                    nm = [ev["idnames"].get(int(x), x) for x in ev["missing"]]
                    ctx.violation("get-model:missing-definition:%s" % logic, "declared symbols without definition in the model: %s" % nm, dict(script=text, model=sx_str(ans)))
                if ev["illsorted"]:
                    nm = [ev["idnames"].get(int(x), x) for x in ev["illsorted"]]
                    ctx.violation("get-model:ill-sorted-value:%s" % logic, "definitions whose value is not of the declared sort: %s" % nm, dict(script=text, model=sx_str(ans)))
                bad = [j for j, c in enumerate(ev["asserts"]) if c != "T"]
                if bad:
                    j = bad[0]
                    import re as _re
                    big = any(int(x) > 2**53 for x in _re.findall(r"[0-9]{16,}", sx_str(A))) if True else False
                    ctx.violation("get-model:assertion-%s:%s%s" % ("false" if ev["asserts"][j] == "F" else "undefined", logic, (":const>2^53" if big else "") + (":after-unknown" if seen_unknown else "") + (":non-incremental" if "(set-option :incremental 0)" in text else "")),
                                  "assertion %s evaluates to %s under the printed model (verified evaluator)" % (sx_str(A[j]), ev["asserts"][j]),
                                  dict(script=text, check_index=k, assertion=sx_str(A[j]), model=sx_str(ans), stdout=out))
            elif kind == "get-value" and last_model is not None:
                terms = cmd[1]
                if not isinstance(ans, list) or len(ans) != len(terms):
                    ctx.violation("get-value:shape:%s" % logic, "get-value answer does not have one pair per requested term", dict(script=text, answer=sx_str(ans) if ans else None))
                    continue
                ev = sc.evaluate(sig, last_model, [], terms)
                if "error" in ev:
                    ctx.tie_broken("value-reading", ev["error"], dict(script=text))
                    continue
                el = Elab(sig)
                for t, pair, mv in zip(terms, ans, ev["values"]):
                    try:
                        srt = el.infer(t, {}) or sig.num_sort() or "I"
                        pv = sc.value_wire_of_answer(sig, pair[1], srt)
                    except (ParseError, IndexError, ValueError, ZeroDivisionError) as e:
                        pv = "unreadable(%s)" % e
                    ctx.case(key=(text, k, sx_str(t)), nontrivial=isinstance(t, list), kind="value:%s" % logic)
                    if mv == "none":
                        continue   # division by zero etc.: SMT-LIB leaves the value open
                    if pv is None or str(pv).startswith("unreadable"):
                        ctx.violation("get-value:not-a-value:%s" % ("uf-application" if any(f + " " in sx_str(pair[1]) for f in ("(f", "(g", "(h", "(q", "(bf", "(bq")) else "other"),
                                      "get-value answers %s for %s, which is not a value (the printed model gives %s)" % (sx_str(pair[1]), sx_str(t), mv),
                                      dict(script=text, term=sx_str(t), printed=sx_str(pair[1]), model_value=mv, model=sx_str(last_model)))
                    elif sc.canon_value(mv) != sc.canon_value(pv):
                        import re as _re4
                        ctx.violation("get-value:differs-from-model:%s%s" % (logic, ":const>2^53" if any(int(x) > 2**53 for x in _re4.findall(r"[0-9]{16,}", text)) else ""),
                                      "get-value says %s = %s but the printed model gives %s" % (sx_str(t), sx_str(pair[1]), mv),
                                      dict(script=text, term=sx_str(t), printed=sx_str(pair[1]), model_value=mv, model=sx_str(last_model)))
            elif kind == "get-assignment" and last_model is not None:
                named = [(nm, t) for f in frames for (t, nm) in f if nm]
                if not isinstance(ans, list):
                    continue
                got = {p[0]: p[1] for p in ans if isinstance(p, list) and len(p) == 2}
                if not named:
                    continue
                ev = sc.evaluate(sig, last_model, [], [t for _, t in named])
                if "error" in ev:
                    continue
                for (nm, t), mv in zip(named, ev["values"]):
                    ctx.case(key=(text, k, nm), nontrivial=True, kind="assignment:%s" % logic)
                    if nm not in got:
                        continue     # produce-assignments off or name not reported: nothing claimed
                    want = {"B1": "true", "B0": "false"}.get(mv)
                    if want and got[nm] != want:
                        import re as _re3
                        bigc = ":%s:const>2^53" % logic if any(int(x) > 2**53 for x in _re3.findall(r"[0-9]{16,}", text)) else ""
                        ctx.violation("get-assignment:%s" % ("unknown" if got[nm] == "unknown" else "wrong" + bigc),
                                      "get-assignment reports %s = %s but it is %s in the printed model" % (nm, got[nm], want),
                                      dict(script=text, name=nm, reported=got[nm], model_value=want))
