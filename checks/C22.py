"""C22 — theory solver verdicts depend only on the asserted literals."""
import concurrent.futures as cf
import glob
import json
import os
import random
import re
import time

import vlib
import smtlib
import solvercheck as sc

META = dict(
    title="Theory solver verdicts depend only on the asserted literals",
    category="proof",
    technique="Coq proofs about the specification machine, THandler's backtrack-point counting and a faithful model of the LA bound "
              "stack (LRAModel + Simplex::assertBound) + exact correspondence of the extracted bound-stack model with the working tree "
              "+ PRNG declare/assert/backtrack/check histories on every theory solver, each verdict judged against the CURRENT "
              "literal stack (explanation subset + T-unsat, complete SAT => T-sat, fresh instance compatible)",
    level_text="PARTIAL. Proved for all histories (Properties_C22.v): the specification's allowed verdicts depend on the current literal "
               "stack only and an explanation naming a retracted literal is never allowed (tsolver_spec_history_independent, "
               "stale_literal_rejected); LRAModel::popBacktrackPoint undoes a mark and every bound pushed after it, for arbitrary "
               "well-bracketed sequences (boundstack_undo, boundstack_frames); driven as THandler drives it, the LA bound stack after "
               "ANY history equals the one a fresh state gets from the current literals (boundstack_current_stack, "
               "boundstack_history_independent, boundstack_refines_spec); THandler::backtrack pops exactly one point per declared "
               "literal above the level (thandler_backtrack_count). Per run: the extracted bound-stack model is compared state by state "
               "(per-variable lower/upper lists, bound_trace, bound_limits, conflict flag) with LASolver's internals, and histories of "
               "<= 60 operations over pools of <= 12 atoms are run on LASolver (Real, Int), Egraph, IDL/RDL STP solvers and the array "
               "solver through the real TSolverHandler classes; after every verdict: UNSAT => explanation is a subset of the current "
               "literals and T-unsatisfiable; complete-check SAT (LRA, EUF, IDL, RDL) => current set T-satisfiable; theory deductions "
               "are entailed by the current set; a fresh solver on the current stack gives a compatible verdict and (LA) the same "
               "active bounds.",
    level_note="NOT proved: Simplex basis/tableau restoration, Egraph undoMerge, STP removeAfter, ArraySolver - validated per run only. "
               "T-(un)satisfiability is judged by z3 (untrusted); a suspected violation is re-examined with cvc5 and, where a model "
               "exists (explanation not unsat), z3's model is validated by the Coq-extracted evaluator. Array solver: only the UNSAT side "
               "is judged (its complete check relies on read-over-write lemmas that ArrayTheory adds while preprocessing). LIA: SAT is "
               "not a claim (splits). Trusted: Coq kernel, extraction, ocaml/tsolver_driver.ml, harness/h_tsolver.cc (-DNDEBUG, private "
               "members opened by macro).",
    design_ref="DESIGN.md §7 C22, design/C22.md",
    trusted_base=["Coq 8.16.1 kernel", "extraction: ExtrOcamlBasic, ExtrOcamlString only", "ocaml/tsolver_driver.ml + ocaml/bits.ml",
                  "harness/h_tsolver.cc (-DNDEBUG, #define private public, its mini term reader)", "z3 4.8.12 (judge of T-satisfiability, untrusted), "
                  "cvc5 1.0.3 and the coq/Sem evaluator on the violation path"],
    assumptions=["atoms are declared before they are asserted and stay declared (CoreSMTSolver::declareVarsToTheories / THandler::getNewSplits)",
                 "after a conflict the SAT solver retracts at least the newest literal of the explanation before asserting again"],
    needs_impl=True,
    rule="per theory (LRA, LIA, IDL, RDL, UF, AX) pools of 6..12 literals over 3..4 variables / 4 constants + 2 functions + 1 predicate / 2 arrays; "
         "histories of 25..60 operations: declare (most up front; LA, UF: a fifth late, in 40% of the histories half of the atoms late and each late "
         "declaration usually followed by assert / check / backtrack of that atom), assert +/-, assert a pending theory deduction, drain deductions, "
         "backtrack 1..4 (sometimes everything), check(false), check(true) (+ fresh instance). non-trivial = history with >= 1 backtrack and >= 1 "
         "verdict after it; a fifth of the LA histories are of the family 'bounds implied by an active bound' (a chain of bounds of one kind on a "
         "sum term: strongest asserted first, weaker ones declared late, asserted and retracted alone; then bounds on the summands whose total is "
         "within +-2 of the strongest bound); distinct = (theory, pool, operations)",
)

THEORIES = ["LRA", "LRA", "LIA", "IDL", "RDL", "UF", "UF", "AX"]
COMPLETE = {"LRA", "UF", "IDL", "RDL"}     # complete-check SAT is a consistency claim that is judged
SAMPLES = []


# ---------------------------------------------------------------------------------------------
# pools
# ---------------------------------------------------------------------------------------------
def num(n, d=1):
    s = "%d" % abs(n) if d == 1 else "(/ %d %d)" % (abs(n), d)
    return "(- %s)" % s if n < 0 else s


def pool_la(r, real):
    sort = "Real" if real else "Int"
    vs = ["x", "y", "z", "w"][: r.randint(2, 4)]
    hdr = ["fun %s %s" % (v, sort) for v in vs]
    terms = []
    for _ in range(r.randint(2, 4)):
        k = r.choice([1, 1, 2, 2, 3])
        ws = r.sample(vs, min(k, len(vs)))
        ts = []
        for v in ws:
            c = r.choice([1, 1, -1, 2, -2, 3])
            ts.append(v if c == 1 else "(* %s %s)" % (num(c), v))
        terms.append(ts[0] if len(ts) == 1 else "(+ %s)" % " ".join(ts))
    atoms = []
    n = r.randint(6, 12)
    while len(atoms) < n:
        t = r.choice(terms)
        c = num(r.randint(-3, 3)) if not real or r.random() < 0.8 else num(r.randint(-5, 5), r.choice([2, 3]))
        a = "(%s %s %s)" % (r.choice(["<=", "<", ">=", ">"]), t, c)
        if a not in atoms:
            atoms.append(a)
    z3decl = ["(declare-fun %s () %s)" % (v, sort) for v in vs]
    return hdr, atoms, z3decl


def pool_dl(r, real):
    sort = "Real" if real else "Int"
    vs = ["x", "y", "z", "w"][: r.randint(3, 4)]
    hdr = ["fun %s %s" % (v, sort) for v in vs]
    atoms = []
    n = r.randint(6, 12)
    while len(atoms) < n:
        k = num(r.randint(-2, 2))
        if r.random() < 0.75:
            a, b = r.sample(vs, 2)
            t = "(%s (- %s %s) %s)" % (r.choice(["<=", "<", ">=", ">"]), a, b, k)
        else:
            t = "(%s %s %s)" % (r.choice(["<=", ">=", "<", ">"]), r.choice(vs), k)
        if t not in atoms:
            atoms.append(t)
    return hdr, atoms, ["(declare-fun %s () %s)" % (v, sort) for v in vs]


def pool_uf(r):
    cs = ["a", "b", "c", "d"][: r.randint(3, 4)]
    hdr = ["sort U"] + ["fun %s U" % c for c in cs] + ["fun f U U", "fun g U U U", "fun p Bool U"]
    z3 = ["(declare-sort U 0)"] + ["(declare-fun %s () U)" % c for c in cs] + ["(declare-fun f (U) U)", "(declare-fun g (U U) U)", "(declare-fun p (U) Bool)"]

    def term(d):
        k = r.random()
        if d == 0 or k < 0.45:
            return r.choice(cs)
        if k < 0.8:
            return "(f %s)" % term(d - 1)
        return "(g %s %s)" % (term(d - 1), term(d - 1))
    atoms = []
    n = r.randint(6, 12)
    while len(atoms) < n:
        if r.random() < 0.8:
            d = r.choice([0, 1, 1, 2])
            a, b = term(d), term(r.choice([0, 1, 1, 2]))
            if a == b:
                continue
            t = "(= %s %s)" % (a, b)
        else:
            t = "(p %s)" % term(1)
        if t not in atoms:
            atoms.append(t)
    return hdr, atoms, z3


def pool_ax(r):
    hdr = ["sort I", "sort E", "asort A I E", "fun a A", "fun b A", "fun i I", "fun j I", "fun k I", "fun e E", "fun v E"]
    z3 = ["(declare-sort I 0)", "(declare-sort E 0)", "(declare-fun a () (Array I E))", "(declare-fun b () (Array I E))",
          "(declare-fun i () I)", "(declare-fun j () I)", "(declare-fun k () I)", "(declare-fun e () E)", "(declare-fun v () E)"]
    idx, el, arr = ["i", "j", "k"], ["e", "v"], ["a", "b"]

    def aterm(d):
        if d == 0 or r.random() < 0.5:
            return r.choice(arr)
        return "(store %s %s %s)" % (aterm(d - 1), r.choice(idx), eterm(0))

    def eterm(d):
        if d == 0 or r.random() < 0.4:
            return r.choice(el)
        return "(select %s %s)" % (aterm(1), r.choice(idx))
    atoms = []
    n = r.randint(6, 10)
    while len(atoms) < n:
        k = r.random()
        if k < 0.3:
            x, y = r.sample(idx, 2)
            t = "(= %s %s)" % (x, y)
        elif k < 0.65:
            x, y = eterm(1), eterm(1)
            if x == y:
                continue
            t = "(= %s %s)" % (x, y)
        else:
            x, y = aterm(1), aterm(1)
            if x == y:
                continue
            t = "(= %s %s)" % (x, y)
        if t not in atoms:
            atoms.append(t)
    return hdr, atoms, z3


def chain_la(r, real):
    """Family 'bounds implied by an active bound': one sum term with a chain of bounds of the same kind (the strongest is
    asserted first, weaker ones are declared late, asserted although implied, and retracted alone) and bounds on the
    summands that are (in)consistent with the strongest one only through the row of the sum."""
    sort = "Real" if real else "Int"
    n = r.randint(2, 3)
    vs = ["x", "y", "z"][:n]
    coef = [r.choice([1, 1, 1, -1, 2]) for _ in vs]
    t = "(+ %s)" % " ".join(v if a == 1 else "(* %s %s)" % (num(a), v) for a, v in zip(coef, vs))
    upper = r.random() < 0.5
    c1 = r.randint(-3, 3)
    steps = sorted(r.sample(range(1, 9), r.randint(1, 3)))
    cs = [c1] + [c1 + d if upper else c1 - d for d in steps]          # strongest first
    chain = ["(%s %s %s)" % ("<=" if upper else ">=", t, num(c)) for c in cs]
    # bounds on the summands pushing the sum the other way; their total is around the strongest bound
    total = c1 + r.choice([-1, 0, 1, 1, 2]) * (1 if upper else -1)
    parts, rest = [], total
    for i, (a, v) in enumerate(zip(coef, vs)):
        share = rest if i == n - 1 else r.randint(-2, 2)
        rest -= share
        # a*v >= share (upper chain) / a*v <= share (lower chain), written as a bound on v
        q = share // a if (share % a == 0) else None
        if q is None:
            q = (share // a) + (1 if (upper == (a > 0)) else 0)
        rel = (">=" if a > 0 else "<=") if upper else ("<=" if a > 0 else ">=")
        parts.append("(%s %s %s)" % (rel, v, num(q)))
    hdr = ["fun %s %s" % (v, sort) for v in vs]
    extra = []
    while len(extra) < r.randint(0, 3):
        a = "(%s %s %s)" % (r.choice(["<=", ">=", "<", ">"]), r.choice(vs + [t]), num(r.randint(-4, 4)))
        if a not in chain + parts + extra:
            extra.append(a)
    atoms = chain + parts + extra
    nc, npart = len(chain), len(parts)
    ops = ["D0"] + ["D%d" % (nc + i) for i in range(npart)] + ["D%d" % (nc + npart + i) for i in range(len(extra)) if r.random() < 0.6]
    declared = set(int(o[1:]) for o in ops)

    def noise():
        x = r.random()
        if x < 0.25:
            return ["C1"] + (["F"] if r.random() < 0.3 else [])
        if x < 0.35:
            return ["G"]
        if x < 0.45:
            return ["C0"]
        if x < 0.6 and extra:
            k = nc + npart + r.randrange(len(extra))
            return (["D%d" % k] if k not in declared and not declared.add(k) else []) + ["A%d%s" % (k, r.choice("+-")), "C1", "B1"]
        return []
    ops += ["A0+", "C1"]
    for j in range(1, nc):
        ops += noise()
        ops += ["D%d" % j, "A%d+" % j] + (["C1"] if r.random() < 0.7 else []) + ["B1"]
    order = list(range(nc, nc + npart))
    r.shuffle(order)
    for k in order:
        ops += noise()
        ops += ["A%d+" % k] + (["C1"] if r.random() < 0.6 else [])
    ops += ["C1", "F", "B%d" % r.choice([1, 2, 99]), "C1", "F"]
    return hdr, atoms, ["(declare-fun %s () %s)" % (v, sort) for v in vs], ops


def gen_pool(r, th):
    if th == "LRA":
        return pool_la(r, True)
    if th == "LIA":
        return pool_la(r, False)
    if th == "IDL":
        return pool_dl(r, False)
    if th == "RDL":
        return pool_dl(r, True)
    if th == "UF":
        return pool_uf(r)
    return pool_ax(r)


def gen_ops(r, natoms, nops, late_ok=True, pos_bias=0.5):
    ops = []
    # atoms declared after assertions have begun (LASolver::declareAtom after initSolver, Egraph::declareAtom at a
    # backtrack depth > 0 with its REANALYZE undo entries): a fifth of the atoms in ordinary histories, half of them in
    # "late-heavy" histories, where a late declaration is usually followed by asserting that atom, a check and a
    # backtrack of it alone, so that what the declaration computed under the then-current literals has to be undone.
    # The STP solvers get every atom before the first assertion (CoreSMTSolver::declareVarsToTheories; see design/C22.md).
    heavy = late_ok and r.random() < 0.4
    late = set(k for k in range(natoms) if late_ok and r.random() < (0.5 if heavy else 0.2))
    for k in range(natoms):
        if k not in late:
            ops.append("D%d" % k)
    late = list(late)
    r.shuffle(late)
    for _ in range(nops):
        x = r.random()
        if late and x < (0.14 if heavy else 0.06):
            k = late.pop()
            ops.append("D%d" % k)
            if heavy and r.random() < 0.7:
                ops.append("A%d%s" % (k, "+" if r.random() < max(pos_bias, 0.6) else "-"))
                if r.random() < 0.6:
                    ops += ["C1", "F"]
                if r.random() < 0.6:
                    ops.append("B1")
        elif x < 0.56:
            ops.append("A%d%s" % (r.randrange(natoms), "+" if r.random() < pos_bias else "-"))
            if r.random() < 0.12:
                ops.append("F")
        elif x < 0.63:
            ops.append("X%d" % r.randrange(8))
        elif x < 0.69:
            ops.append("G")
        elif x < 0.74:
            ops.append("C0")
        elif x < 0.88:
            ops += ["C1", "F"]
        else:
            ops.append("B%d" % (r.choice([1, 1, 1, 2, 2, 3, 4, 99])))
    ops += ["C1", "F"]
    return ops


def seq_text(sid, th, hdr, atoms, ops):
    return "\n".join(["seq %s %s" % (sid, th)] + hdr + ["atom %s" % a for a in atoms] + ["ops " + " ".join(ops), "end"]) + "\n"


# ---------------------------------------------------------------------------------------------
# running the harness, reading its log
# ---------------------------------------------------------------------------------------------
def run_harness(h, text, timeout=300):
    rc, out = vlib.sh([h], input=text, timeout=timeout)
    return rc, out


def split_log(out):
    """{seq id: list of lines}; a sequence without its 'end' line is marked incomplete."""
    seqs, cur, sid = {}, None, None
    for line in out.split("\n"):
        if line.startswith("seq "):
            sid = line.split()[1]
            cur = []
            seqs[sid] = dict(lines=cur, complete=False)
        elif line == "end" and cur is not None:
            seqs[sid]["complete"] = True
            cur = None
        elif cur is not None:
            cur.append(line)
    return seqs


LIT = re.compile(r"^(\d+):([+-])$")


def parse_lits(ws):
    """-> list of (k, sign) and list of foreign tokens"""
    lits, foreign = [], []
    for w in ws:
        m = LIT.match(w)
        if m:
            lits.append((int(m.group(1)), m.group(2) == "+"))
        else:
            foreign.append(w)
    return lits, foreign


def events_of(lines):
    """Replay the log: list of dict(kind, stack (copy, after the step), ...)."""
    ev, stack = [], []
    usable = {}
    i = 0
    for line in lines:
        w = line.split()
        if not w:
            continue
        if w[0] == "atom":
            usable[int(w[1])] = (w[2] == "ok")
        elif w[0] == "decl":
            ev.append(dict(kind="decl", k=int(w[1]), stack=list(stack), la=[]))
        elif w[0] == "assert":
            m = LIT.match(w[1])
            k, s = int(m.group(1)), m.group(2) == "+"
            stack.append((k, s))
            res = w[3] == "1"
            e = dict(kind="assert", k=k, sign=s, res=res, stack=list(stack), la=[])
            if not res:
                e["noexpl"] = "noexpl" in w
                rest = [x for x in w[5:] if x != "noexpl"] if len(w) > 4 else []
                e["expl"], e["foreign"] = parse_lits(rest)
            ev.append(e)
        elif w[0] == "back":
            n = int(w[1])
            del stack[len(stack) - n:]
            ev.append(dict(kind="back", n=n, stack=list(stack), la=[]))
        elif w[0] == "check":
            v = w[3]
            e = dict(kind="check", complete=w[1] == "1", verdict=v, stack=list(stack), la=[], splits=any(x.startswith("splits=") for x in w))
            if v == "UNSAT":
                j = w.index("expl") if "expl" in w else len(w)
                rest = [x for x in w[j + 1:] if x != "noexpl"]
                e["noexpl"] = "noexpl" in w
                e["expl"], e["foreign"] = parse_lits(rest)
            ev.append(e)
        elif w[0] == "ded":
            lits, foreign = parse_lits(w[1:])
            ev.append(dict(kind="ded", lits=lits, foreign=foreign, stack=list(stack), la=[]))
        elif w[0] == "fresh":
            ev.append(dict(kind="fresh", verdict=w[2], splits="splits" in w, stack=list(stack), la=[]))
        elif w[0] == "freshlate":
            if ev and ev[-1]["kind"] == "fresh":
                ev[-1]["freshlate"] = w[2]
        elif w[0] in ("lastore", "lastate", "labounds", "labound", "freshbounds", "dlstate"):
            if ev:
                ev[-1]["la"].append(line)
        elif w[0] in ("skip",):
            pass
        elif w[0] in ("exception", "bad"):
            ev.append(dict(kind="error", text=line, stack=list(stack), la=[]))
    return ev


# ---------------------------------------------------------------------------------------------
# judging with z3 (one process per sequence, push/pop per query)
# ---------------------------------------------------------------------------------------------
def lit_text(atoms, k, s):
    return atoms[k] if s else "(not %s)" % atoms[k]


def z3_multi(items):
    """items: list of (z3decl, atoms, queries) -> list of result lists; ONE z3 process ((reset) between items)."""
    lines = []
    for z3decl, atoms, queries in items:
        lines.append("(reset)")
        lines += list(z3decl)
        for q in queries:
            lines.append("(push 1)")
            for k, s in q:
                lines.append("(assert %s)" % lit_text(atoms, k, s))
            lines.append("(check-sat)")
            lines.append("(pop 1)")
        lines.append('(echo "@@")')
    rc, out = vlib.run_ref("z3", "\n".join(lines) + "\n", timeout=600)
    res, cur = [], []
    for l in out.split("\n"):
        l = l.strip()
        if l == "@@":
            res.append(cur)
            cur = []
        elif l in ("sat", "unsat", "unknown"):
            cur.append(l)
        elif l:
            cur.append("unknown")      # an error line of z3 takes the place of an answer
    out_res = []
    for i, (z3decl, atoms, queries) in enumerate(items):
        r = res[i] if i < len(res) else []
        out_res.append(r if len(r) == len(queries) else ["unknown"] * len(queries))
    return out_res


def z3_batch(z3decl, atoms, queries):
    return z3_multi([(z3decl, atoms, queries)])[0] if queries else []


def collect_queries(th, ev):
    """(event index, role, literal list)"""
    qs = []
    for i, e in enumerate(ev):
        if e["kind"] in ("assert", "check") and (e.get("res") is False or e.get("verdict") == "UNSAT"):
            qs.append((i, "expl", e["expl"]))
        elif e["kind"] == "check" and e["verdict"] == "SAT" and e["complete"] and not e["splits"] and th in COMPLETE:
            qs.append((i, "sat", e["stack"]))
        elif e["kind"] == "ded":
            for l in e["lits"]:
                qs.append((i, "ded", e["stack"] + [(l[0], not l[1])]))
        elif e["kind"] == "fresh":
            if e["verdict"] == "UNSAT" or (e["verdict"] == "SAT" and not e["splits"] and th in COMPLETE):
                qs.append((i, "fresh", e["stack"]))
    return qs


def query_keys(th, ev):
    uniq = {}
    for _, _, q in collect_queries(th, ev):
        uniq.setdefault(tuple(sorted(set(q))), None)
    return list(uniq)


def declare_order_suffix(ev, i):
    """A wrong SAT at event i: does a fresh instance that is given ONLY the surviving assertions, with the declarations at the
    same places relative to them, give the same wrong SAT?  Then no retracted literal is involved: the verdict depends on
    WHEN an atom was declared, not on what was asserted and retracted (separate signature)."""
    if i + 1 < len(ev) and ev[i + 1]["kind"] == "fresh" and ev[i + 1]["stack"] == ev[i]["stack"] and ev[i + 1].get("freshlate") == "SAT":
        return ":declare-order"
    return ""


def judge(th, atoms, z3decl, ev, answers=None):
    """-> list of findings dict(sig, what, index)"""
    out = []
    qs = collect_queries(th, ev)
    uniq = {}
    keys = query_keys(th, ev)
    res = answers if answers is not None else z3_batch(z3decl, atoms, [list(k) for k in keys])
    for k, v in zip(keys, res):
        uniq[k] = v
    last_check = None
    for i, e in enumerate(ev):
        if e["kind"] == "error":
            out.append(dict(sig="harness-exception:%s" % th, what="exception while driving the solver: %s" % e["text"], index=i, tie=True))
        if e["kind"] in ("assert", "check") and (e.get("res") is False or e.get("verdict") == "UNSAT"):
            cur = set(e["stack"])
            if e.get("noexpl"):
                out.append(dict(sig="unsat-without-explanation:%s" % th, what="inconsistency reported but no solver has an explanation", index=i))
            stale = [l for l in e["expl"] if l not in cur]
            if stale or e["foreign"]:
                out.append(dict(sig="stale-literal-in-explanation:%s" % th, index=i,
                                what="the explanation %s contains %s which is not among the currently asserted literals %s"
                                     % (e["expl"], stale or e["foreign"], e["stack"])))
        if e["kind"] == "check" and e["complete"]:
            last_check = e
    for (i, role, q) in qs:
        v = uniq[tuple(sorted(set(q)))]
        e = ev[i]
        if role == "expl" and v == "sat":
            out.append(dict(sig="explanation-not-unsat:%s" % th, index=i, lits=q,
                            what="inconsistency reported with explanation %s, which is T-satisfiable (z3)" % (q,)))
        elif role == "sat" and v == "unsat":
            out.append(dict(sig="sat-on-unsat-set:%s%s" % (th, declare_order_suffix(ev, i)), index=i, lits=q,
                            what="complete check answered SAT but the current literal set %s is T-unsatisfiable (z3)" % (q,)))
        elif role == "ded" and v == "sat":
            out.append(dict(sig="deduction-not-entailed:%s" % th, index=i, lits=q,
                            what="a theory deduction is not entailed by the current literals: current + negation = %s is T-satisfiable (z3)" % (q,)))
        elif role == "fresh":
            if (e["verdict"] == "UNSAT" and v == "sat") or (e["verdict"] == "SAT" and v == "unsat"):
                out.append(dict(sig="fresh-instance-wrong:%s" % th, index=i, lits=q,
                                what="a fresh solver given only the current stack %s answers %s, z3 says %s" % (q, e["verdict"], v)))
    # incremental vs fresh on the same stack (F directly follows a complete check or a conflict)
    for i in range(1, len(ev)):
        e, p = ev[i], ev[i - 1]
        if e["kind"] != "fresh" or p["stack"] != e["stack"] or e["splits"]:
            continue
        if p["kind"] == "check" and p["complete"] and not p["splits"]:
            a = p["verdict"]
        elif p["kind"] == "assert" and not p["res"]:
            a = "UNSAT"
        else:
            continue
        b = e["verdict"]
        if (th in COMPLETE and {a, b} == {"SAT", "UNSAT"}) or (th not in COMPLETE and a == "SAT" and b == "UNSAT" and False):
            out.append(dict(sig="incremental-vs-fresh:%s%s" % (th, declare_order_suffix(ev, i - 1) if a == "SAT" else ""), index=i, lits=e["stack"],
                            what="after the history the solver answers %s on the stack %s, a fresh instance answers %s" % (a, e["stack"], b)))
    return out


# ---------------------------------------------------------------------------------------------
# the LA bound stack against the extracted model
# ---------------------------------------------------------------------------------------------
def la_requests(ev):
    """driver requests + expected state lines, from the log of an LA sequence."""
    reqs, expect = ["BS reset"], [None]
    for i, e in enumerate(ev):
        la = {}
        for l in e["la"]:
            la.setdefault(l.split()[0], l)
        if "lastate" not in la:
            continue
        store = la["lastore"].split()[1:]
        nv = la["lastate"].count("| v")
        st = "BS store " + " ".join("%s:%s:%s:%s" % (x.split(":")[0], x.split(":")[3], x.split(":")[4], x.split(":")[5]) for x in store)
        if e["kind"] == "assert":
            b = la["labound"].split()
            reqs += [st, "BS assert %s %s %s" % (b[1], b[2], b[3])]
            # conflict from the bound stack alone (trivially unsatisfied); other conflicts need the Simplex and are not predicted
            expect += [None, ("conflict", i)]
        elif e["kind"] == "back":
            reqs += [st, "BS back %d" % e["n"]]
            expect += [None, None]
        else:
            reqs += [st]
            expect += [None]
        reqs.append("BS state %d" % nv)
        expect.append(("state", i, la["lastate"][len("lastate "):]))
    return reqs, expect


def norm_state(s):
    return re.sub(r"\s+", " ", s).strip()


def la_tie(exe, th, ev, lines=None):
    """-> list of (name, detail, index)"""
    reqs, expect = la_requests(ev)
    if len(reqs) <= 1:
        return [], 0
    if lines is None:
        rc, out = vlib.sh([exe], input="".join(r + "\n" for r in reqs), timeout=120)
        lines = out.split("\n")
    else:
        rc = 0
    bad = []
    n = 0
    if rc != 0 or len(lines) < len(reqs):
        return [("boundstack-correspondence-run", "model rc=%s lines %d/%d" % (rc, len(lines), len(reqs)), 0)], 0
    for r, x, l in zip(reqs, expect, lines):
        if x is None:
            continue
        if x[0] == "state":
            n += 1
            if norm_state(l) != norm_state(x[2]):
                bad.append(("boundstack-correspondence", "after step %d (%s): model '%s' implementation '%s'" % (x[1], ev[x[1]]["kind"], norm_state(l), norm_state(x[2])), x[1]))
        elif x[0] == "conflict":
            e = ev[x[1]]
            if l.strip() == "conflict=1" and e["res"]:
                bad.append(("boundstack-correspondence", "step %d: model predicts a bound conflict, implementation asserted successfully" % x[1], x[1]))
    return bad, n


def fresh_bounds_findings(th, ev):
    out = []
    for i in range(1, len(ev)):
        e = ev[i]
        if e["kind"] != "fresh":
            continue
        fb = [l for l in e["la"] if l.startswith("freshbounds")]
        # the incremental solver's bounds: last labounds line before this event
        cur = None
        for p in reversed(ev[:i]):
            lb = [l for l in p["la"] if l.startswith("labounds")]
            if lb:
                cur = lb[-1]
                break
        if fb and cur is not None:
            def parse(line):
                return dict((m.group(1), m.group(2).strip()) for m in re.finditer(r"\[(.*?) (L.*?)\]", line))
            def active(x):
                # 'L v1 v2 .. U w1 w2 ..' -> (current lower bound, current upper bound) = last entries
                m = re.match(r"^L(.*?) U(.*)$", x + " ")
                lo, up = m.group(1).split(), m.group(2).split()
                return (lo[-1] if lo else None, up[-1] if up else None)
            a, b = parse(cur[len("labounds"):]), parse(fb[0][len("freshbounds"):])
            # the ACTIVE lower / upper bound of every term (bounds of equal value may be stacked differently: their
            # order in the sorted bound list depends on the declaration order)
            for t in set(a) | set(b):
                if active(a.get(t, "L U")) != active(b.get(t, "L U")):
                    out.append(dict(sig="active-bounds-depend-on-history:%s" % th, index=i,
                                    what="bounds of %s after the history: '%s'; in a fresh solver given the current stack %s: '%s'" % (t, a.get(t), e["stack"], b.get(t))))
                    break
    return out


# ---------------------------------------------------------------------------------------------
def process(job):
    """one sequence: returns dict(findings, ties, stats)"""
    h, exe, sid, th, hdr, atoms, z3decl, ops, lines, complete = job[:10]
    answers, la_lines = (job[10], job[11]) if len(job) > 10 else (None, None)
    ev = events_of(lines)
    res = dict(sid=sid, th=th, findings=[], ties=[], nstates=0, ev=ev)
    if not complete:
        res["findings"].append(dict(sig="solver-crash:%s" % th, what="the harness died while driving this history (last lines: %s)" % " / ".join(lines[-3:]), index=len(ev)))
        return res
    res["findings"] += judge(th, atoms, z3decl, ev, answers)
    if th in ("LRA", "LIA"):
        bad, n = la_tie(exe, th, ev, la_lines)
        res["ties"] += bad
        res["nstates"] = n
        res["findings"] += fresh_bounds_findings(th, ev)
    return res


def confirm(th, atoms, z3decl, f):
    """Second look at a suspected violation: cvc5, and the verified evaluator where a model must exist."""
    lits = f.get("lits")
    if lits is None:
        return "structural"
    text = "\n".join(z3decl + ["(assert %s)" % lit_text(atoms, k, s) for k, s in lits] + ["(check-sat)"]) + "\n"
    rc, out = vlib.run_ref("cvc5", "(set-logic ALL)\n" + text, timeout=30)
    c = out.strip().split("\n")[0] if out.strip() else "unknown"
    want_sat = f["sig"].split(":")[0] in ("explanation-not-unsat", "deduction-not-entailed") or (f["sig"].startswith("fresh-instance-wrong") and "answers UNSAT" in f["what"])
    if want_sat:
        if th == "AX":
            return "cvc5:" + c
        try:
            q = [x for x in sc.Script(text).run() if x[0] == "check-sat"][0]
            v, m = sc.certify_sat_with_oracle_model(q[4], "ALL", z3decl, sc.active_assertions(q[3]))
            return "cvc5:%s evaluator:%s" % (c, v)
        except Exception as ex:
            return "cvc5:%s evaluator-glue-error:%s" % (c, ex)
    return "cvc5:" + c


def shrink(h, exe, sid, th, hdr, atoms, z3decl, ops, sig, budget=60):
    """greedy removal of operations while the same signature is reproduced; returns (ops, finding text of the small run)."""
    last = [None]

    def fails(o):
        rc, out = run_harness(h, seq_text("s", th, hdr, atoms, o), timeout=20)
        sq = split_log(out).get("s")
        if sq is None:
            return False
        r = process((h, exe, "s", th, hdr, atoms, z3decl, o, sq["lines"], sq["complete"]))
        hit = [f["what"] for f in r["findings"] if f["sig"] == sig] + [t[1] for t in r["ties"] if ("tie:" + t[0]) == sig]
        if hit:
            last[0] = hit[0]
        return bool(hit)
    cur = list(ops)
    n = 0
    chunk = max(1, len(cur) // 4)
    while chunk >= 1 and n < budget:
        i = 0
        progressed = False
        while i < len(cur) and n < budget:
            cand = cur[:i] + cur[i + chunk:]
            n += 1
            if cand and fails(cand):
                cur = cand
                progressed = True
            else:
                i += chunk
        if not progressed:
            chunk //= 2
    return cur, last[0]


def run(ctx):
    exe, log = vlib.build_extracted("tsolver")
    if not exe:
        ctx.tie_broken("extraction-tsolver", log)
        return
    h, hlog = vlib.compile_harness("h_tsolver", flags=("-DNDEBUG",))
    if not h:
        ctx.tie_broken("harness-h_tsolver", hlog)
        return
    seqs = []
    # corpus first
    for p in sorted(glob.glob(os.path.join(vlib.VERIF, "corpus", "C22", "*.json"))):
        d = json.load(open(p))
        seqs.append((d["theory"], d["hdr"], d["atoms"], d["z3decl"], d["ops"]))
    n = 1500 if ctx.quick else 50000
    for i in range(n):
        r = random.Random(ctx.seed * 15485863 + i * 101 + 22)
        th = r.choice(THEORIES)
        if th in ("LRA", "LIA") and r.random() < 0.2:
            hdr, atoms, z3decl, ops = chain_la(r, th == "LRA")
        else:
            hdr, atoms, z3decl = gen_pool(r, th)
            ops = gen_ops(r, len(atoms), r.randint(25, 60), late_ok=th in ("LRA", "LIA", "UF"), pos_bias=0.7 if th in ("UF", "AX") else 0.5)
        # every complete check is followed by the fresh-instance comparison
        ops = [x for k, o in enumerate(ops) for x in ([o, "F"] if o == "C1" and (k + 1 == len(ops) or ops[k + 1] != "F") else [o])]
        seqs.append((th, hdr, atoms, z3decl, ops))
    t0 = time.time()
    # harness: chunks of sequences, in parallel
    chunks = [list(range(k, min(k + 60, len(seqs)))) for k in range(0, len(seqs), 60)]

    def run_chunk(ix):
        """harness, z3 and the extracted model: one process each for the whole chunk"""
        text = "".join(seq_text(str(j), *(seqs[j][k] for k in (0, 1, 2, 4))) for j in ix)
        rc, out = run_harness(h, text, timeout=150)
        logs = split_log(out)
        todo = []
        for j in ix:
            th, hdr, atoms, z3decl, ops = seqs[j]
            sq = logs.get(str(j))
            if sq is None:         # lost after a crash / hang of an earlier history of the chunk: run it alone
                rc2, out2 = run_harness(h, seq_text(str(j), th, hdr, atoms, ops), timeout=20)
                sq = split_log(out2).get(str(j)) or dict(lines=[], complete=False)
            todo.append((j, sq))
        evs = {j: events_of(sq["lines"]) for j, sq in todo}
        items, la_in, la_count = [], [], {}
        for j, sq in todo:
            th, hdr, atoms, z3decl, ops = seqs[j]
            items.append((z3decl, atoms, [list(k) for k in query_keys(th, evs[j])]))
            if th in ("LRA", "LIA") and sq["complete"]:
                reqs, _ = la_requests(evs[j])
                la_count[j] = len(reqs) if len(reqs) > 1 else 0
                if la_count[j]:
                    la_in += reqs
        zres = z3_multi(items)
        la_out = []
        if la_in:
            rc3, out3 = vlib.sh([exe], input="".join(x + "\n" for x in la_in), timeout=600)
            la_out = out3.split("\n")
        res, pos = [], 0
        for (j, sq), ans in zip(todo, zres):
            th, hdr, atoms, z3decl, ops = seqs[j]
            ll = None
            if la_count.get(j):
                ll = la_out[pos:pos + la_count[j]]
                pos += la_count[j]
            res.append(process((h, exe, j, th, hdr, atoms, z3decl, ops, sq["lines"], sq["complete"], ans, ll)))
        return res
    with cf.ThreadPoolExecutor(max_workers=10) as ex:
        results = [r for rs in ex.map(run_chunk, chunks) for r in rs]
    ctx.note("harness + z3 + extracted bound-stack model: %d histories in %.1f s" % (len(seqs), time.time() - t0))
    nstates = 0
    nverdicts = {}
    reported = set()
    for r in results:
        th, ev = r["th"], r["ev"]
        j = r["sid"]
        _, hdr, atoms, z3decl, ops = seqs[j]
        backs = [i for i, e in enumerate(ev) if e["kind"] == "back"]
        verd_after = bool(backs) and any(e["kind"] in ("check", "assert") for e in ev[backs[0]:])
        ctx.case(key=(th, tuple(atoms), tuple(ops)), nontrivial=verd_after, kind="history:%s" % th)
        for e in ev:
            if e["kind"] == "check":
                k = "verdict:%s:check(%s):%s%s" % (th, "complete" if e["complete"] else "partial", e["verdict"], "+splits" if e["splits"] else "")
                ctx.count(k)
            elif e["kind"] == "assert" and not e["res"]:
                ctx.count("verdict:%s:assert-conflict" % th)
            elif e["kind"] == "ded":
                ctx.count("deductions:%s" % th, len(e["lits"]))
            elif e["kind"] == "fresh":
                ctx.count("fresh-instance:%s:%s" % (th, e["verdict"]))
        nstates += r["nstates"]
        if len(SAMPLES) < 4 and verd_after and th not in [s["theory"] for s in SAMPLES]:
            SAMPLES.append(dict(theory=th, atoms=atoms, ops=" ".join(ops),
                                log=[l for l in sum(([("%s %s" % (e["kind"], {k: v for k, v in e.items() if k in ("k", "sign", "res", "n", "verdict", "expl", "lits", "complete")}))] for e in ev[:40]), [])][-12:]))
        for t in r["ties"]:
            if ("tie", t[0], th) in reported:
                continue
            reported.add(("tie", t[0], th))
            small, what = shrink(h, exe, j, th, hdr, atoms, z3decl, ops, "tie:" + t[0]) if t[0] == "boundstack-correspondence" else (ops, None)
            ctx.tie_broken(t[0], "%s history %s: %s" % (th, j, what or t[1]), dict(theory=th, hdr=hdr, atoms=atoms, ops=small))
        for f in r["findings"]:
            if f.get("tie"):
                ctx.tie_broken(f["sig"], f["what"], dict(theory=th, hdr=hdr, atoms=atoms, ops=ops))
                continue
            if f["sig"] in reported:
                ctx.violation(f["sig"], f["what"], None)      # counted under the same signature; replay written once
                continue
            reported.add(f["sig"])
            second = confirm(th, atoms, z3decl, f)
            small, what = shrink(h, exe, j, th, hdr, atoms, z3decl, ops, f["sig"])
            rc2, out2 = run_harness(h, seq_text("r", th, hdr, atoms, small), timeout=60)
            ctx.violation(f["sig"], "%s solver, history %s over the literals %s: %s [second opinion on the original history: %s]"
                          % (th, " ".join(small), atoms, what or f["what"], second),
                          dict(theory=th, hdr=hdr, atoms=atoms, z3decl=z3decl, ops=small, original_ops=ops, second_opinion=second,
                               harness_input=seq_text("r", th, hdr, atoms, small), harness_log=out2.split("\n")[:200],
                               how="build/harness/h_tsolver < harness_input"))
    ctx.note("bound-stack states compared exactly with the extracted model: %d" % nstates)
    ctx.samples = SAMPLES[:4]
