"""C07 — minimal unsat cores are irreducible."""
import concurrent.futures as cf
import glob
import json
import os
import random

import vlib
import smtlib
import solvercheck as sc
import corecheck as cc
import scriptgen_cores as G
from smtlib import sx_str, read_all, ParseError

META = dict(
    title="Minimal unsat cores are irreducible",
    category="proof",
    technique="Coq proof of the deletion-based minimisation loop (performNaive written literally over an abstract inner solver) + "
              "per-run decisive check of every reported minimal core with the Coq-verified SMT-LIB evaluator + replay of the traced "
              "inner checks on the extracted model",
    level_text="FULL for the algorithm: Properties_C07.v proves, for every background list, every target list and every correct inner "
               "solver (chk S = true <-> sat S for any monotone sat), that UnsatCoreBuilder::Minimize::performNaive returns an "
               "order-preserving sublist of the targets that is unsatisfiable with the background and becomes satisfiable when any "
               "one element is dropped (c07_irreducible, c07_minimal, c07_subset), for minimize in full and in named mode "
               "(c07_minimize_full, c07_minimize_named); the named-mode statement needs that no unnamed assertion's term carries a "
               "name, and is refuted without it (c07_named_also_unnamed_refuted, reproduced: known finding). Correctness of the inner "
               "solver's answers is established PER RUN: for each reported minimal core each drop-one set is certified satisfiable by "
               "the verified evaluator on a model proposed by z3 or opensmt; that the core with the background is unsatisfiable is "
               "ORACLE-ONLY (z3 and cvc5 agree). Tie: with the hook proposed_hooks/C07_minimize.diff every inner check (asserted list, "
               "answer) and the result are replayed exactly on the extracted model, and the model is re-run with z3 as the oracle; "
               "without the hook the model is re-run with z3 on the targets of a twin run without minimisation.",
    level_note="Trusted: Coq kernel; coq/Sem as the SMT-LIB semantics; extraction; ocaml/core_driver.ml, ocaml/sem_driver.ml; lib/smtlib.py, "
               "lib/solvercheck.py, lib/corecheck.py, lib/scriptgen_cores.py; the trace hook (prints PTRef numbers). z3/cvc5 are untrusted: "
               "they propose models (then verified) and give the ORACLE-ONLY unsat side. Not modelled: MainSolver used as the inner solver.",
    design_ref="DESIGN.md §7 C07, design/C07.md",
    trusted_base=["Coq 8.16.1 kernel", "coq/Sem/Eval.v (SMT-LIB semantics) for the certified satisfiable side",
                  "extraction: ExtrOcamlBasic, ExtrOcamlString only", "ocaml/core_driver.ml, ocaml/sem_driver.ml",
                  "lib/smtlib.py, lib/solvercheck.py, lib/corecheck.py (script interpretation: assertion stack, names, options)",
                  "z3 4.8.12 + cvc5 1.0.3 only for the unsat side (labelled ORACLE-ONLY) and as model proposers"],
    assumptions=["the inner solver answers correctly (checked per run on every drop-one set, certified; on the core itself by oracles)",
                 "generated scripts are well-sorted SMT-LIB with all declarations first"],
    rule="lib/scriptgen_cores.py: contradiction kits (implication chains, case splits, pigeonhole 3/2, difference cycles, bounds, sums, "
         "disjunctive arithmetic, congruence chains and diamonds) + redundant consequences + duplicates + noise, spread over 2-12 named and "
         "unnamed assertions, QF_UF / QF_LRA / QF_LIA / propositional, single-query and push/pop histories incl. directed ones (several names per term, re-assertion after pop, assertions after an unsat answer), :minimal-unsat-cores on, "
         ":print-cores-full on in ~30 %, option toggles in mid-script; case = one (get-unsat-core) answer after unsat with minimisation on; "
         "non-trivial = the minimisation had >= 2 targets or the core >= 2 elements; distinct = (script, query index)",
)


def replace_minimal_off(text):
    return text.replace("(set-option :minimal-unsat-cores true)", "(set-option :minimal-unsat-cores false)")


def core_of_answer(ans):
    if isinstance(ans, list) and not (ans and ans[0] == "error"):
        return ans
    return None


def oracle_min(terms_sx, bg, targets, logic, decls):
    """run the extracted performNaive with chk := z3 (untrusted) on lists of ids; returns result ids or None (oracle unknown)"""
    tab = {}
    for _ in range(len(targets) + 2):
        a = cc.driver(["min %s|%s|%s" % (cc.ilist(bg), cc.ilist(targets), cc.table_str(tab))])[0]
        if a.startswith("ok "):
            return cc.parse_ok(a)[0]
        if not a.startswith("missing"):
            raise RuntimeError("driver: " + a)
        L = [int(x) for x in a[8:].split(",")] if a[8:].strip() else []
        v, _ = sc.ref_answer("z3", cc.lg(logic), decls, [terms_sx[i] for i in L])
        if v not in ("sat", "unsat"):
            return None
        tab[tuple(L)] = v == "sat"
    return None


def block_terms(block, sig, decls):
    """trace terms of a minimisation as s-expressions with the signature / declarations extended by opensmt's auxiliary
    ite constants: (terms, sig', decls') or None when a term does not read back"""
    need = set(block.bg) | set(block.targets)
    try:
        t = {k: read_all(v)[0] for k, v in block.terms.items() if k in need}
    except (ParseError, IndexError):
        return None
    if set(t) != need:
        return None
    ext = cc.with_aux_symbols(list(t.values()), sig, decls)
    if ext is None:
        return None
    return t, ext[0], ext[1]


def tie_block(block, core, full, rec, text, si, sig, logic, decls, out, cnt):
    """exact replay of the traced minimisation on the extracted model + the model with z3 as inner solver"""
    if not block.begun:
        if len(core) != 0:
            out["ties"].append(("minimize-empty-targets", "no inner solver was created but the printed core is %s" % sx_str(core), dict(script=text, query=si)))
        else:
            cnt("tie:no-targets")
        return
    if not block.complete:
        out["ties"].append(("minimize-trace-incomplete", "min-begin without min-end", dict(script=text, query=si)))
        return
    ids = {}
    def cid(x):
        if x not in ids:
            ids[x] = len(ids)
        return ids[x]
    bgi, tgi = [cid(x) for x in block.bg], [cid(x) for x in block.targets]
    obs = [([cid(x) for x in L], a) for _, L, a in block.checks]
    resi = [cid(x) for x in block.result]
    if len(block.result) != len(core):
        out["ties"].append(("minimize-result-printed", "traced result has %d terms, printed core %d" % (len(block.result), len(core)), dict(script=text, query=si)))
    if any(a == "unknown" for _, a in obs):
        cnt("tie:inner-unknown")
        return
    tab = {}
    for L, a in obs:
        tab[tuple(L)] = a == "sat"
    reqs = ["min %s|%s|%s" % (cc.ilist(bgi), cc.ilist(tgi), cc.table_str(tab))]
    if block.mode == "named":
        reqs.append("mz 0|%s|%s|%s|%s" % (cc.ilist([cid(x) for x in block.current]), cc.ilist([1 if b else 0 for b in block.contains]),
                                        cc.ilist(tgi), cc.table_str(tab)))
    else:
        reqs.append("mz 1|||%s|%s" % (cc.ilist(tgi), cc.table_str(tab)))
    A = cc.driver(reqs)
    ok = A[0].startswith("ok ") and A[1].startswith("ok ")
    if ok:
        R, Lg = cc.parse_ok(A[0])
        R2, _ = cc.parse_ok(A[1])
        ok = R == resi and R2 == resi and Lg == [(L, a == "sat") for L, a in obs]
    if not ok:
        out["ties"].append(("minimize-replay", "extracted performNaive/minimize on the observed answers gives %s; implementation: bg %s targets %s result %s, checks %s"
                            % (A, bgi, tgi, resi, obs), dict(script=text, query=si)))
    else:
        cnt("tie:replay-exact")
        rec["replay_ok"] = True
    bt = block_terms(block, sig, decls)
    if bt is None:
        cnt("tie:oracle-skipped(trace terms unreadable)")
        return
    tsx = {cid(k): v for k, v in bt[0].items()}
    Rz = oracle_min(tsx, bgi, tgi, logic, bt[2])
    if Rz is None:
        cnt("tie:oracle-unknown")
    elif Rz != resi:
        rec["oracle_mismatch"] = ("minimize-vs-oracle", "performNaive with z3 as inner solver returns %s, implementation %s (targets %s, bg %s)"
                                  % (Rz, resi, tgi, bgi), dict(script=text, query=si, terms={k: sx_str(v) for k, v in tsx.items()}))
    else:
        cnt("tie:oracle-model-equal")


def own_problem(rec, mode, core, isig, logic, idecls, impl_bg, impl_targets, impl_result):
    """c07_irreducible on the implementation's own minimisation problem (terms as traced): if background + targets is
    unsatisfiable then background + result is, and every drop-one set is satisfiable (certified)."""
    if cc.judge_unsat(isig, logic, idecls, impl_bg + impl_targets)[0] != "agree":
        rec["own"] = "input-not-unsat"
        return
    rv, rd = cc.judge_unsat(isig, logic, idecls, impl_bg + impl_result)
    if rv in ("refuted-certified", "refuted-oracles"):
        rec["viol"].append(("minimisation-lost-unsat:%s" % mode,
                            "background + targets of the minimisation are unsatisfiable (z3 and cvc5) but background + result %s is satisfiable (%s); printed core %s"
                            % (sx_str(impl_result), rv, sx_str(core)), dict(model=rd, background=[sx_str(x) for x in impl_bg], targets=[sx_str(x) for x in impl_targets])))
        rec["own"] = "lost-unsat"
        return
    labels = []
    for j in range(len(impl_result)):
        v, how = cc.judge_sat(isig, logic, idecls, impl_bg + impl_result[:j] + impl_result[j + 1:])
        labels.append(v)
        if v == "unsat-oracles":
            rec["viol"].append(("reducible:%s:own-background" % mode,
                                "the result %s of the minimisation stays unsatisfiable with the background it was minimised against when %s is removed (z3 and cvc5: unsat)"
                                % (sx_str(impl_result), sx_str(impl_result[j])),
                                dict(element=sx_str(impl_result[j]), background=[sx_str(x) for x in impl_bg], targets=[sx_str(x) for x in impl_targets])))
    rec["own"] = "checked"
    rec["own_labels"] = labels


def work(job):
    seed, i, hook = job
    rng = random.Random(seed * 99991 + (i if isinstance(i, int) else 0))
    if isinstance(i, str):
        text = open(i).read()
        import re
        m = re.search(r"\(set-logic (\w+)\)", text)
        meta = dict(logic=m.group(1) if m else "QF_UF", features=["corpus"], incremental="(push" in text)
    else:
        text, meta = G.gen_core_script(rng, minimal=(rng.random() < 0.9), risky=0.2)
    out = dict(text=text, meta=meta, records=[], ties=[], counts={})
    def cnt(k, n=1):
        out["counts"][k] = out["counts"].get(k, 0) + n
    trace = os.path.join(vlib.BUILD, "tmp", "c07_%d_%s.trace" % (os.getpid(), abs(hash((seed, str(i))))))
    rc, res, stdout, err = cc.run_aligned(text, timeout=30, trace=trace if hook else None)
    tr = ""
    if hook and os.path.exists(trace):
        tr = open(trace).read()
        os.remove(trace)
    if rc == -9:
        cnt("timeout")
        return out
    if rc not in (0, 1):
        cnt("abnormal-exit(rc=%s)" % rc)
        out["crash"] = dict(rc=rc, stdout=stdout[-400:], stderr=err[-400:])
        return out
    states, sig = cc.interpret(text)
    try:
        nans = len(read_all(stdout))
    except ParseError:
        cnt("unparsable-output")
        return out
    if not res or nans != len(states) or len(res) != len(states):
        # never happens on the unchanged tree: some non-query command (assert, push, pop, set-option) answered, e.g.
        # "name already exists" for a name whose level was popped -- the script's reading of the history is not the solver's
        cnt("misaligned-output")
        out["ties"].append(("output-misaligned", "%d answers for %d query commands; stdout: %s" % (nans, len(states), stdout[:400]), dict(script=text)))
        return out
    logic, decls = meta["logic"], sc.decl_lines(text)
    blocks = cc.parse_min_trace(tr) if hook else []
    bi = 0
    last = None
    twin = None
    nmin = 0
    for si, (st, r) in enumerate(zip(states, res)):
        ans = r[4]
        if st.kind == "check-sat":
            last = ans
            cnt("answer:%s" % (ans if isinstance(ans, str) else "other"))
            if ans == "unsat":
                cc.note_unsat(states, si)
            continue
        if st.kind != "get-unsat-core" or last != "unsat" or not st.opts[":produce-unsat-cores"] or not st.opts[":minimal-unsat-cores"]:
            continue
        nmin += 1
        block = None
        if hook:
            block = blocks[bi] if bi < len(blocks) else None
            bi += 1
        core = core_of_answer(ans)
        full = st.opts[":print-cores-full"]
        rec = dict(si=si, full=full, answer=sx_str(ans) if ans is not None else None, skip=None, viol=[], sizes=None, labels=[])
        out["records"].append(rec)
        if core is None:
            rec["skip"] = "no-core-printed"
            continue
        top, unnamed, nest, allb = cc.view(st)
        mode = "full" if full else "named"
        if block is not None:
            tie_block(block, core, full, rec, text, si, sig, logic, decls, out, cnt)
            if (block.mode == "full") != full:
                out["ties"].append(("minimize-mode", "trace says %s, the script's option state says %s" % (block.mode, mode), dict(script=text, query=si)))
        # implementation's own problem: background, targets and result as traced (hook)
        impl_bg = impl_targets = impl_result = None
        isig, idecls = sig, decls
        if block is not None and block.complete:
            bt = block_terms(block, sig, decls)
            if bt is not None:
                tsx, isig, idecls = bt
                impl_bg, impl_targets, impl_result = [tsx[k] for k in block.bg], [tsx[k] for k in block.targets], [tsx[k] for k in block.result]
        def own():
            if impl_result is not None and "own" not in rec:
                own_problem(rec, mode, core, isig, logic, idecls, impl_bg, impl_targets, impl_result)
        # ---- the core as assertions of the script ---------------------------------------------------------------
        if full:
            if not all(cc.symbols_known(f, sig) for f in core):
                rec["skip"] = "full-core-has-undeclared-symbols(C06)"
                own()
                continue
            cterms, bg = list(core), []
        else:
            if not all(isinstance(n, str) for n in core) or any(n not in top for n in core) or len(set(core)) != len(core):
                rec["skip"] = "name-not-a-current-named-assertion(C06)"
                own()
                continue
            cterms, bg = [top[n] for n in core], list(unnamed)
        rec["sizes"] = (len(bg), len(cterms), len(block.targets) if block is not None and block.begun else None)
        if impl_result is not None:
            if len(impl_result) != len(cterms) or not cc.all_equivalent(logic, idecls, list(zip(impl_result, cterms))):
                rec["skip"] = "printed-%s-do-not-denote-the-minimised-terms(C06)" % ("formulas" if full else "names")
                own()
                continue
        elif block is None and not full and nmin == 1:
            # no hook: the targets are the core of a twin run without minimisation, in printing order
            twin = cc.run_aligned(replace_minimal_off(text), timeout=30)
            trc, tres = twin[0], twin[1]
            T = core_of_answer(tres[si][4]) if trc in (0, 1) and tres and len(tres) == len(states) else None
            if T is not None and all(isinstance(n, str) and n in top for n in T):
                named_bodies = {sx_str(sc.strip_named(b)) for b in list(top.values()) + list(nest.values())}
                impl_targets = [top[n] for n in T]
                impl_bg = [u for u in unnamed if sx_str(sc.strip_named(u)) not in named_bodies]
                if not st.popped_names and not any(cc.has_nonbool_ite(b, sig) for b in allb):
                    tsx = dict(enumerate(impl_targets + impl_bg))
                    Rz = oracle_min(tsx, list(range(len(T), len(tsx))), list(range(len(T))), logic, decls)
                    if Rz is None:
                        cnt("tie:oracle-unknown")
                    elif [T[k] for k in Rz] != core:
                        rec["oracle_mismatch"] = ("minimize-vs-oracle(twin run)", "performNaive with z3 on the targets %s of the twin run returns %s, implementation printed %s"
                                                  % (T, [T[k] for k in Rz], core), dict(script=text, query=si))
                    else:
                        cnt("tie:twin-oracle-model-equal")
        # (a) core + background unsatisfiable  (ORACLE-ONLY)
        uv, ud = cc.judge_unsat(sig, logic, decls, bg + cterms)
        rec["unsat"] = uv
        if uv in ("refuted-certified", "refuted-oracles"):
            # the minimisation is at fault only if its own input (background + targets) was unsatisfiable and its own output
            # is not (judged on the traced terms); otherwise the core was wrong before the minimisation: C06's business
            if impl_result is not None:
                own()
                if rec.get("own") != "lost-unsat":
                    rec["skip"] = "core-satisfiable-but-not-by-minimisation(C06)"
            elif impl_targets is not None and cc.judge_unsat(sig, logic, decls, impl_bg + impl_targets)[0] == "agree":
                rec["viol"].append(("minimisation-lost-unsat:%s" % mode,
                                    "background + core %s of the twin run without minimisation are unsatisfiable (z3 and cvc5) but the reported minimal core %s with the unnamed assertions is satisfiable (%s)"
                                    % (sx_str(impl_targets), sx_str(core), uv), dict(model=ud)))
            else:
                rec["skip"] = "core-satisfiable-but-not-by-minimisation(C06)"
        else:
            # (b) dropping any single element: certified satisfiable
            for j in range(len(cterms)):
                rest = bg + cterms[:j] + cterms[j + 1:]
                v, how = cc.judge_sat(sig, logic, decls, rest)
                rec["labels"].append(v)
                if v != "unsat-oracles":
                    continue
                cause = "plain"
                if not full and impl_bg is None and block is None:
                    # no trace: mirror of the implementation's background from the script (terms that carry a live, nested
                    # or popped name are not hard-asserted)
                    carrying = {cc.norm(b) for b in list(top.values()) + list(nest.values())}
                    impl_bg = [u for u in unnamed if cc.norm(u) not in carrying]
                missing = [u for u in unnamed if not cc.represented(logic, idecls, u, impl_bg)] if (not full and impl_bg is not None) else []
                # every unnamed assertion the implementation left out of its background must be one whose term carries a live
                # name (top-level or on a subterm): only that is the known defect
                carriers = list(top.values()) + list(nest.values())
                explained = bool(missing) and all(cc.equivalent_to_some(logic, decls, u, carriers) for u in missing)
                if not full and impl_bg is not None and (rec.get("replay_ok") or block is None) and explained:
                    # (replay_ok: the traced background is exactly the current assertions for which contains() is false;
                    #  some unnamed assertion of the script is not in it)
                    # the implementation's background misses unnamed assertions whose term carries a name: is the core
                    # irreducible with respect to the background actually used?
                    if impl_result is not None and len(impl_result) == len(core):
                        v2, _ = cc.judge_sat(isig, logic, idecls, impl_bg + impl_result[:j] + impl_result[j + 1:])
                    else:
                        v2, _ = cc.judge_sat(sig, logic, decls, impl_bg + cterms[:j] + cterms[j + 1:])
                    if v2 == "certified":
                        cause = "unnamed-assertion-term-carries-name"
                rec["viol"].append(("reducible:%s:%s" % (mode, cause),
                                    "the minimal core %s stays unsatisfiable%s when %s is removed (z3 and cvc5: unsat)" %
                                    (sx_str(core), "" if full else " with the unnamed assertions", sx_str(core[j])),
                                    dict(element=sx_str(core[j]), implementation_background=[sx_str(x) for x in impl_bg] if impl_bg is not None else None,
                                         unnamed=[sx_str(x) for x in unnamed])))
        if impl_result is not None and not full and (len(impl_bg) != len(unnamed) or rec["viol"]):
            own()
    if hook and bi != len(blocks):
        out["ties"].append(("minimize-trace-count", "%d minimisations traced, %d minimising get-unsat-core commands answered" % (len(blocks), bi), dict(script=text)))
    return out


def run(ctx):
    hook = cc.hook_present()
    ctx.note("minimisation trace hook (proposed_hooks/C07_minimize.diff) %s" % ("present: exact replay of the inner checks" if hook else
             "absent: twin-run tie only"))
    cc.core_exe()
    n = 90 if ctx.quick else 1500
    corpus = sorted(glob.glob(os.path.join(vlib.VERIF, "corpus", "C07", "*.smt2")))
    jobs = [(ctx.seed, p, hook) for p in corpus] + [(ctx.seed, i, hook) for i in range(n)]
    with cf.ThreadPoolExecutor(max_workers=14) as ex:
        results = list(ex.map(work, jobs))
    for o in results:
        for k, v in o["counts"].items():
            ctx.count(k, v)
        text, meta = o["text"], o["meta"]
        if "crash" in o:
            ctx.note("abnormal exit on a generated script (C18's business): %s" % json.dumps(o["crash"])[:300])
        for name, detail, case in o["ties"]:
            ctx.tie_broken(name, detail, case)
        for rec in o["records"]:
            mode = "full" if rec["full"] else "named"
            if rec.get("oracle_mismatch") and not rec["viol"]:
                ctx.tie_broken(*rec["oracle_mismatch"])
            if rec.get("own"):
                ctx.count("own-problem:%s" % rec["own"])
                for l in rec.get("own_labels", []):
                    ctx.count("own-problem:drop-one:%s" % l)
            for sig_, what, extra in (rec["viol"] if rec["sizes"] is None else []):
                rp = dict(script=text, query_index=rec["si"], printed_core=rec["answer"], features=meta.get("features"))
                rp.update(extra)
                ctx.violation(sig_, what, rp)
            if rec["skip"]:
                ctx.count("skipped:%s" % rec["skip"])
            if rec["sizes"] is None:
                continue
            nb, nc, nt = rec["sizes"]
            ctx.case(key=(text, rec["si"]), nontrivial=(nc >= 2 or (nt or 0) >= 2),
                     kind="%s:%s:%s" % (meta["logic"], mode, "incr" if meta["incremental"] else "single"),
                     sample=dict(script=text, query_index=rec["si"], core=rec["answer"], background=nb, targets=nt, core_unsat=rec.get("unsat"),
                                 drop_one=rec["labels"]))
            ctx.count("core-size:%d" % nc)
            if nt is not None:
                ctx.count("dropped-by-minimisation:%d" % (nt - nc))
            if rec.get("unsat") == "agree":
                ctx.count("core+background unsat: ORACLE-ONLY (z3 and cvc5 agree)")
            elif rec.get("unsat") == "undecided":
                ctx.count("core+background unsat: undecided")
            for l in rec["labels"]:
                ctx.count("drop-one:%s" % l)
            for sig_, what, extra in rec["viol"]:
                rp = dict(script=text, query_index=rec["si"], printed_core=rec["answer"], features=meta.get("features"))
                rp.update(extra)
                ctx.violation(sig_, what, rp)
