"""C26 — arithmetic conflicts carry valid Farkas certificates."""
import json
from fractions import Fraction

import vlib
import thtrace as T
import thcheck as TC
import scriptgen_th as SG

META = dict(
    title="Arithmetic conflicts carry valid Farkas certificates",
    category="proof",
    technique="Coq proof (Farkas certificate checker sound + complete; the simplex row explanation of Simplex.cc always "
              "passes it) + every LA conflict of traced runs replayed through the extracted checker",
    level_text="Th/SimplexRow.v models Simplex::getConflictingBounds / assertBound's bound clash / LASolver's "
               "literal<->bound mapping and proves for all rows and bound values that the produced (bounds, coefficients) "
               "pass farkas_check; farkas_check is proved sound and characterised (positive coefficients, all variables "
               "cancel, constant inequality false). On every run each (la ...) event of generated QF_LRA/QF_LIA/QF_UFLRA/"
               "QF_UFLIA(+arrays, UFIDL/UFRDL) scripts under 8 engine configurations is checked by the extracted checker.",
    level_note="Trusted: Coq kernel, extraction, ocaml/th_driver.ml + bits.ml, lib/thtrace.py (parsing of printed atoms "
               "into linear forms), hooks H2/H3. Integer logics: the bound of a negated literal not(c <= t) is the "
               "tightened t <= ceil(c)-1 exactly as LASolver::getBoundsValueForIntVar and LIAInterpolator use it. "
               "Not modelled: the pivoting loop itself (only the explanation of the final row), Tableau maintenance "
               "(the row is assumed to be a linear consequence of the definitions: hypothesis row_holds, checked per "
               "emitted certificate at run time by the cancellation test).",
    design_ref="DESIGN.md §7 C26, design/C26.md",
    trusted_base=["Coq 8.16.1 kernel", "extraction: ExtrOcamlBasic, ExtrOcamlString only",
                  "ocaml/th_driver.ml + ocaml/bits.ml (decimal -> positive/Z/Q)",
                  "lib/thtrace.py + lib/thcheck.py: s-expression reader, linearisation of printed atoms",
                  "hooks H2/H3 in THandler.cc / LASolver.cc (print the conflict and its coefficients)"],
    assumptions=["FastRational arithmetic is exact (C15)", "Logic::termToSMT2String prints the atom the solver holds (C17)"],
    rule="scripts from lib/scriptgen_th.py (families random/sched/grid/parity; strict bounds, equalities, coefficients "
         "beyond 2^32 and 2^64, up to 12 variables, push/pop) x engines default/lookahead/picky/ghost/proofs/itp/nosimp/incr; "
         "a case = one (la ...) event; non-trivial = at least 2 literals; distinct = distinct (literals, coefficients)",
)

LOGIC_CYCLE = ["QF_LRA", "QF_LIA", "QF_LRA", "QF_LIA", "QF_UFLRA", "QF_UFLIA", "QF_LRA", "QF_LIA", "QF_ALIA", "QF_UFIDL",
               "QF_LRA", "QF_LIA", "QF_UFLRA", "QF_UFLIA", "QF_ALRA", "QF_UFRDL"]


def make_scripts(ctx, n):
    out = []
    for i in range(n):
        logic = LOGIC_CYCLE[i % len(LOGIC_CYCLE)]
        engine = SG.ENGINES[(i // len(LOGIC_CYCLE) + i) % len(SG.ENGINES)]
        out.append(SG.gen(ctx.rng, logic, engine))
    return out


def judge_reject(ctx, s, ev, lits, isint, why):
    """a certificate the verified checker rejects: property-level violation of C26"""
    conj = [(sc, c, pol) for sc, c, pol, _ in lits] if lits else None
    other = None
    if conj:
        try:
            other = TC.find_coeffs(isint, conj)
        except Exception as e:  # the LP is only a helper
            other = None
    verdict = ("wrong coefficients, conflict valid (LP finds %s)" % [str(x) for x in other]) if other else \
        "no Farkas coefficients exist for these literals: the conflict itself is not T-unsatisfiable by LP (also a C11 violation)"
    sig = "la-certificate:%s:%s:%s" % (s["logic"], why, "coeffs" if other else "conflict")
    return ctx.violation(sig, "LA conflict whose Farkas certificate is rejected (%s): %s" % (why, verdict),
                  dict(script=s["text"], engine=s["engine"], logic=s["logic"], event=ev.raw, integer_tightening=isint,
                       verdict=verdict, how="OPENSMT_VERIF_TRACE=t build/impl/opensmt script.smt2; the (la ...) line of t"))


def run(ctx):
    drv = TC.get_driver(ctx)
    if drv is None:
        return
    n = 224 if ctx.quick else 1500
    cap = 150 if ctx.quick else 1000          # (la) events checked per script (the first ones; the rest is counted)
    need = 3000 if ctx.quick else 30000
    queries, meta = [], []
    state = dict(n_la=0, scripts=0, with_conflict=0)

    def do_batch(scripts):
        TC.run_scripts(scripts, timeout=2 if ctx.quick else 8)
        for s in scripts:
            state["scripts"] += 1
            state["with_conflict"] += "(la " in s["trace"]
            isint = SG.is_int_logic(s["logic"])
            ctx.count("script:%s:%s:%s" % (s["logic"], s["engine"], s.get("family")))
            if s["rc"] == -9:
                ctx.count("script-timeout")
            try:
                evs = T.read_trace(s["trace"], want=("t", "la"), max_la=cap)
                if evs and getattr(evs[-1], "truncated", False):
                    ctx.count("script-events-capped")
            except T.ParseError as e:
                ctx.tie_broken("trace-unreadable", "%s" % e, dict(script=s["text"]))
                continue
            for ev in evs:
                if ev.kind == "la":
                    state["n_la"] += 1
                    lits = TC.la_event_lits(ev)
                    if lits is None:
                        if judge_reject(ctx, s, ev, None, isint, "malformed"):
                            ctx.tie_broken("la-event-shape", ev.raw[:300], dict(script=s["text"]))
                        continue
                    queries.append(TC.encode_la("Q", isint, lits))
                    meta.append((s, ev, lits, isint))
                elif ev.kind == "t" and ev.la is not None:
                    # the clause handed to the SAT solver is the negation of the certified conjunction
                    a = sorted((T.show(at), pol) for at, pol, _ in ev.la.la)
                    b = sorted((T.show(T.split_literal(t)[0]), not T.split_literal(t)[1]) for t in ev.terms)
                    if a != b:
                        ctx.tie_broken("la-conflict-vs-clause", "certified conjunction and theory clause differ: %s / %s" % (ev.la.raw[:200], ev.raw[:200]),
                                       dict(script=s["text"]))
            s["trace"] = ""      # free memory

    do_batch(TC.corpus_scripts("C26") + make_scripts(ctx, n))
    extra_rounds = 0
    while state["n_la"] < need and extra_rounds < 4:
        # a loaded machine makes more scripts hit the time limit: top up with further scripts (same generator)
        extra_rounds += 1
        ctx.count("top-up-round")
        do_batch(make_scripts(ctx, n // 2))
    n_la = state["n_la"]
    try:
        answers = drv.batch(queries)
    except RuntimeError as e:
        ctx.tie_broken("th-driver", str(e))
        return
    # how many integer certificates rely on the tightening (informative)
    for (s, ev, lits, isint), ans in zip(meta, answers):
        key = ev.raw[ev.raw.find(" ((") if " ((" in ev.raw else 0:]
        kinds = []
        if any(not pol for _, _, pol, _ in lits):
            kinds.append("strict" if not isint else "tightened")
        if any(abs(x.numerator) > 2**32 or x.denominator > 2**32 for sc, c, _, k in lits for x in [c, k] + list(sc.values())):
            kinds.append("big")
        ctx.case(key=s["logic"] + key, nontrivial=len(lits) >= 2,
                 sample=dict(logic=s["logic"], engine=s["engine"], event=ev.raw[:400], checker=ans),
                 kind="la:%s:%dlits" % (s["logic"], min(len(lits), 8)))
        for k_ in kinds:
            ctx.count("la-feature:" + k_)
        if ans != "1":
            if judge_reject(ctx, s, ev, lits, isint, "rejected" if ans == "0" else "driver:" + ans[:40]):
                ctx.tie_broken("la-certificate", "extracted la_conflict_check rejects %s" % ev.raw[:300], dict(script=s["text"], event=ev.raw))
    ctx.extra["la_conflicts"] = n_la
    ctx.extra["scripts"] = state["scripts"]
    ctx.note("%d LA conflicts from %d scripts (%d with at least one conflict)" % (n_la, state["scripts"], state["with_conflict"]))
    if n_la < need:
        ctx.tie_broken("too-few-conflicts", "only %d LA conflicts were produced by the generated scripts" % n_la)
