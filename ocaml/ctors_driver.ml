(* C14 driver: glue around the extracted constructor model (coq/Terms) and the extracted evaluator.
   stdin : the records printed by harness/h_terms.cc
             R \t LOGIC \t op \t result \t ranks \t rt \t arg1 \t arg2 ...
   stdout: one line per record
             T=<ok|ok-expanded|ok-unfixed|diff> \t S=<ok:n|cex:<assignment>|none> \t W=<2|1|0> \t model=<term|none>
   T: exact comparison (after sorting the arguments of commutative operators) of the implementation's
      result with the model's ([ok-expanded]: equals the O(n^2) expansion of distinct; [ok-unfixed]: equals only
      the model variant of mkTimes that drops all but the last sum).
   S: the extracted [eval] applied to  TApp op args  and to the implementation's result under a grid of
      interpretations; cex = they differ (a certified violation of C14 for this tuple).
   W: 2 = all arguments satisfy [wf], 1 = only [wf_nc] (a non-canonically spelled literal), 0 = neither.
   Trusted here: parsing/printing, decimal conversion (bits.ml), the interpretation grid, array semantics of
   select/store on the finite universe, argument sorting for comparison. *)
open Ctors_model

(* ---------- numbers ---------- *)
let rec pos_of_bits = function
  | [] -> failwith "zero" | [true] -> XH
  | b :: r -> if b then XI (pos_of_bits r) else XO (pos_of_bits r)
let rec bits_of_pos = function XH -> [true] | XO p -> false :: bits_of_pos p | XI p -> true :: bits_of_pos p
let z_of_string s =
  let neg = String.length s > 0 && s.[0] = '-' in
  let body = if neg then String.sub s 1 (String.length s - 1) else s in
  if body = "" then failwith ("bad integer: " ^ s);
  match Bits.bits_of_decimal body with
  | [] -> Z0 | b -> if neg then Zneg (pos_of_bits b) else Zpos (pos_of_bits b)
let string_of_z = function
  | Z0 -> "0" | Zpos p -> Bits.decimal_of_bits (bits_of_pos p) | Zneg p -> "-" ^ Bits.decimal_of_bits (bits_of_pos p)
let string_of_q (x : q) =
  match x.qden with XH -> string_of_z x.qnum | d -> string_of_z x.qnum ^ "/" ^ Bits.decimal_of_bits (bits_of_pos d)
let q_of_string s : q =
  match String.index_opt s '/' with
  | None -> { qnum = z_of_string s; qden = XH }
  | Some i ->
    let n = z_of_string (String.sub s 0 i) in
    (match z_of_string (String.sub s (i + 1) (String.length s - i - 1)) with
     | Zpos d -> { qnum = n; qden = d }
     | _ -> failwith ("bad rational: " ^ s))
let rec nat_of_int n = if n <= 0 then O else S (nat_of_int (n - 1))
let rec int_of_nat = function O -> 0 | S n -> 1 + int_of_nat n

(* ---------- s-expressions ---------- *)
type sx = A of string | L of sx list
let parse_sx (s : string) : sx =
  let n = String.length s in
  let i = ref 0 in
  let rec skip () = if !i < n && (s.[!i] = ' ') then (incr i; skip ()) in
  let rec go () =
    skip ();
    if !i >= n then failwith "sexp: eof";
    if s.[!i] = '(' then begin
      incr i;
      let items = ref [] in
      let rec loop () =
        skip ();
        if !i >= n then failwith "sexp: eof in list";
        if s.[!i] = ')' then incr i else (items := go () :: !items; loop ()) in
      loop (); L (List.rev !items)
    end else begin
      let j = ref !i in
      while !j < n && s.[!j] <> ' ' && s.[!j] <> '(' && s.[!j] <> ')' do incr j done;
      let a = String.sub s !i (!j - !i) in
      i := !j; A a
    end in
  go ()

let uf_table = [ "f", (1, SU O); "g", (2, SU O); "p", (3, SBool); "hi", (4, SInt); "hr", (5, SReal); "pi", (6, SBool);
                 "select", (100, SU O); "store", (101, SU (S O)) ]
let op_table = [ "and", OAnd; "or", OOr; "not", ONot; "xor", OXor; "=>", OImpl; "ite", OIte; "=", OEq; "distinct", ODistinct;
                 "+", OPlus; "-", OMinus; "*", OTimes; "/", ORDiv; "div", OIDiv; "mod", OMod;
                 "<=", OLeq; "<", OLt; ">=", OGeq; ">", OGt ]
let op_of_name nm =
  match List.assoc_opt nm op_table with
  | Some o -> o
  | None -> (match List.assoc_opt nm uf_table with
      | Some (f, rs) -> OUF (nat_of_int f, rs)
      | None -> failwith ("unknown operator " ^ nm))
let name_of_op o =
  match List.find_opt (fun (_, o') -> o' = o) op_table with
  | Some (n, _) -> n
  | None -> (match o with
      | OUF (f, _) -> (match List.find_opt (fun (_, (f', _)) -> f' = int_of_nat f) uf_table with Some (n, _) -> n | None -> "uf?")
      | _ -> "?")

let literal (s : sort) (lit : string) : term =
  let v = q_of_string lit in
  let canon = string_of_q (qred v) in
  let sp = if canon = lit then 0 else 1 + (Hashtbl.hash lit mod 97) in
  TNum (s, v, nat_of_int sp)

let rec term_of_sx (x : sx) : term =
  match x with
  | A "true" -> TBool true
  | A "false" -> TBool false
  | A a when String.length a > 2 && a.[0] = '#' ->
    let lit = String.sub a 2 (String.length a - 2) in
    (match a.[1] with
     | 'i' -> literal SInt lit
     | 'r' -> literal SReal lit
     | 'u' -> TUc (SU O, nat_of_int (try int_of_string lit with _ -> 3 + Hashtbl.hash lit mod 50))
     | _ -> failwith ("bad constant " ^ a))
  | A a when String.length a >= 2 ->
    let k = nat_of_int (int_of_string (String.sub a 1 (String.length a - 1))) in
    (match a.[0] with
     | 'b' -> TVar (SBool, k) | 'i' -> TVar (SInt, k) | 'r' -> TVar (SReal, k)
     | 'u' -> TVar (SU O, k) | 'a' -> TVar (SU (S O), k)
     | _ -> failwith ("bad variable " ^ a))
  | A a -> failwith ("bad atom " ^ a)
  | L (A nm :: args) -> TApp (op_of_name nm, List.map term_of_sx args)
  | L _ -> failwith "bad application"

let rec print_term (t : term) : string =
  match t with
  | TBool b -> if b then "true" else "false"
  | TVar (s, x) ->
    (match s with SBool -> "b" | SInt -> "i" | SReal -> "r" | SU O -> "u" | SU _ -> "a") ^ string_of_int (int_of_nat x)
  | TNum (s, v, sp) ->
    (match s with SInt -> "#i" | _ -> "#r") ^ string_of_q v ^ (match sp with O -> "" | _ -> "~" ^ string_of_int (int_of_nat sp))
  | TUc (_, c) -> "#u" ^ string_of_int (int_of_nat c)
  | TApp (o, args) -> "(" ^ String.concat " " (name_of_op o :: List.map print_term args) ^ ")"

let commutative = function OAnd | OOr | OXor | OEq | ODistinct | OPlus | OTimes -> true | _ -> false
let rec canon (t : term) : term =
  match t with
  | TApp (o, args) ->
    let args = List.map canon args in
    TApp (o, if commutative o then List.sort compare args else args)
  | _ -> t

(* ---------- interpretations ---------- *)
let zs = List.map z_of_string
    [ "0"; "1"; "-1"; "2"; "-2"; "3"; "-3"; "5"; "7"; "-7"; "2147483647"; "2147483648"; "-2147483648"; "4294967296";
      "9223372036854775808"; "-9223372036854775809"; "100000000000000000000"; "6"; "-4"; "10" ]
let int_grid = Array.of_list (List.map (fun z -> { qnum = z; qden = XH }) zs)
let real_grid = Array.of_list (Array.to_list int_grid @ List.map q_of_string
                                 [ "1/2"; "-1/2"; "1/3"; "-3/2"; "2/3"; "7/5"; "-1/1000000007"; "4294967297/2"; "5/4"; "-7/3" ])
let mix a b c = Hashtbl.hash (a, b, c)
let rec value_key = function
  | VB b -> if b then "T" else "F"
  | VN x -> string_of_q x
  | VU n -> "u" ^ string_of_int (int_of_nat n)
let digit3 code i = (code / (if i = 0 then 1 else if i = 1 then 3 else 9)) mod 3
let make_interp (mask : int) (j : int) : interp =
  { vi = (fun s x ->
        let x = int_of_nat x in
        match s with
        | SBool -> VB ((mask lsr x) land 1 = 1)
        | SInt -> VN int_grid.(mix j x 17 mod Array.length int_grid)
        | SReal -> VN real_grid.(mix j x 29 mod Array.length real_grid)
        | SU O -> VU (nat_of_int (mix j x 31 mod 3))
        | SU _ -> VU (nat_of_int (mix j x 37 mod 27)));
    fi = (fun f vs ->
        let f = int_of_nat f in
        let us = List.map (fun v -> int_of_nat (asU v) mod 3) vs in
        match f, vs with
        | 100, [a; _] -> VU (nat_of_int (digit3 (int_of_nat (asU a) mod 27) (List.nth us 1)))
        | 101, [a; _; _] ->
          let code = int_of_nat (asU a) mod 27 and i = List.nth us 1 and v = List.nth us 2 in
          let p = if i = 0 then 1 else if i = 1 then 3 else 9 in
          VU (nat_of_int (code - digit3 code i * p + v * p))
        | _ ->
          let h = mix j f (String.concat "," (List.map value_key vs)) in
          (* the caller coerces to the result sort: give every component a value *)
          (match List.assoc_opt f (List.map (fun (_, (f, rs)) -> (f, rs)) uf_table) with
           | Some SBool -> VB (h land 1 = 1)
           | Some SInt -> VN int_grid.(h mod 10)
           | Some SReal -> VN real_grid.(h mod Array.length real_grid)
           | _ -> VU (nat_of_int (h mod 3)))) }

(* an explicit assignment of the variables (from an untrusted solver's model); everything else as in make_interp 0 0 *)
let interp_of_assignment (asg : (string * string) list) : interp =
  let base = make_interp 0 0 in
  { vi = (fun s x ->
        let nm = (match s with SBool -> "b" | SInt -> "i" | SReal -> "r" | SU O -> "u" | SU _ -> "a") ^ string_of_int (int_of_nat x) in
        match List.assoc_opt nm asg, s with
        | Some v, SBool -> VB (v = "true" || v = "1")
        | Some v, (SInt | SReal) -> VN (q_of_string v)
        | Some v, SU _ -> VU (nat_of_int (int_of_string v))
        | None, _ -> base.vi s x);
    fi = base.fi }

let describe_interp (mask : int) (j : int) (ts : term list) : string =
  (* the values of the variables occurring in ts under the interpretation *)
  let i = make_interp mask j in
  let seen = Hashtbl.create 16 in
  let rec vars t = match t with
    | TVar (_, _) -> if not (Hashtbl.mem seen t) then Hashtbl.add seen t ()
    | TApp (_, a) -> List.iter vars a | _ -> () in
  List.iter vars ts;
  let l = Hashtbl.fold (fun t () acc -> (print_term t ^ "=" ^ value_key (eval i t)) :: acc) seen [] in
  Printf.sprintf "mask=%d j=%d {%s}" mask j (String.concat " " (List.sort compare l))

let sem_check (lhs : term) (rhs : term) (big : bool) : string =
  let n = ref 0 in
  let cex = ref None in
  let try_one mask j =
    if !cex = None then begin
      incr n;
      let i = make_interp mask j in
      let a = eval i lhs and b = eval i rhs in
      if a <> b then cex := Some (Printf.sprintf "%s lhs=%s rhs=%s" (describe_interp mask j [lhs; rhs]) (value_key a) (value_key b))
    end in
  let nj = if big then 40 else 6 in
  for j = 0 to nj - 1 do
    if big then for mask = 0 to 7 do try_one mask j done
    else (try_one (j mod 8) j; try_one ((j * 3 + 5) mod 8) j; try_one (7 - (j mod 8)) (j + 100))
  done;
  (* all Boolean assignments at one numeric point *)
  for mask = 0 to 7 do try_one mask 1000 done;
  match !cex with Some c -> "cex:" ^ c | None -> "ok:" ^ string_of_int !n

(* ---------- model dispatch ---------- *)
let is_uf_logic (lg : string) = lg = "QF_UF" || lg = "QF_AX" || lg = "QF_UFLRA" || lg = "QF_UFLIA" || lg = "ALL"

(* all acceptable model outputs with their label *)
let model_variants (leb : term -> term -> bool) (lg : string) (opn : string) (args : term list) : (string * term option) list =
  let uf = is_uf_logic lg in
  match opn with
  | "and" -> [ "ok", mkAnd leb args ]
  | "or" -> [ "ok", mkOr leb args ]
  | "not" -> [ "ok", (match args with [a] -> mkNot a | _ -> None) ]
  | "xor" -> [ "ok", mkXor leb args ]
  | "=>" -> [ "ok", mkImpl leb args ]
  | "ite" -> [ "ok", mkIte args ]
  | "=" -> [ "ok", mkEq leb uf args ]
  | "distinct" -> [ "ok", mkDistinct leb uf false args; "ok-expanded", mkDistinct leb uf true args ]
  | "+" -> [ "ok", mkPlus leb args ]
  | "-" -> [ "ok", mkMinus leb args ]
  | "neg" -> [ "ok", (match args with [a] -> mkNeg leb a | _ -> None) ]
  | "*" -> [ "ok", mkTimes leb true args; "ok-unfixed", mkTimes leb false args ]
  | "/" -> [ "ok", mkRealDiv leb args ]
  | "div" -> [ "ok", mkIntDiv leb args ]
  | "mod" -> [ "ok", mkMod args ]
  | "<=" -> [ "ok", mkLeq leb args ]
  | "<" -> [ "ok", mkLt leb args ]
  | ">=" -> [ "ok", mkGeq leb args ]
  | ">" -> [ "ok", mkGt leb args ]
  | nm -> (match List.assoc_opt nm uf_table with
      | Some (f, rs) -> [ "ok", mkUF (nat_of_int f) rs args ]
      | None -> failwith ("no model for " ^ nm))

let raw_app (opn : string) (args : term list) : term =
  match opn with
  | "neg" -> TApp (OMinus, args)
  | _ -> TApp (op_of_name opn, args)

let split_on_string (sep : string) (s : string) : string list =
  let ls = String.length sep and n = String.length s in
  let rec go start i acc =
    if i + ls > n then List.rev (String.sub s start (n - start) :: acc)
    else if String.sub s i ls = sep then go (i + ls) (i + ls) (String.sub s start (i - start) :: acc)
    else go start (i + 1) acc in
  if s = "" then [] else go 0 0 []

let process (line : string) : string =
  match String.split_on_char '\t' line with
  | "R" :: lg :: opn :: res :: ranks :: _rt :: args ->
    let args = List.map (fun a -> canon (term_of_sx (parse_sx a))) args in
    let rank_tbl =
      List.map (fun e ->
          match String.index_opt e '@' with
          | Some i -> (canon (term_of_sx (parse_sx (String.sub e (i + 1) (String.length e - i - 1)))), int_of_string (String.sub e 0 i))
          | None -> failwith ("bad rank " ^ e)) (split_on_string " ;; " ranks) in
    let rk t = match List.assoc_opt (canon t) rank_tbl with Some r -> r | None -> max_int in
    (* ArithLogic::termSort compares products by the PTRef of their variable (LessThan_deepPTRef): ties between
       x and c*x are real ties; terms whose PTRef is not reported are ordered after the others, structurally *)
    let key t = match t with
      | TApp (OTimes, [a; b]) -> (match a, b with TNum _, _ -> rk b | _, TNum _ -> rk a | _, _ -> rk t)
      | _ -> rk t in
    (* since fix c8000f0 ties (x, c*x) are broken by the term's own PTRef: a total order on the reported terms *)
    let leb a b =
      let ka = key a and kb = key b in
      if ka = max_int && kb = max_int then compare a b <= 0
      else if ka <> kb then ka <= kb
      else let ra = rk a and rb = rk b in
        if ra = max_int && rb = max_int then compare a b <= 0 else ra <= rb in
    let variants = model_variants leb lg opn args in
    let impl = if res = "undef" || (String.length res >= 4 && String.sub res 0 4 = "exc:") then None
      else Some (canon (term_of_sx (parse_sx res))) in
    let same m = match m, impl with
      | None, None -> true
      | Some a, Some b -> canon a = b
      | _, _ -> false in
    let label = match List.find_opt (fun (_, m) -> same m) variants with Some (l, _) -> l | None -> "diff" in
    let w = if List.for_all wf args then 2 else if List.for_all wf_nc args then 1 else 0 in
    let s = match impl with
      | None -> "none"
      | Some r -> sem_check (raw_app opn args) r (label <> "ok") in
    let shown = match snd (List.hd variants) with Some t -> print_term (canon t) | None -> "none" in
    Printf.sprintf "T=%s\tS=%s\tW=%d\tmodel=%s" label s w shown
  | "V" :: asg :: opn :: res :: args ->
    (* evaluate  op(args)  and  res  under an explicit assignment "x=v x=v ..." *)
    let asg = List.filter_map (fun e -> match String.index_opt e '=' with
        | Some i -> Some (String.sub e 0 i, String.sub e (i + 1) (String.length e - i - 1)) | None -> None)
        (String.split_on_char ' ' asg) in
    let i = interp_of_assignment asg in
    let args = List.map (fun a -> term_of_sx (parse_sx a)) args in
    let a = eval i (raw_app opn args) and b = eval i (term_of_sx (parse_sx res)) in
    if a <> b then Printf.sprintf "T=na\tS=cex:%s lhs=%s rhs=%s\tW=0\tmodel=none" (String.concat " " (List.map (fun (x, v) -> x ^ "=" ^ v) asg)) (value_key a) (value_key b)
    else "T=na\tS=ok:1\tW=0\tmodel=none"
  | _ -> "T=bad\tS=none\tW=0\tmodel=none"

let () =
  try while true do
      let l = input_line stdin in
      (try print_endline (process l)
       with e -> print_endline ("T=error\tS=none\tW=0\tmodel=" ^ Printexc.to_string e))
    done with End_of_file -> ()
