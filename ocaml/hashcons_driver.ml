(* C28 driver: replays the traces printed by harness/h_hashcons.cc on the extracted model (Terms/HashCons.v).
   stdin : harness output (BEGIN .. END blocks)
   stdout: one line per block
     SEQ <k> <mode> core=<v> deep=<v> deeptie=<v>      v = ok | <first disagreement, no spaces>
   Per sort mode the verdict covers: (raw modes) every operation of the trace replayed with [step] gives the
   identity the implementation returned and appends exactly the terms the implementation created (NEW lines), the model's final symbols and nodes equal the final dump; (all
   modes) replaying the final dump node by node through [mkFun] reproduces it exactly (the dump is a
   reachable model store) and the extracted checker [hc_check] accepts the dump. *)
open Hashcons_model

let rec nat_of_int n = if n <= 0 then O else S (nat_of_int (n - 1))
let rec int_of_nat = function O -> 0 | S n -> 1 + int_of_nat n
let chars s = List.init (String.length s) (String.get s)
let b s = s = "1"

type symline = { sid : int; info : syminfo; sg : int; name : string }
type nodeline = { nid : int; nsym : int; nargs : int list }

let parse_sym toks =
  match toks with
  | sid :: na :: cm :: bo :: fl :: ti :: co :: sg :: rest ->
    { sid = int_of_string sid;
      info = { sy_nargs = nat_of_int (int_of_string na); sy_comm = b cm; sy_boolop = b bo; sy_flex = b fl; sy_times = b ti; sy_const = b co };
      sg = int_of_string sg; name = String.concat " " rest }
  | _ -> failwith "bad SYM"
let parse_node toks =
  match toks with
  | i :: s :: args -> { nid = int_of_string i; nsym = int_of_string s; nargs = List.map int_of_string args }
  | _ -> failwith "bad NODE"

type opkind =
  | LVar of symline * string
  | LFun of int * int list * string
  | LDist of int * int list * string
  | LOther
type opline = { kind : opkind; created : nodeline list }   (* the NEW lines of the operation *)

type block = {
  mode : string; dm : int;
  isyms : symline list; inodes : nodeline list;
  ops : opline list;
  fsyms : symline list; fnodes : nodeline list;
  order_ok : bool; reissue_ok : bool; crashed : string option }

exception Mismatch of string
let fail fmt = Printf.ksprintf (fun s -> raise (Mismatch (String.map (fun c -> if c = ' ' then '_' else c) s))) fmt

let nl = List.map nat_of_int
let show_res = function
  | RSym f -> Printf.sprintf "sym%d" (int_of_nat f) | RTerm i -> string_of_int (int_of_nat i) | RSimp -> "simp" | RExc -> "exc"

let declare_all m s syms =
  List.fold_left (fun s y ->
      let s', r = step m s (OpDeclare (chars y.name, nat_of_int y.sg, y.info)) in
      (match r with RSym f when int_of_nat f = y.sid -> () | r -> fail "declare %s gives %s, implementation symbol %d" y.name (show_res r) y.sid);
      s') s syms
let mk_all m s nodes =
  List.fold_left (fun s n ->
      let s', r = step m s (OpMkFun (nat_of_int n.nsym, nl n.nargs)) in
      (match r with
       | RTerm i when int_of_nat i = n.nid && List.length s'.nodes = List.length s.nodes + 1 -> ()
       | r -> fail "node %d (sym %d) rebuilt gives %s" n.nid n.nsym (show_res r));
      s') s nodes

let same_info (a : syminfo) (b : syminfo) = a = b
let compare_final s blk =
  let ms = s.syms and mn = s.nodes in
  if List.length ms <> List.length blk.fsyms then fail "model has %d symbols, dump %d" (List.length ms) (List.length blk.fsyms);
  List.iteri (fun i y -> if not (same_info (List.nth ms i) y.info) then fail "symbol %d flags differ" i) blk.fsyms;
  if List.length mn <> List.length blk.fnodes then fail "model has %d nodes, dump %d" (List.length mn) (List.length blk.fnodes);
  List.iteri (fun i n ->
      let mnode = List.nth mn i in
      if n.nid <> i then fail "dump id %d at position %d" n.nid i;
      if int_of_nat mnode.n_sym <> n.nsym || List.map int_of_nat mnode.n_args <> n.nargs then fail "node %d differs" i) blk.fnodes

let verdict m blk =
  try
    (match blk.crashed with Some e -> fail "harness crashed: %s" e | None -> ());
    if not blk.order_ok then fail "ids/PTRefs not monotone";
    if not blk.reissue_ok then fail "re-issuing the sequence allocated or returned another term (model: same_term_same_id leaves the store unchanged)";
    let raw = String.length blk.mode >= 3 && String.sub blk.mode 0 3 = "raw" in
    if raw then begin
      let s = declare_all m (empty_store (nat_of_int blk.dm)) blk.isyms in
      let s = mk_all m s blk.inodes in
      let k = ref 0 in
      (* the terms an operation created must be exactly the nodes the model appended *)
      let same_new s s' (o : opline) =
        let n0 = List.length s.nodes in
        let added = List.filteri (fun i _ -> i >= n0) s'.nodes in
        let impl = List.map (fun n -> (n.nid, n.nsym, n.nargs)) o.created in
        let mdl = List.mapi (fun i n -> (n0 + i, int_of_nat n.n_sym, List.map int_of_nat n.n_args)) added in
        if impl <> mdl then fail "op %d: implementation created %d term(s), model %d (or different ones)" !k (List.length impl) (List.length mdl) in
      let s = List.fold_left (fun s o ->
          incr k;
          match o.kind with
          | LOther -> s
          | LVar (y, res) ->
            let s', r = step m s (OpMkVar (chars y.name, nat_of_int y.sg, y.info)) in
            if show_res r <> res then fail "op %d mkVar %s: model %s implementation %s" !k y.name (show_res r) res;
            same_new s s' o; s'
          | LFun (f, args, res) ->
            let s', r = step m s (OpMkFun (nat_of_int f, nl args)) in
            if show_res r <> res then fail "op %d mkFun sym %d: model %s implementation %s" !k f (show_res r) res;
            same_new s s' o; s'
          | LDist (f, args, res) ->
            let s', r = step m s (OpMkDistinct (nat_of_int f, nl args)) in
            if show_res r <> res then fail "op %d mkDistinct: model %s implementation %s" !k (show_res r) res;
            if r = RSimp && o.created <> [] then begin
              (* no distinction class left: the implementation writes the pairwise expansion with the simplifying
                 constructors (not modelled).  The model says: no node of the distinct symbol is created; whatever
                 else was built must be new nodes in the model's sense, with the same identities. *)
              if List.exists (fun n -> n.nsym = f) o.created then
                fail "op %d mkDistinct: model creates no term of symbol %d (simplified/expanded), implementation allocated one" !k f;
              mk_all m s' o.created
            end else (same_new s s' o; s')) s blk.ops in
      compare_final s blk
    end;
    (* the dump is a reachable store of the model *)
    let s = declare_all m (empty_store (nat_of_int blk.dm)) blk.fsyms in
    let s = mk_all m s blk.fnodes in
    compare_final s blk;
    (* extracted structural checker *)
    let sy = List.map (fun y -> y.info) blk.fsyms in
    let ns = List.map (fun n -> { n_sym = nat_of_int n.nsym; n_args = nl n.nargs }) blk.fnodes in
    if not (hc_check m sy ns) then fail "hc_check rejects the dump";
    "ok"
  with Mismatch s -> s | Failure s -> "driver-failure:" ^ s | Not_found -> "driver-failure"

let split s = List.filter (fun x -> x <> "") (String.split_on_char ' ' s)

let parse_op toks =
  (* OP <kind> ... -> res [id] *)
  let rec cut acc = function "->" :: r -> (List.rev acc, r) | x :: r -> cut (x :: acc) r | [] -> (List.rev acc, []) in
  let lhs, rhs = cut [] toks in
  let res = match rhs with "simp" :: _ -> "simp" | [x] -> x | _ -> "?" in
  let kind = match lhs with
  | "V" :: r -> LVar (parse_sym r, res)
  | "F" :: f :: args -> LFun (int_of_string f, List.map int_of_string args, res)
  | "D" :: f :: args -> LDist (int_of_string f, List.map int_of_string args, res)
  | _ -> LOther in
  { kind; created = [] }

let () =
  let k = ref 0 in
  let cur = ref None in
  let phase = ref 0 in
  (try while true do
      let l = input_line stdin in
      match split l with
      | "BEGIN" :: mode :: dm :: _ ->
        cur := Some { mode; dm = int_of_string dm; isyms = []; inodes = []; ops = []; fsyms = []; fnodes = []; order_ok = true; reissue_ok = true; crashed = None };
        phase := 0
      | "SYM" :: r -> (match !cur with Some c ->
          if !phase = 0 then cur := Some { c with isyms = parse_sym r :: c.isyms } else cur := Some { c with fsyms = parse_sym r :: c.fsyms } | None -> ())
      | "NODE" :: r -> (match !cur with Some c ->
          if !phase = 0 then cur := Some { c with inodes = parse_node r :: c.inodes } else cur := Some { c with fnodes = parse_node r :: c.fnodes } | None -> ())
      | "ORDER" :: v :: _ -> (match !cur with Some c -> if v <> "ok" then cur := Some { c with order_ok = false } | None -> ())
      | "OPS" :: _ -> phase := 1
      | "OP" :: r -> (match !cur with Some c -> cur := Some { c with ops = parse_op r :: c.ops } | None -> ())
      | "NEW" :: r -> (match !cur with
          | Some ({ ops = o :: rest; _ } as c) -> cur := Some { c with ops = { o with created = o.created @ [parse_node r] } :: rest }
          | _ -> ())
      | "REISSUE" :: v :: _ -> (match !cur with Some c -> if v <> "ok" then cur := Some { c with reissue_ok = false } | None -> ())
      | "FINAL" :: _ -> phase := 2
      | "CRASH" :: r -> (match !cur with Some c -> cur := Some { c with crashed = Some (String.concat "_" r) }
                                        | None -> cur := Some { mode = "?"; dm = 0; isyms = []; inodes = []; ops = []; fsyms = []; fnodes = []; order_ok = true; reissue_ok = true; crashed = Some (String.concat "_" r) })
      | "END" :: _ ->
        (match !cur with
         | Some c ->
           let c = { c with isyms = List.rev c.isyms; inodes = List.rev c.inodes; ops = List.rev c.ops; fsyms = List.rev c.fsyms; fnodes = List.rev c.fnodes } in
           Printf.printf "SEQ %d %s core=%s deep=%s deeptie=%s\n" !k c.mode (verdict SortCore c) (verdict SortDeep c) (verdict SortDeepTie c)
         | None -> Printf.printf "SEQ %d ? core=noblock deep=noblock deeptie=noblock\n" !k);
        incr k; cur := None
      | _ -> ()
    done with End_of_file -> ())
