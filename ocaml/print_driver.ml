(* C17 driver: one request per line, one answer per line.  Every piece of text travels hex-encoded (names contain
   blanks, newlines, parentheses).  Trusted glue: hex coding, the prefix-notation readers below, nat conversion.

   P <v> <interp 0|1> <hexname>          -> <hex protectName> <read std> <read osmt>       (read: S<hex> | N)
   Q <cfg> <hexname>                     -> <hex quote_symbol cfg name>
   L <cfg> <hextext>                     -> E | U | OK <sexps in the wire form below>
   S <v> <sort>                          -> <hex sortToString>
   T <v> <n> <sym>*n <term>              -> <hex print_term> <wire form of term_sexp>
   X <hextext>                           -> <read std> <read osmt>            (the text read as one symbol)
   Y <v> <n> <sym>*n <i>                 -> <hex symToString of symbol i>
   D <v> <b|d> <uniqueNum> <nt> <sym>*nt <i>
                                         the definition of symbol i of the table (the symbols of the logic)
                                         -> NONE | <hex def_header_fun of the builder / default definition> <next uniqueNum>
                                            <np> (<hexname> <sort>)*np          (the variables created, to extend the table)
   K <v> <sym>                           -> <hex def_header_const>
   R <v> <nu> <sym>*nu <nf> (<b|d> <uniq> <idx>)*nf   (idx: index into the user list; the definitions are created
                                         in this order, each extending the table of the next)
                                         -> NONE | <hex header>*nf
   G <v> <n> (<hexname> <hexvalue>)*n    -> OK <hex> | UB <hex>
   C <v> <n> <hexname>*n                 -> <hex core_names_text>
   E <v> <ast>                           -> <hex echo text> <0|1 stream dead> <wire form of ast_sexp>
   H <v> <n> <sym>*n <i> <isconst 0|1>   -> <hex dump_decl>
   J <v> <hexname> <arity>               -> <hex dump_sort_decl>

   v: f (faithful) | r (repaired);  cfg: s (SMT-LIB 2.6) | o (opensmt's lexer)
   sort:  <hexname>/<k> followed by k sorts
   sym:   <hexname> <interp 0|1> <k> <sort>*k <sort>          (argument sorts, then the return sort)
   term:  a<i>/<k> followed by k terms | n<neg 0|1>:<hexnum>:<hexden or ->
   ast:   c<hex> | s<hex> | q<hexname> <sort> | p<k> <head> <ast>*k | b<hexname> <ast> | l<k> (<hexname> <ast>)*k <ast>
   head:  h<hex> | g<hexname> <sort>
   wire form of s-expressions: tokens separated by blanks:  ( ) and  kind:hex  with kind in
        y (symbol, |x| and x identified) r (reserved word) n d x b (numeral, decimal, hex, binary) t (string) k (keyword) *)
open Print_model

let explode s = List.init (String.length s) (String.get s)
let implode l = let b = Buffer.create 16 in List.iter (Buffer.add_char b) l; Buffer.contents b

let hex_of s =
  if s = "" then "-" else
  let b = Buffer.create (2 * String.length s) in
  String.iter (fun c -> Buffer.add_string b (Printf.sprintf "%02x" (Char.code c))) s; Buffer.contents b
let unhex h =
  if h = "-" then "" else
  String.init (String.length h / 2) (fun i -> Char.chr (int_of_string ("0x" ^ String.sub h (2 * i) 2)))
let hx l = hex_of (implode l)
let un h = explode (unhex h)

let rec nat_of_int n = if n <= 0 then O else S (nat_of_int (n - 1))
let rec int_of_nat = function O -> 0 | S n -> 1 + int_of_nat n

let variant = function "f" -> faithful | "r" -> repaired | s -> failwith ("variant " ^ s)
let cfg = function "s" -> std_cfg | "o" -> osmt_cfg | s -> failwith ("cfg " ^ s)

(* token stream readers *)
let next toks = match !toks with [] -> failwith "truncated request" | x :: r -> toks := r; x
let rec rd_sort toks =
  let w = next toks in
  match String.split_on_char '/' w with
  | [h; k] -> let k = int_of_string k in
    let args = List.init k (fun _ -> ()) |> List.map (fun () -> rd_sort toks) in Sort (un h, args)
  | _ -> failwith ("sort " ^ w)
let rd_list toks k f = let rec go i acc = if i = 0 then List.rev acc else go (i - 1) (f toks :: acc) in go k []
let rd_sym toks =
  let name = un (next toks) in
  let interp = next toks = "1" in
  let k = int_of_string (next toks) in
  let args = rd_list toks k rd_sort in
  let ret = rd_sort toks in
  { sd_name = name; sd_args = args; sd_ret = ret; sd_interp = interp }
let rec rd_term env toks =
  let w = next toks in
  match w.[0] with
  | 'a' -> (match String.split_on_char '/' (String.sub w 1 (String.length w - 1)) with
      | [i; k] -> let d = List.nth env (int_of_string i) in
        let args = rd_list toks (int_of_string k) (rd_term env) in TApp (d, args)
      | _ -> failwith ("term " ^ w))
  | 'n' -> (match String.split_on_char ':' (String.sub w 1 (String.length w - 1)) with
      | [neg; num; den] -> TNumC (neg = "1", un num, (if den = "-" then None else Some (un den)))
      | _ -> failwith ("term " ^ w))
  | _ -> failwith ("term " ^ w)
let rd_head toks =
  let w = next toks in
  let body = String.sub w 1 (String.length w - 1) in
  match w.[0] with
  | 'h' -> H_sym (un body)
  | 'g' -> let s = rd_sort toks in H_as (un body, s)
  | _ -> failwith ("head " ^ w)
let rec rd_ast toks =
  let w = next toks in
  let body = String.sub w 1 (String.length w - 1) in
  match w.[0] with
  | 'c' -> A_const (un body)
  | 's' -> A_sym (un body)
  | 'q' -> let s = rd_sort toks in A_as (un body, s)
  | 'p' -> let k = int_of_string body in let h = rd_head toks in let args = rd_list toks k rd_ast in A_app (h, args)
  | 'b' -> let t = rd_ast toks in A_bang (t, un body)
  | 'l' -> let k = int_of_string body in
    let bs = rd_list toks k (fun toks -> let n = un (next toks) in let t = rd_ast toks in (n, t)) in
    let t = rd_ast toks in A_let (bs, t)
  | _ -> failwith ("ast " ^ w)

let tok_wire = function
  | TLP -> "(" | TRP -> ")"
  | TNum s -> "n:" ^ hx s | TDec s -> "d:" ^ hx s | THex s -> "x:" ^ hx s | TBin s -> "b:" ^ hx s
  | TStr s -> "t:" ^ hx s | TSym s -> "y:" ^ hx s | TQSym s -> "y:" ^ hx s | TRes s -> "r:" ^ hx s | TKey s -> "k:" ^ hx s
let rec sexp_wire = function
  | SAtom t -> tok_wire t
  | SList l -> "( " ^ String.concat " " (List.map sexp_wire l) ^ (if l = [] then ")" else " )")

let rec sort_wire = function Sort (n, args) ->
  String.concat " " ((hx n ^ "/" ^ string_of_int (List.length args)) :: List.map sort_wire args)

let rd = function None -> "N" | Some s -> "S" ^ hx s

let handle line =
  let toks = ref (List.filter (fun s -> s <> "") (String.split_on_char ' ' line)) in
  let cmd = next toks in
  match cmd with
  | "P" -> let v = variant (next toks) in let interp = next toks = "1" in let name = un (next toks) in
    let p = protectName v name interp in
    Printf.sprintf "%s %s %s" (hx p) (rd (read_symbol std_cfg p)) (rd (read_symbol osmt_cfg p))
  | "Q" -> let c = cfg (next toks) in hx (quote_symbol c (un (next toks)))
  | "X" -> let text = un (next toks) in
    Printf.sprintf "%s %s" (rd (read_symbol std_cfg text)) (rd (read_symbol osmt_cfg text))
  | "L" -> let c = cfg (next toks) in let text = un (next toks) in
    (match lex c text with
     | Toks l -> (match parse_toks l [] [] with
         | Some sx -> "OK " ^ String.concat " " (List.map (fun e -> sexp_wire (norm_sexp e)) sx)
         | None -> "U")
     | LexError -> "E"
     | OutOfFuel -> "F")
  | "S" -> let v = variant (next toks) in hx (sortToString v (rd_sort toks))
  | "T" -> let v = variant (next toks) in let n = int_of_string (next toks) in
    let env = rd_list toks n rd_sym in let tm = rd_term env toks in
    hx (print_term v env tm) ^ " " ^ sexp_wire (term_sexp env tm)
  | "Y" -> let v = variant (next toks) in let n = int_of_string (next toks) in
    let env = rd_list toks n rd_sym in let i = int_of_string (next toks) in hx (symToString v env (List.nth env i))
  | "D" -> let v = variant (next toks) in let kind = next toks in let u = int_of_string (next toks) in
    let nt = int_of_string (next toks) in
    let tbl = rd_list toks nt rd_sym in
    let d = List.nth tbl (int_of_string (next toks)) in
    let params df = String.concat " " (List.map (fun (n, s) -> hx n ^ " " ^ sort_wire s) df.df_params) in
    if kind = "b" then
      (match builder_definition v tbl d (nat_of_int u) with
       | None -> "NONE"
       | Some ((df, u'), _) -> Printf.sprintf "%s %d %d %s" (hx (def_header_fun v df)) (int_of_nat u') (List.length df.df_params) (params df))
    else
      (match default_definition v tbl d with
       | None -> "NONE"
       | Some (df, _) -> Printf.sprintf "%s %d %d %s" (hx (def_header_fun v df)) u (List.length df.df_params) (params df))
  | "K" -> let v = variant (next toks) in hx (def_header_const v (rd_sym toks))
  | "R" -> let v = variant (next toks) in let nu = int_of_string (next toks) in
    let user = rd_list toks nu rd_sym in
    let nf = int_of_string (next toks) in
    let tbl = ref user in
    let fs = rd_list toks nf (fun toks ->
        let kind = next toks in let u = int_of_string (next toks) in let i = int_of_string (next toks) in
        let d = List.nth user i in
        if kind = "b" then
          (match builder_definition v !tbl d (nat_of_int u) with
           | Some ((df, _), t') -> tbl := t'; (d, df)
           | None -> failwith "creation")
        else
          (match default_definition v !tbl d with
           | Some (df, t') -> tbl := t'; (d, df)
           | None -> failwith "creation")) in
    (match resolve_clashes v user fs with
     | None -> "NONE"
     | Some l -> String.concat " " (List.map (fun df -> hx (def_header_fun v df)) l))
  | "G" -> let v = variant (next toks) in let n = int_of_string (next toks) in
    let l = rd_list toks n (fun toks -> let a = un (next toks) in let b = un (next toks) in (a, b)) in
    (match assignment_text v l with FmtOut s -> "OK " ^ hx s | FmtUB s -> "UB " ^ hx s)
  | "C" -> let v = variant (next toks) in let n = int_of_string (next toks) in
    hx (core_names_text v (rd_list toks n (fun toks -> un (next toks))))
  | "E" -> let v = variant (next toks) in let a = rd_ast toks in
    let (s, dead) = echo v a in
    Printf.sprintf "%s %d %s" (hx s) (if dead then 1 else 0) (sexp_wire (ast_sexp a))
  | "H" -> let v = variant (next toks) in let n = int_of_string (next toks) in
    let env = rd_list toks n rd_sym in let i = int_of_string (next toks) in let c = next toks = "1" in
    hx (dump_decl v env (List.nth env i) c)
  | "J" -> let v = variant (next toks) in let name = un (next toks) in let k = int_of_string (next toks) in
    hx (dump_sort_decl v name (nat_of_int k))
  | _ -> "bad"

let () =
  try while true do
    let l = input_line stdin in
    (try print_endline (handle l) with Failure m -> print_endline ("bad " ^ m) | Not_found -> print_endline "bad notfound"
                                      | Invalid_argument m -> print_endline ("bad " ^ m))
  done with End_of_file -> ()
