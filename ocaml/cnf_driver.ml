(* Truth-table validity of propositional skeletons with the extracted verified checker (coq/Cnf/TruthTable.v).
   One formula per line in prefix s-expression form:
     (a N) | (not f) | (and f..) | (or f..) | (xor f g) | (iff f g) | (imp f g) | (true) | (false)
   Output: valid | invalid | error *)
open Cnf_model
type sx = A of string | L of sx list
let parse (s : string) : sx =
  let n = String.length s in let pos = ref 0 in
  let skip () = while !pos < n && s.[!pos] = ' ' do incr pos done in
  let rec one () =
    skip ();
    if s.[!pos] = '(' then begin
      incr pos; let items = ref [] in skip ();
      while s.[!pos] <> ')' do items := one () :: !items; skip () done;
      incr pos; L (List.rev !items)
    end else begin
      let st = !pos in
      while !pos < n && s.[!pos] <> ' ' && s.[!pos] <> '(' && s.[!pos] <> ')' do incr pos done;
      A (String.sub s st (!pos - st))
    end in
  one ()
let rec pos_of_int n = if n = 1 then XH else if n land 1 = 1 then XI (pos_of_int (n lsr 1)) else XO (pos_of_int (n lsr 1))
let n_of_int n = if n = 0 then N0 else Npos (pos_of_int n)
let rec fm_of = function
  | L [A "a"; A n] -> FAtom (n_of_int (int_of_string n))
  | L [A "true"] -> FAnd []
  | L [A "false"] -> FOr []
  | L [A "not"; f] -> FNot (fm_of f)
  | L (A "and" :: fs) -> FAnd (List.map fm_of fs)
  | L (A "or" :: fs) -> FOr (List.map fm_of fs)
  | L [A "xor"; a; b] -> FXor (fm_of a, fm_of b)
  | L [A "iff"; a; b] -> FIff (fm_of a, fm_of b)
  | L [A "imp"; a; b] -> FImp (fm_of a, fm_of b)
  | _ -> failwith "fm"
let () =
  try while true do
    let l = input_line stdin in
    (try print_endline (if tt_valid (fm_of (parse l)) then "valid" else "invalid") with _ -> print_endline "error")
  done with End_of_file -> ()
