(* Driver of the extracted C22 / C29 models (coq/Th/DLParse.v, coq/Th/BoundStack.v).
   stdin, one request per line:
     P <strict 0|1> <c> { <k> <var> <cf 0|1> }*      parse of the atom  c <= sum k*x_var
     BS reset                                         bound stack := bs_init, empty store
     BS store { <id>:<idx>:<r>:<d> }*                 the bound store (position, value r + d*delta) of every bound id
     BS assert <id> <var> <U|L>                       assert_bound; answers  conflict=<0|1>
     BS back <n>                                      backtrack n
     BS state <nvars>                                 lim .. trace .. | v0 L .. U .. | ...   (oldest first, as the C++ vectors)
   stdout: one answer line per request. *)
open Tsolver_model

let rec pos_of_bits = function
  | [] -> failwith "zero" | [true] -> XH
  | b :: r -> if b then XI (pos_of_bits r) else XO (pos_of_bits r)
let rec bits_of_pos = function XH -> [true] | XO p -> false :: bits_of_pos p | XI p -> true :: bits_of_pos p
let z_of_string s =
  let neg = String.length s > 0 && s.[0] = '-' in
  let body = if neg then String.sub s 1 (String.length s - 1) else s in
  match Bits.bits_of_decimal body with
  | [] -> Z0 | b -> if neg then Zneg (pos_of_bits b) else Zpos (pos_of_bits b)
let string_of_pos p = Bits.decimal_of_bits (bits_of_pos p)
let string_of_z = function
  | Z0 -> "0" | Zpos p -> string_of_pos p | Zneg p -> "-" ^ string_of_pos p
let pos_of_string s = match z_of_string s with Zpos p -> p | _ -> failwith ("not positive: " ^ s)
let q_of_string s =
  match String.index_opt s '/' with
  | None -> { qnum = z_of_string s; qden = XH }
  | Some i -> { qnum = z_of_string (String.sub s 0 i); qden = pos_of_string (String.sub s (i + 1) (String.length s - i - 1)) }
let string_of_q q = string_of_z q.qnum ^ "/" ^ string_of_pos q.qden

let node_str = function
  | NVar v -> "var:" ^ string_of_pos v
  | NTimes (k, v, cf) -> (if cf then "times:" else "timesrev:") ^ string_of_q k ^ ":" ^ string_of_pos v
  | NConst k -> "const:" ^ string_of_q k
let vertex_str = function VZero -> "undef" | VTerm n -> node_str n

let rec smds = function
  | [] -> []
  | k :: v :: cf :: r -> { s_k = q_of_string k; s_v = pos_of_string v; s_cf = (cf = "1") } :: smds r
  | _ -> failwith "bad summands"

let rec nat_of_int n = if n <= 0 then O else S (nat_of_int (n - 1))
let rec int_of_nat = function O -> 0 | S n -> 1 + int_of_nat n
let bstate = ref bs_init
let bstore : (int * (nat * (q * q))) list ref = ref []
let store_fun (i : nat) : nat * (q * q) =
  match List.assoc_opt (int_of_nat i) !bstore with
  | Some x -> x
  | None -> (O, ({ qnum = Z0; qden = XH }, { qnum = Z0; qden = XH }))
let ids l = String.concat " " (List.rev_map (fun b -> string_of_int (int_of_nat b.b_id)) l)
let handle_bs = function
  | ["reset"] -> bstate := bs_init; bstore := []; "ok"
  | "store" :: es ->
    bstore := List.map (fun e -> match String.split_on_char ':' e with
      | [id; idx; r; d] -> (int_of_string id, (nat_of_int (int_of_string idx), (q_of_string r, q_of_string d)))
      | _ -> failwith "bad store entry") (List.filter (fun e -> e <> "") es);
    "ok"
  | ["assert"; id; v; t] ->
    let b = { b_id = nat_of_int (int_of_string id); b_var = nat_of_int (int_of_string v); b_upper = (t = "U") } in
    let c = assert_conflicts store_fun !bstate b in
    bstate := assert_bound store_fun !bstate b;
    "conflict=" ^ (if c then "1" else "0")
  | ["back"; n] -> bstate := backtrack (nat_of_int (int_of_string n)) !bstate; "ok"
  | ["state"; nv] ->
    let s = !bstate in
    let buf = Buffer.create 64 in
    Buffer.add_string buf ("lim " ^ String.concat " " (List.rev_map (fun n -> string_of_int (int_of_nat n)) s.limits));
    Buffer.add_string buf (" trace " ^ ids s.trace);
    for v = 0 to int_of_string nv - 1 do
      Buffer.add_string buf (Printf.sprintf " | v%d L %s U %s" v (ids (s.lists (nat_of_int v) false)) (ids (s.lists (nat_of_int v) true)))
    done;
    Buffer.contents buf
  | _ -> "bad"

let handle l =
  match String.split_on_char ' ' l with
  | "BS" :: rest -> handle_bs rest
  | "P" :: strict :: c :: rest ->
    let a = { a_c = q_of_string c; a_sum = smds rest } in
    let p = match parseRef (strict = "1") a with
      | PR (x, y, c) -> "x=" ^ vertex_str x ^ " y=" ^ vertex_str y ^ " c=" ^ string_of_q c
      | PR_oob (x, c) -> "oob x=" ^ vertex_str x ^ " c=" ^ string_of_q c
      | PR_reject -> "reject" in
    Printf.sprintf "dl=%d lin=%d %s" (if is_dl_atomb a then 1 else 0) (if linearb a then 1 else 0) p
  | _ -> "bad"

let () =
  try while true do
    let l = input_line stdin in
    print_endline (try handle (String.trim l) with Failure m -> "bad " ^ m)
  done with End_of_file -> ()
