(* Driver of the extracted C22 / C29 models (coq/Th/DLParse.v, coq/Th/BoundStack.v).
   stdin, one request per line:
     P <strict 0|1> <c> { <k> <var> <cf 0|1> }*      parse of the atom  c <= sum k*x_var
   stdout: one answer line per request. *)
open Tsolver_model

let rec pos_of_bits = function
  | [] -> failwith "zero" | [true] -> XH
  | b :: r -> if b then XI (pos_of_bits r) else XO (pos_of_bits r)
let rec bits_of_pos = function XH -> [true] | XO p -> false :: bits_of_pos p | XI p -> true :: bits_of_pos p
let z_of_string s =
  let neg = String.length s > 0 && s.[0] = '-' in
  let body = if neg then String.sub s 1 (String.length s - 1) else s in
  match Bits.bits_of_decimal body with
  | [] -> Z0 | b -> if neg then Zneg (pos_of_bits b) else Zpos (pos_of_bits b)
let string_of_pos p = Bits.decimal_of_bits (bits_of_pos p)
let string_of_z = function
  | Z0 -> "0" | Zpos p -> string_of_pos p | Zneg p -> "-" ^ string_of_pos p
let pos_of_string s = match z_of_string s with Zpos p -> p | _ -> failwith ("not positive: " ^ s)
let q_of_string s =
  match String.index_opt s '/' with
  | None -> { qnum = z_of_string s; qden = XH }
  | Some i -> { qnum = z_of_string (String.sub s 0 i); qden = pos_of_string (String.sub s (i + 1) (String.length s - i - 1)) }
let string_of_q q = string_of_z q.qnum ^ "/" ^ string_of_pos q.qden

let node_str = function
  | NVar v -> "var:" ^ string_of_pos v
  | NTimes (k, v, cf) -> (if cf then "times:" else "timesrev:") ^ string_of_q k ^ ":" ^ string_of_pos v
  | NConst k -> "const:" ^ string_of_q k
let vertex_str = function VZero -> "undef" | VTerm n -> node_str n

let rec smds = function
  | [] -> []
  | k :: v :: cf :: r -> { s_k = q_of_string k; s_v = pos_of_string v; s_cf = (cf = "1") } :: smds r
  | _ -> failwith "bad summands"

let handle l =
  match String.split_on_char ' ' l with
  | "P" :: strict :: c :: rest ->
    let a = { a_c = q_of_string c; a_sum = smds rest } in
    let p = match parseRef (strict = "1") a with
      | PR (x, y, c) -> "x=" ^ vertex_str x ^ " y=" ^ vertex_str y ^ " c=" ^ string_of_q c
      | PR_oob (x, c) -> "oob x=" ^ vertex_str x ^ " c=" ^ string_of_q c
      | PR_reject -> "reject" in
    Printf.sprintf "dl=%d lin=%d %s" (if is_dl_atomb a then 1 else 0) (if linearb a then 1 else 0) p
  | _ -> "bad"

let () =
  try while true do
    let l = input_line stdin in
    print_endline (try handle (String.trim l) with Failure m -> "bad " ^ m)
  done with End_of_file -> ()
