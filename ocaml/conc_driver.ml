(* Driver glue for the extracted concurrency models (Conc/Pool.v, Conc/StopFlag.v).
   stdin, one request per line; stdout, one answer per line.
     consts                               -> locked=<b> discipline=<n> atomic=<b> lookahead_polls=<b>
     seq A A R0 A ...                     -> cell returned by each alloc ("-" for a release), single thread
     sched[0|1] A,A,R0;A | 0 0 1 0 ...    -> bad=<b> owners=<cells owned per thread> free=<..> ub=<b>
                                             (sched: locked as regenerated from the source; sched0/sched1: forced)
     stop <do_simp> <n|-1> e+ e. e! i- iT iF iU p+ p- r- rT rF rU ...   (p+: propagate() found a conflict)
                                          -> <T|F|U|none> <polls>   (n = poll at which the request becomes visible)
     predict <N> <T|F|U> <n>              -> T|F|U
   nat stays the Coq datatype; the conversions below are the only arithmetic done outside Coq. *)
module P = Pool_model
module St = Stop_model

let rec pnat_of_int n = if n <= 0 then P.O else P.S (pnat_of_int (n - 1))
let rec int_of_pnat = function P.O -> 0 | P.S n -> 1 + int_of_pnat n
let rec snat_of_int n = if n <= 0 then St.O else St.S (snat_of_int (n - 1))
let rec int_of_snat = function St.O -> 0 | St.S n -> 1 + int_of_snat n

let words s = List.filter (fun w -> w <> "") (String.split_on_char ' ' s)
let b2s b = if b then "true" else "false"

let op_of_string w =
  if w = "A" then P.Alloc
  else if String.length w >= 2 && w.[0] = 'R' then P.Release (pnat_of_int (int_of_string (String.sub w 1 (String.length w - 1))))
  else failwith ("bad op " ^ w)

let cells l = String.concat "," (List.map (fun c -> string_of_int (int_of_pnat c)) l)

let do_seq ws =
  let ops = List.map op_of_string ws in
  let r = P.seq_exec P.locked ops (P.init (fun _ -> [])) in
  String.concat " " (List.map (function None -> "-" | Some c -> string_of_int (int_of_pnat c)) r)

let do_sched locked rest =
  match String.split_on_char '|' rest with
  | [ps; sch] ->
    let progs = List.map (fun p -> List.map op_of_string (List.filter (fun w -> w <> "") (String.split_on_char ',' (String.trim p))))
        (String.split_on_char ';' ps) in
    let k = List.length progs in
    let pf t = let i = int_of_pnat t in if i < k then List.nth progs i else [] in
    let sched = List.map (fun w -> pnat_of_int (int_of_string w)) (words sch) in
    let s = P.run locked sched (P.init pf) in
    let owners = String.concat ";" (List.init k (fun i -> cells (P.t_owned (P.thr s (pnat_of_int i))))) in
    Printf.sprintf "bad=%s owners=%s free=%s ub=%s" (b2s (P.bad_b (pnat_of_int k) s)) owners (cells (P.free s)) (b2s (P.ub s))
  | _ -> "bad-request"

let lb_of_char = function 'T' -> St.LTrue | 'F' -> St.LFalse | 'U' -> St.LUndef | _ -> failwith "lbool"
let s_of_lb = function St.LTrue -> "T" | St.LFalse -> "F" | St.LUndef -> "U"

let ev_of_string w =
  match w.[0], w.[1] with
  | 'e', '+' -> St.EvElim St.EMore | 'e', '.' -> St.EvElim St.EDone | 'e', '!' -> St.EvElim St.EConflict
  | 'i', '-' -> St.EvInit None | 'i', c -> St.EvInit (Some (lb_of_char c))
  | 'p', '+' -> St.EvProp true | 'p', '-' -> St.EvProp false
  | 'r', '-' -> St.EvRest St.Cont | 'r', c -> St.EvRest (St.Ret (lb_of_char c))
  | _ -> failwith ("bad event " ^ w)

let do_stop = function
  | ds :: n :: evs ->
    let n = int_of_string n in
    let script = List.map ev_of_string evs in
    let fuel = snat_of_int (4 * List.length evs + 40) in
    let f = if n < 0 then St.nostop else St.stop_at_poll (snat_of_int n) in
    let (r, polls) = St.run_script St.poll_after_conflict (ds = "1") fuel f script in
    Printf.sprintf "%s %d" (match r with None -> "none" | Some r -> s_of_lb r) (int_of_snat polls)
  | _ -> "bad-request"

let () =
  try while true do
      let l = input_line stdin in
      let out =
        try
          match words l with
          | ["consts"] -> Printf.sprintf "locked=%s discipline=%d atomic=%s lookahead_polls=%s poll_after_conflict=%s" (b2s P.locked)
                            (int_of_pnat P.discipline) (b2s St.atomic) (b2s St.lookahead_polls) (b2s St.poll_after_conflict)
          | "seq" :: ws -> do_seq ws
          | "sched" :: _ -> do_sched P.locked (String.sub l 5 (String.length l - 5))
          | "sched0" :: _ -> do_sched false (String.sub l 6 (String.length l - 6))
          | "sched1" :: _ -> do_sched true (String.sub l 6 (String.length l - 6))
          | "stop" :: ws -> do_stop ws
          | ["predict"; n_; r0; n] ->
            s_of_lb (St.predict (snat_of_int (int_of_string n_)) (lb_of_char r0.[0]) (snat_of_int (int_of_string n)))
          | _ -> "bad-request"
        with e -> "error " ^ Printexc.to_string e
      in
      print_endline out
    done with End_of_file -> ()
