(* Driver of the extracted theory-lemma checkers (Th/Farkas.v, Th/LiaCheck.v, Th/CC.v).
   One query per input line, one answer per output line ("1" accepted, "0" rejected, "bad ..." malformed).

   Q <isInt> <n> { <pol> <const> <coeff> <m> { <var> <q> }^m }^n      LA conflict with Farkas coefficients
   K <isInt> <n> { ... same ... }^n                                    LA clause (disjunction) with coefficients
        pol in {0,1}; const, coeff, q are rationals  [-]num/den ; var a positive integer
   Numbers are converted with Bits (decimal <-> bit list); Z/positive/Q stay the extracted datatypes. *)
open Th_model

let rec pos_of_bits = function
  | [] -> failwith "zero" | [true] -> XH
  | b :: r -> if b then XI (pos_of_bits r) else XO (pos_of_bits r)
let pos_of_string s = match Bits.bits_of_decimal s with [] -> failwith "zero positive" | b -> pos_of_bits b
let z_of_string s =
  let neg = String.length s > 0 && s.[0] = '-' in
  let body = if neg then String.sub s 1 (String.length s - 1) else s in
  match Bits.bits_of_decimal body with
  | [] -> Z0 | b -> if neg then Zneg (pos_of_bits b) else Zpos (pos_of_bits b)
let q_of_string s =
  match String.index_opt s '/' with
  | None -> { qnum = z_of_string s; qden = XH }
  | Some i -> { qnum = z_of_string (String.sub s 0 i);
                qden = pos_of_string (String.sub s (i + 1) (String.length s - i - 1)) }

(* small integers are frequent: cache *)
let qtab : (string, q) Hashtbl.t = Hashtbl.create 1024
let q_of_string s = match Hashtbl.find_opt qtab s with
  | Some q -> q | None -> let q = q_of_string s in (if String.length s < 12 then Hashtbl.replace qtab s q); q
let ptab : (string, positive) Hashtbl.t = Hashtbl.create 1024
let pos_of_string s = match Hashtbl.find_opt ptab s with
  | Some q -> q | None -> let q = pos_of_string s in Hashtbl.replace ptab s q; q

let la_query toks =
  let a = Array.of_list toks in
  let i = ref 0 in
  let next () = let x = a.(!i) in incr i; x in
  let isint = next () = "1" in
  let n = int_of_string (next ()) in
  let lits = ref [] and ks = ref [] in
  for _ = 1 to n do
    let pol = next () = "1" in
    let c = q_of_string (next ()) in
    let k = q_of_string (next ()) in
    let m = int_of_string (next ()) in
    let t = ref [] in
    for _ = 1 to m do
      let v = pos_of_string (next ()) in
      let q = q_of_string (next ()) in
      t := (v, q) :: !t
    done;
    lits := { lterm = List.rev !t; lconst = c; lpol = pol } :: !lits;
    ks := k :: !ks
  done;
  if !i <> Array.length a then failwith "trailing tokens";
  (isint, List.rev !lits, List.rev !ks)

let () =
  try while true do
    let l = input_line stdin in
    let toks = List.filter (fun s -> s <> "") (String.split_on_char ' ' l) in
    (try match toks with
      | "Q" :: r -> let (i, lits, ks) = la_query r in print_endline (if la_conflict_check i lits ks then "1" else "0")
      | "K" :: r -> let (i, lits, ks) = la_query r in print_endline (if la_clause_check i lits ks then "1" else "0")
      | _ -> print_endline "bad query"
    with e -> print_endline ("bad " ^ Printexc.to_string e))
  done with End_of_file -> ()
