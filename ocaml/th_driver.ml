(* Driver of the extracted theory-lemma checkers (Th/Farkas.v, Th/LiaCheck.v, Th/CC.v).
   One query per input line, one answer per output line ("1" accepted, "0" rejected, "bad ..." malformed).

   Q <isInt> <n> { <pol> <const> <coeff> <m> { <var> <q> }^m }^n      LA conflict with Farkas coefficients
   K <isInt> <n> { ... same ... }^n                                    LA clause (disjunction) with coefficients
        pol in {0,1}; const, coeff, q are rationals  [-]num/den ; var a positive integer
   M <isInt> <hasD> [ <c> <kd1> <kd2> <m> { <var> <q> }^m ] <n> { <L|E> <pol> <c> <k1> <k2> <m> { <var> <q> }^m }^n
        clause with equality atoms / unused literals (ThClause.mixed_clause_check): optional split disequality
        (= s c) first, then the other literals with their coefficients for the two sides (0 = unused)
   E <nnodes> { <fsym> <arity> { <child> }^arity }^nnodes <nlits> { <a> <b> <pol> }^nlits <ndcs> { <id> }^ndcs
        EUF clause over a term DAG (CC.euf_clause_check); dcs = nodes with pairwise different values
   A <sel> <sto> <...as E...>   the same with read-over-write instances for the symbols sel/sto (CC.arr_clause_check)
   S <sel> <sto> <nsplits> { <a> <b> }^nsplits <...as E...>   the same with case analysis (equal / different) on the
        listed node pairs (CC.arr_clause_split_check)
   Numbers are converted with Bits (decimal <-> bit list); Z/positive/Q stay the extracted datatypes. *)
open Th_model

let rec pos_of_bits = function
  | [] -> failwith "zero" | [true] -> XH
  | b :: r -> if b then XI (pos_of_bits r) else XO (pos_of_bits r)
let pos_of_string s = match Bits.bits_of_decimal s with [] -> failwith "zero positive" | b -> pos_of_bits b
let z_of_string s =
  let neg = String.length s > 0 && s.[0] = '-' in
  let body = if neg then String.sub s 1 (String.length s - 1) else s in
  match Bits.bits_of_decimal body with
  | [] -> Z0 | b -> if neg then Zneg (pos_of_bits b) else Zpos (pos_of_bits b)
let q_of_string s =
  match String.index_opt s '/' with
  | None -> { qnum = z_of_string s; qden = XH }
  | Some i -> { qnum = z_of_string (String.sub s 0 i);
                qden = pos_of_string (String.sub s (i + 1) (String.length s - i - 1)) }

(* small integers are frequent: cache *)
let qtab : (string, q) Hashtbl.t = Hashtbl.create 1024
let q_of_string s = match Hashtbl.find_opt qtab s with
  | Some q -> q | None -> let q = q_of_string s in (if String.length s < 12 then Hashtbl.replace qtab s q); q
let ptab : (string, positive) Hashtbl.t = Hashtbl.create 1024
let pos_of_string s = match Hashtbl.find_opt ptab s with
  | Some q -> q | None -> let q = pos_of_string s in Hashtbl.replace ptab s q; q

let la_query toks =
  let a = Array.of_list toks in
  let i = ref 0 in
  let next () = let x = a.(!i) in incr i; x in
  let isint = next () = "1" in
  let n = int_of_string (next ()) in
  let lits = ref [] and ks = ref [] in
  for _ = 1 to n do
    let pol = next () = "1" in
    let c = q_of_string (next ()) in
    let k = q_of_string (next ()) in
    let m = int_of_string (next ()) in
    let t = ref [] in
    for _ = 1 to m do
      let v = pos_of_string (next ()) in
      let q = q_of_string (next ()) in
      t := (v, q) :: !t
    done;
    lits := { lterm = List.rev !t; lconst = c; lpol = pol } :: !lits;
    ks := k :: !ks
  done;
  if !i <> Array.length a then failwith "trailing tokens";
  (isint, List.rev !lits, List.rev !ks)

let rec nat_of_int n = if n <= 0 then O else S (nat_of_int (n - 1))
let nat_tab = Array.init 4096 (fun _ -> O)
let () = for i = 1 to 4095 do nat_tab.(i) <- S nat_tab.(i - 1) done
let nat_of_string s = let n = int_of_string s in if n >= 0 && n < 4096 then nat_tab.(n) else nat_of_int n

let reader toks =
  let a = Array.of_list toks in
  let i = ref 0 in
  let next () = if !i >= Array.length a then failwith "short" else (let x = a.(!i) in incr i; x) in
  let fin () = if !i <> Array.length a then failwith "trailing tokens" in
  (next, fin)

let read_lin next =
  let m = int_of_string (next ()) in
  let t = ref [] in
  for _ = 1 to m do
    let v = pos_of_string (next ()) in
    let q = q_of_string (next ()) in
    t := (v, q) :: !t
  done;
  List.rev !t

let mixed_query toks =
  let (next, fin) = reader toks in
  let isint = next () = "1" in
  let hasd = next () = "1" in
  let d, kd1, kd2 =
    if hasd then begin
      let c = q_of_string (next ()) in
      let k1 = q_of_string (next ()) in
      let k2 = q_of_string (next ()) in
      let s = read_lin next in
      (Some (s, c), k1, k2)
    end else (None, q_of_string "0", q_of_string "0") in
  let n = int_of_string (next ()) in
  let rest = ref [] and ks1 = ref [] and ks2 = ref [] in
  for _ = 1 to n do
    let kind = next () in
    let pol = next () = "1" in
    let c = q_of_string (next ()) in
    let k1 = q_of_string (next ()) in
    let k2 = q_of_string (next ()) in
    let s = read_lin next in
    let g = match kind with
      | "L" -> GLeq { lterm = s; lconst = c; lpol = pol }
      | "E" -> GEq (s, c, pol)
      | _ -> failwith "literal kind" in
    rest := g :: !rest; ks1 := k1 :: !ks1; ks2 := k2 :: !ks2
  done;
  fin ();
  mixed_clause_check isint d (List.rev !rest) kd1 (List.rev !ks1) kd2 (List.rev !ks2)

let euf_query arr split toks =
  let (next, fin) = reader toks in
  let selsto = if arr then (let a = pos_of_string (next ()) in let b = pos_of_string (next ()) in Some (a, b)) else None in
  let splits = ref [] in
  if split then begin
    let ns = int_of_string (next ()) in
    for _ = 1 to ns do
      let a = nat_of_string (next ()) in
      let b = nat_of_string (next ()) in
      splits := (a, b) :: !splits
    done
  end;
  let nn = int_of_string (next ()) in
  let g = ref [] in
  for _ = 1 to nn do
    let f = pos_of_string (next ()) in
    let ar = int_of_string (next ()) in
    let cs = ref [] in
    for _ = 1 to ar do cs := nat_of_string (next ()) :: !cs done;
    g := (f, List.rev !cs) :: !g
  done;
  let nl = int_of_string (next ()) in
  let cl = ref [] in
  for _ = 1 to nl do
    let a = nat_of_string (next ()) in
    let b = nat_of_string (next ()) in
    let p = next () = "1" in
    cl := ((a, b), p) :: !cl
  done;
  let nd = int_of_string (next ()) in
  let dcs = ref [] in
  for _ = 1 to nd do dcs := nat_of_string (next ()) :: !dcs done;
  fin ();
  match selsto with
  | None -> euf_clause_check (List.rev !g) (List.rev !cl) (List.rev !dcs)
  | Some (sel, sto) ->
    if split then arr_clause_split_check sel sto (List.rev !splits) (List.rev !g) (List.rev !cl) (List.rev !dcs)
    else arr_clause_check sel sto (List.rev !g) (List.rev !cl) (List.rev !dcs)

let () =
  try while true do
    let l = input_line stdin in
    let toks = List.filter (fun s -> s <> "") (String.split_on_char ' ' l) in
    (try match toks with
      | "Q" :: r -> let (i, lits, ks) = la_query r in print_endline (if la_conflict_check i lits ks then "1" else "0")
      | "K" :: r -> let (i, lits, ks) = la_query r in print_endline (if la_clause_check i lits ks then "1" else "0")
      | "M" :: r -> print_endline (if mixed_query r then "1" else "0")
      | "E" :: r -> print_endline (if euf_query false false r then "1" else "0")
      | "A" :: r -> print_endline (if euf_query true false r then "1" else "0")
      | "S" :: r -> print_endline (if euf_query true true r then "1" else "0")
      | _ -> print_endline "bad query"
    with e -> print_endline ("bad " ^ Printexc.to_string e))
  done with End_of_file -> ()
