(* C21/C19 driver glue around the extracted models (names_model.ml).
   argv[1]: variant bits.  T/D cases: "<erase><guard>" (eraseTermName repaired / popScope guarded);
   B cases: "<erase><assert><pop><names><guard>" (the fields of InterpBook.fixes).  0 = code as it is.
   Same line protocol as harness/h_names.cc (T and D cases). *)
open Names_model

let rec pos_of_int k = if k = 1 then XH else if k land 1 = 1 then XI (pos_of_int (k lsr 1)) else XO (pos_of_int (k lsr 1))
let n_of_int k = if k = 0 then N0 else Npos (pos_of_int k)
let rec int_of_pos = function XH -> 1 | XO p -> 2 * int_of_pos p | XI p -> 2 * int_of_pos p + 1
let int_of_n = function N0 -> 0 | Npos p -> int_of_pos p
let rec int_of_nat = function O -> 0 | S n -> 1 + int_of_nat n
let nm k = "n" ^ string_of_int (int_of_n k)
let range n = List.init n (fun i -> i)

let observe_t buf x nn nt =
  let add = Buffer.add_string buf in
  add ";";
  add (String.concat "," (List.map (fun (n, t) -> nm n ^ ":" ^ string_of_int (int_of_n t)) (iteration x)));
  let sz = int_of_nat (tn_size x) in
  add ";"; add (string_of_int sz); if sz = 0 then add "e"; add ";";
  List.iter (fun k -> add (if contains_name x (n_of_int k) then "1" else "0")) (range nn);
  add ";";
  List.iter (fun t -> add (if contains_term x (n_of_int t) then "1" else "0")) (range nt);
  add ";";
  add (String.concat "," (List.map (fun k -> match term_by_name x (n_of_int k) with
      | Some t -> string_of_int (int_of_n t) | None -> "-") (range nn)));
  add ";";
  add (String.concat "," (List.map (fun t -> match names_for_term x (n_of_int t) with
      | None -> "-" | Some l -> "[" ^ String.concat " " (List.map nm l) ^ "]") (range nt)));
  add ";";
  add (String.concat "," (List.map (fun t -> match name_for_term x (n_of_int t) with
      | PickNone -> "-" | PickUB -> "UB" | PickName n -> nm n) (range nt)))

let split2 s = (* "<a>,<b>" after the op letter *)
  match String.split_on_char ',' (String.sub s 1 (String.length s - 1)) with
  | [a; b] -> (int_of_string a, int_of_string b) | _ -> failwith "op"

let case_t fx fs toks =
  match toks with
  | nn :: nt :: ops ->
    let nn = int_of_string nn and nt = int_of_string nt in
    let buf = Buffer.create 4096 in
    let x = ref tn_init and g = ref false and first = ref true in
    List.iter (fun op ->
        if not !first then Buffer.add_string buf " | "; first := false;
        (match op.[0] with
         | 'i' -> let (n, t) = split2 op in
           let (x', ok) = try_insert (n_of_int n) (n_of_int t) !x in
           x := x'; Buffer.add_string buf (if ok then "1" else "0")
         | 'u' -> x := push_scope !g !x; Buffer.add_string buf "-"
         | 'o' -> (match pop_scope fx fs !g !x with
             | Some x' -> x := x'; Buffer.add_string buf "-"
             | None -> Buffer.add_string buf "UB")
         | 'e' -> let n = int_of_string (String.sub op 1 (String.length op - 1)) in
           (match erase_direct fx (n_of_int n) !x with
            | Some (x', b) -> x := x'; Buffer.add_string buf (if b then "1" else "0")
            | None -> Buffer.add_string buf "UB")
         | 'g' -> g := (op.[1] = '1'); Buffer.add_string buf "-"
         | _ -> Buffer.add_string buf "?");
        observe_t buf !x nn nt) ops;
    print_endline (Buffer.contents buf)
  | _ -> print_endline "bad"

let case_d toks =
  match toks with
  | nf :: ops ->
    let nf = int_of_string nf in
    let buf = Buffer.create 1024 in
    let d = ref df_init and first = ref true in
    List.iter (fun op ->
        if not !first then Buffer.add_string buf " | "; first := false;
        (match op.[0] with
         | 'd' -> let (f, g) = split2 op in
           let (d', ok) = df_store (g = 1) (n_of_int f) (n_of_int f) !d in
           d := d'; Buffer.add_string buf (if ok then "1" else "0")
         | 'u' -> d := df_push !d; Buffer.add_string buf "-"
         | 'o' -> (match df_pop !d with Some d' -> d := d'; Buffer.add_string buf "-" | None -> Buffer.add_string buf "UB")
         | _ -> Buffer.add_string buf "?");
        Buffer.add_string buf ";";
        List.iter (fun f -> Buffer.add_string buf (if df_has !d (n_of_int f) then "1" else "0")) (range nf)) ops;
    print_endline (Buffer.contents buf)
  | _ -> print_endline "bad"


(* ---- interpreter bookkeeping (Front/InterpBook.v) -------------------------------------------- *)
let z_of_int k = if k = 0 then Z0 else if k > 0 then Zpos (pos_of_int k) else Zneg (pos_of_int (-k))

let parse_aterm s =
  (* <id>:<bool>:<ev>,<ev>...   ev: n<name>=<t> | u<f> | x *)
  match String.split_on_char ':' s with
  | id :: b :: rest ->
    let evs = String.concat ":" rest in
    let evs = List.filter (fun e -> e <> "") (String.split_on_char ',' evs) in
    let ev e = match e.[0] with
      | 'n' -> (match String.split_on_char '=' (String.sub e 1 (String.length e - 1)) with
          | [n; t] -> PName (n_of_int (int_of_string n), n_of_int (int_of_string t)) | _ -> failwith "ev")
      | 'u' -> PUse (n_of_int (int_of_string (String.sub e 1 (String.length e - 1))))
      | 'x' -> PFail
      | _ -> failwith "ev" in
    { a_evs = List.map ev evs; a_id = n_of_int (int_of_string id); a_bool = (b = "1") }
  | _ -> failwith "aterm"

let rest s = String.sub s 1 (String.length s - 1)

let parse_cmd s =
  let r = rest s in
  match s.[0] with
  | 'L' -> CSetLogic (r = "1")
  | 'O' -> let o = (match r.[0] with 'g' -> OGlobal | 'm' -> OModels | 'c' -> OCores | 'i' -> OItp | 'a' -> OAssign | _ -> failwith "opt") in
    CSetOpt (o, r.[1] = '1')
  | 'S' -> CDeclSort (n_of_int (int_of_string r))
  | 'F' -> (match String.split_on_char ',' r with [f; k] -> CDeclFun (n_of_int (int_of_string f), k = "1") | _ -> failwith "F")
  | 'D' -> (match String.split_on_char '|' r with
      | [f; k; m; a] -> CDefFun (n_of_int (int_of_string f), k = "1", parse_aterm a, m = "1") | _ -> failwith "D")
  | 'A' -> CAssert (parse_aterm r)
  | 'U' -> CPush (z_of_int (int_of_string r))
  | 'P' -> CPop (z_of_int (int_of_string r))
  | 'C' -> CCheckSat (match r with "s" -> StSat | "n" -> StUnsat | "k" -> StUnknown | _ -> StUndef)
  | 'M' -> CGetModel
  | 'V' -> CGetValue (List.map parse_aterm (List.filter (fun x -> x <> "") (String.split_on_char '/' r)))
  | 'K' -> CGetUnsatCore
  | 'G' -> CGetAssignment
  | 'I' -> CGetItp (List.map (fun g -> List.map (fun n -> n_of_int (int_of_string n)) (String.split_on_char '+' g))
                      (List.filter (fun x -> x <> "") (String.split_on_char '/' r)))
  | _ -> failwith ("cmd " ^ s)

let tm t = "t" ^ string_of_int (int_of_n t)
let bit b = if b then "1" else "0"

let dump nf b =
  if not b.b_init then Printf.sprintf "init=0 glob=%s" (bit b.b_global)
  else begin
    let asr_ = b.b_assertions in
    let cur = List.concat (List.rev b.b_frames) in
    let names = String.concat " " (List.map (fun (n, t) -> nm n ^ ":" ^ tm t) (iteration b.b_names)) in
    let ct = String.concat "" (List.map (fun t -> bit (contains_term b.b_names t)) asr_) in
    let nf_ = String.concat "," (List.map (fun t -> match names_for_term b.b_names t with
        | None -> "-" | Some l -> "[" ^ String.concat " " (List.map nm l) ^ "]") asr_) in
    let defs = String.concat "" (List.map (fun f -> bit (df_has b.b_defs (n_of_int (100 + f)))) (range nf)) in
    Printf.sprintf "init=1 glob=%s lvl=%d asr=[%s] ins=%d cur=[%s] names=[%s] ct=%s nf=%s defs=%s decls=%d st=%s"
      (bit b.b_global) (int_of_nat (level b)) (String.concat " " (List.map tm asr_)) (int_of_nat b.b_inserted)
      (String.concat " " (List.map tm cur)) names ct nf_ defs (List.length b.b_decls)
      (match b.b_status with StUndef -> "u" | StSat -> "s" | StUnsat -> "n" | StUnknown -> "k")
  end

(* B <NF> <cmd> ; <cmd> ; ...   -> per command "<resp> | <extra> | <dump>", then END *)
let case_b fixes line =
  let line = String.sub line 2 (String.length line - 2) in
  let sp = String.index line ' ' in
  let nf = int_of_string (String.sub line 0 sp) in
  let cmds = String.sub line (sp + 1) (String.length line - sp - 1) in
  let cmds = List.map String.trim (Str.split (Str.regexp_string " ; ") cmds) in
  let b = ref book_init in
  (try List.iter (fun cs ->
       let c = parse_cmd cs in
       let extra = (match c with
           | CGetItp gs ->
             let show = function None -> "-" | Some ll ->
               String.concat "/" (List.map (fun l -> String.concat "+" (List.map (fun k -> string_of_int (int_of_nat k)) l)) ll) in
             let parts = List.fold_right (fun g acc -> match group_parts !b g, acc with
                 | Some i, Some l -> Some (i :: l) | _, _ -> None)
                 (match List.rev gs with [] -> [] | _ :: r -> List.rev r) (Some []) in
             "masks=" ^ show (masks !b gs) ^ " parts=" ^ show parts
           | _ -> "") in
       match step fixes !b c with
       | None -> print_endline "UB"; raise Exit
       | Some (b', r) ->
         b := b';
         Printf.printf "%s | %s | %s\n" (match r with ROk -> "ok" | RErr -> "err" | ROut -> "out") extra (dump nf b')) cmds
   with Exit -> ());
  print_endline "END"

let () =
  let arg = if Array.length Sys.argv > 1 then Sys.argv.(1) else "0" in
  let fx = arg.[0] = '1' in
  let g i = String.length arg > i && arg.[i] = '1' in
  let fixes = { fx_erase = g 0; fx_assert = g 1; fx_pop = g 2; fx_names = g 3; fx_guard = g 4 } in
  let fs = g 1 in
  try while true do
      let l = input_line stdin in
      if String.length l > 2 && l.[0] = 'B' && l.[1] = ' ' then case_b fixes l
      else match List.filter (fun s -> s <> "") (String.split_on_char ' ' l) with
      | "T" :: r -> case_t fx fs r
      | "D" :: r -> case_d r
      | _ -> print_endline "bad"
    done with End_of_file -> ()
