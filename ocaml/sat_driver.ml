(* Driver for the extracted SAT-level checkers (C12: rup / countermodel, C10: check_proof_err).
   One command per input line, one answer per output line.
     R                              forget all instances                         -> ok
     A <inst> l1 l2 ...             add a clause to the database of <inst>       -> ok
     C <inst> l1 l2 ...             check a clause against the database of <inst> (then add it)
                                    -> rup | cex <total assignment as literals> | implied | unknown
                                       | notrup (rejected; search budget of 3 per run used up)
     P <final> ; <core names> ; <admitted leaf names | *> ; <step> ; <step> ...
         step =  L <name> l1 l2 ...                          leaf
              |  D <name> l1 l2 ... : <first> <c1> <p1> <c2> <p2> ...   derived: stated clause, chain
                                    -> ok | err <Kind> <name> [<arg>]
   Literals are non-zero decimal integers; names are non-negative decimal integers (the n of cls_n).
   The only trusted glue here is the int <-> positive/Z/N conversion and the line splitting. *)
open Sat_model

let rec pos_of_int n = if n <= 1 then XH else if n land 1 = 0 then XO (pos_of_int (n lsr 1)) else XI (pos_of_int (n lsr 1))
let z_of_int n = if n = 0 then Z0 else if n > 0 then Zpos (pos_of_int n) else Zneg (pos_of_int (- n))
let n_of_int n = if n = 0 then N0 else Npos (pos_of_int n)
let rec int_of_pos = function XH -> 1 | XO p -> 2 * int_of_pos p | XI p -> 2 * int_of_pos p + 1
let int_of_n = function N0 -> 0 | Npos p -> int_of_pos p
let int_of_nat n = let rec go acc = function O -> acc | S k -> go (acc + 1) k in go 0 n

let words s = List.filter (fun w -> w <> "") (String.split_on_char ' ' s)
let ints ws = List.map int_of_string ws

let dbs : (string, z list list ref) Hashtbl.t = Hashtbl.create 16
let db inst = match Hashtbl.find_opt dbs inst with Some r -> r | None -> let r = ref [] in Hashtbl.add dbs inst r; r

let vars_of (cls : int list list) =
  let h = Hashtbl.create 64 in
  List.iter (List.iter (fun l -> Hashtbl.replace h (abs l) ())) cls;
  List.sort compare (Hashtbl.fold (fun k () acc -> k :: acc) h [])

let idbs : (string, int list list ref) Hashtbl.t = Hashtbl.create 16
let idb inst = match Hashtbl.find_opt idbs inst with Some r -> r | None -> let r = ref [] in Hashtbl.add idbs inst r; r

(* the failing-input search (verified dpll) is run for the first rejected clauses of a run only *)
let searches_left = ref 3

let check inst lits =
  let d = db inst and id = idb inst in
  let c = List.map z_of_int lits in
  let ans =
    if rup !d c then "rup"
    else if !searches_left <= 0 then "notrup"
    else match (decr searches_left; countermodel !d c) with
      | DSat m ->
        let a = total_of m in
        let vs = vars_of (lits :: !id) in
        "cex " ^ String.concat " " (List.map (fun v -> string_of_int (if a (pos_of_int v) then v else - v)) vs)
      | DUnsat -> "implied"
      | DUnknown -> "unknown" in
  d := c :: !d; id := lits :: !id; ans

let split_on sep ws =
  (* split a word list on the separator word *)
  let rec go cur acc = function
    | [] -> List.rev (List.rev cur :: acc)
    | w :: r when w = sep -> go [] (List.rev cur :: acc) r
    | w :: r -> go (w :: cur) acc r in
  go [] [] ws

let rec pairs = function
  | [] -> []
  | c :: p :: r -> (n_of_int (int_of_string c), z_of_int (int_of_string p)) :: pairs r
  | _ -> failwith "odd chain"

let parse_step ws =
  match ws with
  | "L" :: n :: lits -> PLeaf (n_of_int (int_of_string n), List.map z_of_int (ints lits))
  | "D" :: n :: rest ->
    (match split_on ":" rest with
     | [stated; first :: chain] ->
       PRes (n_of_int (int_of_string n), List.map z_of_int (ints stated), n_of_int (int_of_string first), pairs chain)
     | _ -> failwith "bad derived step")
  | _ -> failwith "bad step"

let show_err = function
  | ERebound n -> Printf.sprintf "err Rebound %d" (int_of_n n)
  | EUnbound (n, u) -> Printf.sprintf "err Unbound %d %d" (int_of_n n) (int_of_n u)
  | EBadPivot (n, k) -> Printf.sprintf "err BadPivot %d %d" (int_of_n n) (int_of_nat k)
  | EWrongResolvent n -> Printf.sprintf "err WrongResolvent %d" (int_of_n n)
  | ELeafNotAdmitted n -> Printf.sprintf "err LeafNotAdmitted %d" (int_of_n n)
  | ECoreNotLeaf n -> Printf.sprintf "err CoreNotLeaf %d" (int_of_n n)
  | EFinalUnbound n -> Printf.sprintf "err FinalUnbound %d" (int_of_n n)
  | EFinalNotEmpty n -> Printf.sprintf "err FinalNotEmpty %d" (int_of_n n)

let proof ws =
  match split_on ";" ws with
  | [final] :: core :: adm :: steps ->
    let steps = List.map parse_step (List.filter (fun s -> s <> []) steps) in
    let leaves =
      if adm = ["*"] then proof_leaves steps
      else begin
        let ok = Hashtbl.create 16 in
        List.iter (fun n -> Hashtbl.replace ok (int_of_string n) ()) adm;
        List.concat_map (function PLeaf (n, c) when Hashtbl.mem ok (int_of_n n) -> [c] | _ -> []) steps
      end in
    let p = { p_steps = steps; p_final = n_of_int (int_of_string final);
              p_core = List.map (fun n -> n_of_int (int_of_string n)) core } in
    (match check_proof_err leaves p with None -> "ok" | Some e -> show_err e)
  | _ -> failwith "bad proof line"

let () =
  try while true do
    let l = input_line stdin in
    let out =
      try match words l with
        | ["R"] -> Hashtbl.reset dbs; Hashtbl.reset idbs; searches_left := 3; "ok"
        | "A" :: inst :: lits -> let li = ints lits in
          let d = db inst and id = idb inst in d := List.map z_of_int li :: !d; id := li :: !id; "ok"
        | "C" :: inst :: lits -> check inst (ints lits)
        | "P" :: rest -> proof rest
        | _ -> "bad"
      with Failure m -> "bad " ^ m | Not_found -> "bad" in
    print_endline out
  done with End_of_file -> ()
