(* Driver of the extracted interpolation model (coq/Itp, coq/Front/ItpRequest.v).  One request per line:

     itp <alg 0..5> <A-mask: i,j,..> | <node> ; <node> ; ...
         node =  L <lits> / <mask>     original clause, lits = signed integers (v+1, negative = negated), mask = i,j,..
                 T <lits>              theory clause (its partial interpolant is the constant true: propositional use only)
                 R <i> <j> <p>         resolvent of nodes i (has +p) and j (has -p) on variable p (0-based variable index)
         the variable masks are computed from the occurrences in the L nodes
         -> the interpolant as an s-expression over v<k>, or "none"
     path <alg> <g1> / <g2> / ... | <nodes>      groups of partition indices -> one interpolant per cumulative mask
     mask <fixd 0|1> <events> | <g1> / <g2> / ...
         events: A<term> accepted assert, R<term> rejected assert, P push, O pop;  term = T | F | +n | -n
         groups: partition indices of the current assertions the names stand for
         -> "impl ((..)(..)) spec ((..)(..))"  or  "impl none spec (...)"                                        *)
open Itp_model

let rec nat_of_int n = if n <= 0 then O else S (nat_of_int (n - 1))
let rec int_of_nat = function O -> 0 | S n -> 1 + int_of_nat n

let split_on c s = List.filter (fun x -> x <> "") (String.split_on_char c s)
let ints_of s = List.map int_of_string (split_on ',' (String.trim s))
let mask_of s = List.map nat_of_int (ints_of s)
let lits_of s =
  List.map (fun t -> let k = int_of_string t in (nat_of_int (abs k - 1), k > 0)) (split_on ' ' (String.trim s))

let node_of s =
  let s = String.trim s in
  let body = String.sub s 1 (String.length s - 1) in
  match s.[0] with
  | 'L' -> (match String.split_on_char '/' body with
            | [ls; m] -> Leaf (lits_of ls, mask_of m)
            | _ -> failwith "bad L node")
  | 'T' -> ThLeaf (lits_of body)
  | 'R' -> (match split_on ' ' body with
            | [i; j; p] -> Res (nat_of_int (int_of_string i), nat_of_int (int_of_string j), nat_of_int (int_of_string p))
            | _ -> failwith "bad R node")
  | _ -> failwith "bad node"

let rec str_of_form = function
  | FTrue -> "true" | FFalse -> "false"
  | FVar v -> "v" ^ string_of_int (int_of_nat v)
  | FNot f -> "(not " ^ str_of_form f ^ ")"
  | FAnd (f, g) -> "(and " ^ str_of_form f ^ " " ^ str_of_form g ^ ")"
  | FOr (f, g) -> "(or " ^ str_of_form f ^ " " ^ str_of_form g ^ ")"

let input_of nodes = List.fold_right (fun n acc -> match n with Leaf (c, m) -> (c, m) :: acc | _ -> acc) nodes []
let no_th _ _ = FTrue
let alg_of s = match alg_of_nat (nat_of_int (int_of_string (String.trim s))) with Some g -> g | None -> failwith "bad algorithm"
let so = function None -> "none" | Some f -> str_of_form f

let term_of s = match s with
  | "T" -> T_true | "F" -> T_false
  | _ -> let n = nat_of_int (int_of_string (String.sub s 1 (String.length s - 1))) in
         if s.[0] = '-' then T_neg n else T_pos n
let ev_of s =
  match s.[0] with
  | 'A' -> EAssert (term_of (String.sub s 1 (String.length s - 1)), true)
  | 'R' -> EAssert (term_of (String.sub s 1 (String.length s - 1)), false)
  | 'P' -> EPush | 'O' -> EPop | _ -> failwith "bad event"
let str_of_masks ms =
  "(" ^ String.concat "" (List.map (fun m -> "(" ^ String.concat " " (List.map (fun i -> string_of_int (int_of_nat i)) m) ^ ")") ms) ^ ")"

let handle line =
  match String.index_opt line '|' with
  | None -> "bad"
  | Some k ->
    let head = String.trim (String.sub line 0 k) and tail = String.sub line (k + 1) (String.length line - k - 1) in
    (match split_on ' ' head with
     | "itp" :: g :: rest ->
        let a = mask_of (String.concat "" rest) in
        let nodes = List.map node_of (split_on ';' tail) in
        so (impl_itp (vmask_of (input_of nodes)) no_th (alg_of g) a nodes)
     | "path" :: g :: rest ->
        let groups = List.map mask_of (String.split_on_char '/' (String.concat "" rest)) in
        let nodes = List.map node_of (split_on ';' tail) in
        String.concat " ; " (List.map so (path_itps (vmask_of (input_of nodes)) no_th (alg_of g) (cumulative [] groups) nodes))
     | "mask" :: fx :: evs ->
        let h = List.map ev_of evs in
        let groups = List.map mask_of (String.split_on_char '/' tail) in
        let impl = match request_masks (fx = "1") h groups with None -> "none" | Some ms -> str_of_masks ms in
        "impl " ^ impl ^ " spec " ^ str_of_masks (spec_masks [] groups)
     | _ -> "bad")

let () =
  try while true do
    let l = input_line stdin in
    (try print_endline (handle l) with Failure m -> print_endline ("error " ^ m) | Not_found -> print_endline "error") ;
    flush stdout
  done with End_of_file -> ()
