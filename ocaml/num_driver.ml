(* C16 driver.  One case per line:
     L <text>     classification, stringToRational, mkConst in QF_LRA / QF_LIA / QF_LIRA   (<empty> = "")
     T <text>     tokens of the text under the lexer's INITIAL-state rules
     Q <a> <b>    mkEq of the Int constants spelled a and b, in QF_LIA and in QF_UFLIA
     P <p>/<q>    printed forms of the value p/q and what the SMT-LIB reader reads back *)
open Num_model
let explode s = List.init (String.length s) (String.get s)
let implode l = String.concat "" (List.map (String.make 1) l)
let rec pos_of_bits = function
  | [] -> failwith "zero" | [true] -> XH
  | b :: r -> if b then XI (pos_of_bits r) else XO (pos_of_bits r)
let z_of_string s =
  let neg = String.length s > 0 && s.[0] = '-' in
  let body = if neg then String.sub s 1 (String.length s - 1) else s in
  match Bits.bits_of_decimal body with
  | [] -> Z0 | b -> if neg then Zneg (pos_of_bits b) else Zpos (pos_of_bits b)
let pos_of_string s = match z_of_string s with Zpos p -> p | _ -> failwith "denominator"
let qstr q = implode (qd_str q)
let fr = function FRVal q -> qstr q | FRGarbage -> "garbage" | FRCrash -> "CRASH"
let pr name = match term_to_smt2 name with Printed s -> implode s | PrintFails -> "printfails"
let mk = function
  | MInt (Some name, v) -> "Int " ^ fr v ^ " " ^ pr name
  | MInt (None, v) -> "Int " ^ fr v ^ " garbage"
  | MReal (name, v) -> "Real " ^ fr v ^ " " ^ pr name
  | MApiExc -> "api" | MStrConvExc -> "strconv" | MCrash -> "CRASH" | MOverrun -> "OVERRUN" | MNotNumeric -> "nonnum"
let b x = if x then "1" else "0"
let tokname = function
  | TK_NUM -> "NUM" | TK_DEC -> "DEC" | TK_HEX -> "HEX" | TK_BIN -> "BIN" | TK_SYM -> "SYM" | TK_KEY -> "KEY"
  | SKIP -> "SKIP" | CHAR -> "CHAR" | ERROR -> "ERROR" | STR_START -> "STR" | PSYM_START -> "PSYM" | _ -> "KWD"
let () =
  try while true do
    let l = input_line stdin in
    let cmd = String.sub l 0 1 and arg = if String.length l > 2 then String.sub l 2 (String.length l - 2) else "" in
    let arg = if arg = "<empty>" then "" else arg in
    let out = match cmd with
      | "L" -> let s = explode arg in
        let st = match string_to_rational s with
          | StrVal q -> qstr q | StrExc -> "exc" | StrCrash -> "CRASH" | StrOverrun -> "OVERRUN" in
        Printf.sprintf "I%s R%s S:%s | %s | %s | %s" (b (is_int_string s)) (b (is_real_string s)) st
          (mk (mk_const LRA s)) (mk (mk_const LIA s)) (mk (mk_const LIRA s))
      | "T" -> (match lex lex_rules (explode arg) with
          | LexOk ts -> String.concat " " (List.filter_map (fun (t, lx) -> if t = SKIP then None else Some (tokname t ^ ":" ^ (if tokname t = "KWD" then "" else implode lx))) ts)
          | LexStuck (_, _) -> "stuck")
      | "P" -> let i = String.index arg '/' in
        let q = qred { qnum = z_of_string (String.sub arg 0 i); qden = pos_of_string (String.sub arg (i + 1) (String.length arg - i - 1)) } in
        let t = term_print q in
        let back = match read_num_term t with Some r -> qstr (qred r) | None -> "unreadable" in
        let fp = fr_print q in
        let back2 = match read_num_term fp with Some r -> qstr (qred r) | None -> "unreadable" in
        Printf.sprintf "%s ; %s ; %s ; %s ; %s" (implode (get_str q)) (implode t) back (implode fp) back2
      | "Q" -> (match String.split_on_char ' ' arg with
          | [a; b] -> let f uf = match mk_eq_int_consts uf (explode a) (explode b) with Some true -> "true" | Some false -> "false" | None -> "undef" in
            f false ^ " " ^ f true
          | _ -> "bad")
      | _ -> "bad" in
    print_endline out
  done with End_of_file -> ()
