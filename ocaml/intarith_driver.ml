(* C27 driver: one case per line, first word selects the model function (see checks/C27.py). *)
open Intarith_model
let rec pos_of_bits = function
  | [] -> failwith "zero" | [true] -> XH
  | b :: r -> if b then XI (pos_of_bits r) else XO (pos_of_bits r)
let rec bits_of_pos = function XH -> [true] | XO p -> false :: bits_of_pos p | XI p -> true :: bits_of_pos p
let z_of_string s =
  let neg = String.length s > 0 && s.[0] = '-' in
  let body = if neg then String.sub s 1 (String.length s - 1) else s in
  match Bits.bits_of_decimal body with
  | [] -> Z0 | b -> if neg then Zneg (pos_of_bits b) else Zpos (pos_of_bits b)
let pos_of_string s = match z_of_string s with Zpos p -> p | _ -> failwith "denominator"
let string_of_pos p = Bits.decimal_of_bits (bits_of_pos p)
let string_of_z = function
  | Z0 -> "0" | Zpos p -> string_of_pos p | Zneg p -> "-" ^ string_of_pos p
(* rationals are written p/q or p *)
let q_of_string s =
  match String.index_opt s '/' with
  | None -> qred { qnum = z_of_string s; qden = XH }
  | Some i -> qred { qnum = z_of_string (String.sub s 0 i); qden = pos_of_string (String.sub s (i + 1) (String.length s - i - 1)) }
let string_of_q q =
  let q = qred q in
  match q.qden with XH -> string_of_z q.qnum | d -> string_of_z q.qnum ^ "/" ^ string_of_pos d
let so = function None -> "none" | Some z -> string_of_z z
let sb = function UB z -> "UB " ^ string_of_z z | LB z -> "LB " ^ string_of_z z
let bool_of s = s = "1"
let qs l = String.concat " " (List.map string_of_q l)
let () =
  try while true do
    let l = input_line stdin in
    let out =
      match String.split_on_char ' ' l with
      | ["T"; c; s] -> let p = bounds_int (q_of_string c) (bool_of s) in
        string_of_z p.bp_upper ^ " " ^ string_of_z p.bp_lower
      | ["B"; c; n] -> let (a, b) = add_bound (q_of_string c) (bool_of n) in sb a ^ " " ^ sb b
      | "I" :: c :: cs -> let (k, cs') = norm_ineq (List.map q_of_string cs) (q_of_string c) in
        string_of_z k ^ " | " ^ qs cs'
      | "E" :: c :: cs ->
        let f flip = match norm_eq flip (List.map q_of_string cs) (q_of_string c) with
          | None -> "false" | Some (l, cs') -> string_of_q l ^ " | " ^ qs cs' in
        f false ^ " ; " ^ f true
      | ["S"; a] -> string_of_z (norm_single_leq (q_of_string a))
      | ["C"; z] -> so (dl_conv (z_of_string z))
      | ["CF"; z] -> so (dl_conv_fixed (z_of_string z))
      | ["N"; c] -> so (dl_negate (z_of_string c))
      | ["A"; a; b] -> so (safe_add (z_of_string a) (z_of_string b))
      | ["U"; a; b] -> so (safe_sub (z_of_string a) (z_of_string b))
      | ["X"; n; d; q; r] -> if divmod_def (z_of_string n) (z_of_string d) (z_of_string q) (z_of_string r) then "1" else "0"
      | "Y" :: rest ->
        (* Y k:n:d ... | x0 x1 ... : the rewriter's sharing of auxiliary pairs and the value of the rewritten conjunction
           under the canonical (Euclidean) extension *)
        let rec split acc = function "|" :: r -> (List.rev acc, r) | x :: r -> split (x :: acc) r | [] -> (List.rev acc, []) in
        let (apps_s, xs_s) = split [] rest in
        let rec nat_of_int i = if i <= 0 then O else S (nat_of_int (i - 1)) in
        let rec int_of_nat = function O -> 0 | S n -> 1 + int_of_nat n in
        let app s = match String.split_on_char ':' s with
          | [k; n; d] -> (((if k = "d" then KDiv else KMod), nat_of_int (int_of_string n)), z_of_string d)
          | _ -> failwith "app" in
        let apps = List.map app apps_s in
        let xs = Array.of_list (List.map z_of_string xs_s) in
        let rho n = let i = int_of_nat n in if i < Array.length xs then xs.(i) else Z0 in
        let (defs, vs) = rw_apps [] apps in
        let pat = String.concat " " (List.map (fun (i, k) -> "p" ^ string_of_int (int_of_nat i) ^ (match k with KDiv -> "d" | KMod -> "m")) vs) in
        let h = if rewritten_holds rho (canon_sigma rho defs) apps then "1" else "0" in
        pat ^ " ; " ^ string_of_int (List.length defs) ^ " ; " ^ h ^ " " ^ h
      | _ -> "bad" in
    print_endline out
  done with End_of_file -> ()
