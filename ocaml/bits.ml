(* Trusted glue shared by all drivers: decimal strings <-> little-endian bit lists.
   (Coq's extracted positive/Z/N are converted to and from bit lists by each driver.) *)
let bits_of_decimal (s : string) : bool list =
  (* s: non-empty string of digits; returns LSB-first bits, [] for zero *)
  let d = Array.init (String.length s) (fun i -> Char.code s.[i] - 48) in
  Array.iter (fun x -> if x < 0 || x > 9 then failwith ("bad decimal: " ^ s)) d;
  let n = Array.length d in
  let start = ref 0 in
  let bits = ref [] in
  while !start < n do
    (* divide d[start..] by 2 *)
    let carry = ref 0 in
    for i = !start to n - 1 do
      let v = !carry * 10 + d.(i) in
      d.(i) <- v / 2; carry := v mod 2
    done;
    bits := (!carry = 1) :: !bits;
    while !start < n && d.(!start) = 0 do incr start done
  done;
  (* bits is MSB first now (last remainder first); reverse to LSB-first, dropping leading zeros *)
  let l = List.rev !bits in
  let rec strip = function [] -> [] | false :: r -> strip r | l -> l in
  List.rev (strip (List.rev l))

let decimal_of_bits (bits : bool list) : string =
  (* bits LSB first *)
  let digits = ref [| 0 |] in
  let double_add b =
    let a = !digits in
    let carry = ref (if b then 1 else 0) in
    for i = Array.length a - 1 downto 0 do
      let v = a.(i) * 2 + !carry in
      a.(i) <- v mod 10; carry := v / 10
    done;
    if !carry > 0 then digits := Array.append [| !carry |] a in
  List.iter double_add (List.rev bits);
  String.concat "" (Array.to_list (Array.map string_of_int !digits))
