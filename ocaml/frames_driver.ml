(* Replays an operation sequence observed in the (ms ...) trace on the extracted MainSolver bookkeeping model.
   One script per line: space-separated ops
     push | pop | insert | check:flag | check:simplify:<fns-after> | check:solve:sat | check:solve:unsat:<k> | check:solve:unknown
   Output per line: ';'-separated states after each op:  <nframes>|<unsat flags>|<fns>|<inserted>|<answer or ->  *)
open Frames_model
let rec nat_of_int n = if n <= 0 then O else S (nat_of_int (n - 1))
let rec int_of_nat = function O -> 0 | S n -> 1 + int_of_nat n
let () =
  try while true do
    let line = input_line stdin in
    let ops = List.filter (fun s -> s <> "") (String.split_on_char ' ' line) in
    let s = ref init in
    let out = Buffer.create 256 in
    List.iter (fun o ->
      let parts = String.split_on_char ':' o in
      (* the oracles for this op *)
      let engine_res = ref EUnknown and early_at = ref (-1) and consulted = ref false in
      let engine _ = consulted := true; !engine_res in
      let early gs = (List.length gs = !early_at) in
      let opv = match parts with
        | ["push"] -> OPush | ["pop"] -> OPop | ["insert"] -> OAssert ()
        | "check" :: rest ->
          (match rest with
           | ["flag"] -> ()
           | ["simplify"; k] -> early_at := int_of_string k
           | ["solve"; "sat"] -> engine_res := ESat
           | ["solve"; "unsat"; k] -> engine_res := EUnsat (nat_of_int (int_of_string k))
           | _ -> engine_res := EUnknown);
          OCheck
        | _ -> failwith ("bad op " ^ o) in
      let (s', a) = step engine early !s opv in
      s := s';
      let flags = String.concat "" (List.map (fun fr -> if funsat fr then "1" else "0") (frames s')) in
      let ans = match a with None -> "-" | Some Sat -> "sat" | Some Unsat -> "unsat" | Some Unknown -> "unknown" in
      Buffer.add_string out (Printf.sprintf "%d|%s|%d|%d|%s|%s;" (List.length (frames s')) flags (int_of_nat (fns s'))
                               (int_of_nat (inserted s')) ans (if !consulted then "engine" else "noengine"))) ops;
    print_endline (Buffer.contents out)
  done with End_of_file -> ()
