(* C15 driver: same input lines as harness/h_rat.cc ("[!]op modeA A modeB B"; modes and '!' are
   ignored: the model has no hidden state), prints the model's result in the harness' format:
     R <W|B> num/den hash     I <int>     E <error>
   for gcd / lcm / divexact additionally " | <result of the repaired variant>". *)
open Rat_model
let rec pos_of_bits = function
  | [] -> failwith "zero" | [true] -> XH
  | b :: r -> if b then XI (pos_of_bits r) else XO (pos_of_bits r)
let rec bits_of_pos = function XH -> [true] | XO p -> false :: bits_of_pos p | XI p -> true :: bits_of_pos p
let z_of_string s =
  let neg = String.length s > 0 && s.[0] = '-' in
  let body = if neg then String.sub s 1 (String.length s - 1) else s in
  match Bits.bits_of_decimal body with
  | [] -> Z0 | b -> if neg then Zneg (pos_of_bits b) else Zpos (pos_of_bits b)
let string_of_pos p = Bits.decimal_of_bits (bits_of_pos p)
let string_of_z = function
  | Z0 -> "0" | Zpos p -> string_of_pos p | Zneg p -> "-" ^ string_of_pos p
let parse_q s =
  match String.split_on_char '/' s with
  | [n; d] -> (z_of_string n, (match z_of_string d with Zpos p -> p | _ -> failwith "den"))
  | [n] -> (z_of_string n, XH)
  | _ -> failwith "rat"
let show_fr x =
  let body = match x with
    | Word (n, d) -> "R W " ^ string_of_z n ^ "/" ^ string_of_z d
    | Big q -> "R B " ^ string_of_z q.qnum ^ "/" ^ string_of_pos q.qden in
  body ^ " " ^ string_of_z (fr_hash x) ^ (if wfb x then "" else " !wf")
let err_name = function
  | UB_overflow -> "UB_overflow" | UB_divzero -> "UB_divzero" | Abort_called -> "Abort"
  | Gmp_divzero -> "Gmp_divzero" | Gmp_inexact -> "Gmp_inexact" | Out_of_fuel -> "Out_of_fuel"
let show_res = function Ok x -> show_fr x | Err e -> "E " ^ err_name e
let show_int z = "I " ^ string_of_z z
let show_bool b = "I " ^ (if b then "1" else "0")
(* sequence mode (see harness/h_rat.cc): a register file of model values, one dump per step *)
exception Seq_err of string
let field x = match x with
  | Word (n, d) -> "W:" ^ string_of_z n ^ "/" ^ string_of_z d ^ ":" ^ string_of_z (fr_hash x)
  | Big q -> "B:" ^ string_of_z q.qnum ^ "/" ^ string_of_pos q.qden ^ ":" ^ string_of_z (fr_hash x)
let valstr x = match x with
  | Word (n, d) -> string_of_z n ^ "/" ^ string_of_z d
  | Big q -> string_of_z q.qnum ^ "/" ^ string_of_pos q.qden
let run_seq toks =
  let get = function Ok x -> x | Err e -> raise (Seq_err (err_name e)) in
  let huge = of_string (z_of_string "1208925819614629174706176") XH in
  let kk = of_string (z_of_string "1099511627791") XH in
  let h3 = get (fr_add huge (get (of_word_uword (Zpos XH) (Zpos (XI XH))))) in
  match toks with
  | nstr :: rest ->
    let n = int_of_string nstr in
    let r = Array.make n (of_word Z0) in
    let rec inits i l = if i = n then l else match l with
      | t :: l' -> let (a, b) = parse_q (String.sub t 2 (String.length t - 2)) in r.(i) <- of_string a b; inits (i + 1) l'
      | [] -> failwith "seq inits" in
    let steps = match inits 0 rest with "|" :: st -> st | _ -> failwith "seq bar" in
    let buf = Buffer.create 256 in
    Buffer.add_string buf "Q";
    let stepno = ref 0 in
    (try
      List.iter (fun tok ->
        let p = Array.of_list (String.split_on_char '.' tok) in
        let arg k = if Array.length p > k then int_of_string p.(k) else 0 in
        let x = arg 1 and y = arg 2 and z = arg 3 in
        let extra = ref "" in
        let ib b = "I:" ^ (if b then "1" else "0") in
        let icmp a b = match fr_compare a b with Ok v -> "I:" ^ string_of_z v | Err e -> raise (Seq_err (err_name e)) in
        (match p.(0) with
         | "addA" | "addC" -> r.(x) <- get (fr_addA r.(x) r.(y))
         | "subA" | "subC" -> r.(x) <- get (fr_subA r.(x) r.(y))
         | "mulA" | "mulC" -> r.(x) <- get (fr_mulA r.(x) r.(y))
         | "divA" | "divC" -> r.(x) <- get (fr_divA r.(x) r.(y))
         | "add" | "add3" -> r.(x) <- get (fr_add r.(y) r.(z))
         | "sub" | "sub3" -> r.(x) <- get (fr_sub r.(y) r.(z))
         | "mul" | "mul3" -> r.(x) <- get (fr_mul r.(y) r.(z))
         | "div" | "div3" -> r.(x) <- get (fr_div r.(y) r.(z))
         | "neg" -> r.(x) <- get (fr_neg r.(y))
         | "negate" -> r.(x) <- get (fr_negate r.(x))
         | "inv" -> r.(x) <- get (fr_inv r.(y))
         | "floor" -> r.(x) <- get (fr_floor r.(y))
         | "ceil" -> r.(x) <- get (fr_ceil r.(y))
         | "num" -> r.(x) <- fr_get_num r.(y)
         | "den" -> r.(x) <- fr_get_den r.(y)
         | "copy" | "cctor" -> r.(x) <- r.(y)
         | "move" | "swap" -> let t = r.(x) in r.(x) <- r.(y); r.(y) <- t
         | "cmp" -> extra := icmp r.(x) r.(y)
         | "eq" -> extra := ib (fr_eq r.(x) r.(y))
         | "lt" -> extra := (match fr_compare r.(x) r.(y) with Ok v -> ib (v = Zneg XH) | Err e -> raise (Seq_err (err_name e)))
         | "sign" -> extra := "I:" ^ string_of_z (fr_sign r.(x))
         | "isint" -> extra := ib (fr_isInteger r.(x))
         | "prime" -> extra := "P:" ^ valstr (get (fr_sub (get (fr_add r.(x) huge)) huge))
         | "primem" -> extra := "P:" ^ valstr (get (fr_div (get (fr_mul r.(x) kk)) kk))
         | "primec" -> extra := icmp r.(x) huge
         | "primeq" -> extra := ib (fr_eq r.(x) h3)
         | _ -> failwith "seq step");
        if !stepno > 0 then Buffer.add_string buf " ;";
        if !extra <> "" then Buffer.add_string buf (" " ^ !extra);
        Array.iter (fun v -> Buffer.add_string buf (" " ^ field v ^ (if wfb v then "" else "!wf"))) r;
        incr stepno) steps;
      Buffer.add_string buf " ; F";
      Array.iter (fun v -> Buffer.add_string buf (" P:" ^ valstr (get (fr_sub (get (fr_add v huge)) huge)))) r;
      Buffer.contents buf
    with Seq_err e -> "E " ^ e ^ " step " ^ string_of_int !stepno)
  | [] -> "BAD"

let () =
  try while true do
    let l = input_line stdin in
    let l = if String.length l > 0 && l.[0] = '!' then String.sub l 1 (String.length l - 1) else l in
    (try
      match String.split_on_char ' ' l with
      | "seq" :: toks -> print_endline (run_seq toks)
      | [op; _; sa; _; sb] ->
        let out =
          if op = "ctorw" then show_fr (of_word (z_of_string sa))
          else if op = "ctoru" then show_fr (of_uint32 (z_of_string sa))
          else if op = "ctorwu" then show_res (of_word_uword (z_of_string sa) (z_of_string sb))
          else begin
            let (an, ad) = parse_q sa and (bn, bd) = parse_q sb in
            let a = of_string an ad and b = of_string bn bd in
            match op with
            | "add" | "add3" -> show_res (fr_add a b)
            | "sub" | "sub3" -> show_res (fr_sub a b)
            | "mul" | "mul3" -> show_res (fr_mul a b)
            | "div" | "div3" -> show_res (fr_div a b)
            | "addA" -> show_res (fr_addA a b)
            | "subA" -> show_res (fr_subA a b)
            | "mulA" -> show_res (fr_mulA a b)
            | "divA" -> show_res (fr_divA a b)
            | "selfadd" -> show_res (fr_addA a a)
            | "selfsub" -> show_res (fr_subA a a)
            | "selfmul" -> show_res (fr_mulA a a)
            | "selfdiv" -> show_res (fr_divA a a)
            | "neg" -> show_res (fr_neg a)
            | "negate" -> show_res (fr_negate a)
            | "inv" -> show_res (fr_inv a)
            | "copy" -> show_fr a
            | "floor" -> show_res (fr_floor a)
            | "ceil" -> show_res (fr_ceil a)
            | "num" -> show_fr (fr_get_num a)
            | "den" -> show_fr (fr_get_den a)
            | "round" -> show_res (fr_round_to_int a)
            | "cmp" -> (match fr_compare a b with Ok z -> show_int z | Err e -> "E " ^ err_name e)
            | "lt" -> (match fr_compare a b with Ok z -> show_bool (z = Zneg XH) | Err e -> "E " ^ err_name e)
            | "le" -> (match fr_compare a b with Ok z -> show_bool (z <> Zpos XH) | Err e -> "E " ^ err_name e)
            | "eq" -> show_bool (fr_eq a b)
            | "sign" -> show_int (fr_sign a)
            | "isint" -> show_bool (fr_isInteger a)
            | "iszero" -> show_bool (fr_isZero a)
            | "isone" -> show_bool (fr_isOne a)
            | "gcd" -> show_res (fr_gcd a b) ^ " | " ^ show_res (fr_gcd_fixed a b)
            | "lcm" -> show_res (fr_lcm a b) ^ " | " ^ show_res (fr_lcm_fixed a b)
            | "fdiv" -> show_res (fr_fdiv_q a b)
            | "mod" -> show_res (fr_mod a b)
            | "divexact" -> show_res (fr_divexact a b) ^ " | " ^ show_res (fr_divexact_fixed a b)
            | _ -> "BAD"
          end in
        print_endline out
      | _ -> print_endline "BAD"
    with Failure m -> print_endline ("BAD " ^ m))
  done with End_of_file -> ()
