(* Driver for the extracted status protocol (coq/Extract/Extract_protocol.v).
   Input line:   MODE CFG ITEMS TAIL
     MODE  F | P            CFG  gen | fixed        TAIL  . (nothing pending) | ~ (pending text at end of input)
     ITEMS comma separated, - for none:
        o ok   x ok+exit   e error response   s parse error   u unbalanced ')'   l lexer exit(1)
        t<site>:<class>    a command throwing <class> at <site>
             sites   G generic  P push/pop  T term application  I insertFormula  V get-value printing
             classes Api NonLinear DivZero Internal StrConv LogicError OutOfRange InvalidArg Overflow IosFailure BadAlloc OutOfMemory
   Output line:  diag=B problem=B end=E0|E1|A
   Input line `classes`: the classes escaping each site under gen_cfg. *)
open Protocol_model

let exn_of = function
  | "Api" -> ExApi | "NonLinear" -> ExNonLinear | "DivZero" -> ExDivZero | "Internal" -> ExInternal
  | "StrConv" -> ExStrConv | "LogicError" -> ExLogicError | "OutOfRange" -> ExOutOfRange
  | "InvalidArg" -> ExInvalidArg | "Overflow" -> ExOverflow | "IosFailure" -> ExIosFailure
  | "BadAlloc" -> ExBadAlloc | "OutOfMemory" -> ExOutOfMemory | s -> failwith ("class " ^ s)
let name_of = function
  | ExApi -> "Api" | ExNonLinear -> "NonLinear" | ExDivZero -> "DivZero" | ExInternal -> "Internal"
  | ExStrConv -> "StrConv" | ExLogicError -> "LogicError" | ExOutOfRange -> "OutOfRange"
  | ExInvalidArg -> "InvalidArg" | ExOverflow -> "Overflow" | ExIosFailure -> "IosFailure"
  | ExBadAlloc -> "BadAlloc" | ExOutOfMemory -> "OutOfMemory"
let site_of = function
  | 'G' -> SGeneric | 'P' -> SPushPop | 'T' -> STermApp | 'I' -> SInsertFormula | 'V' -> SGetValuePrint
  | _ -> failwith "site"
let item s =
  match s with
  | "o" -> { syn = SynOk; res = ROk; is_exit = false }
  | "x" -> { syn = SynOk; res = ROk; is_exit = true }
  | "e" -> { syn = SynOk; res = RError; is_exit = false }
  | "s" -> { syn = SynParse; res = ROk; is_exit = false }
  | "u" -> { syn = SynUnbalanced; res = ROk; is_exit = false }
  | "l" -> { syn = SynLexFatal; res = ROk; is_exit = false }
  | _ when String.length s > 3 && s.[0] = 't' && s.[2] = ':' ->
      { syn = SynOk; res = RThrow (site_of s.[1], exn_of (String.sub s 3 (String.length s - 3))); is_exit = false }
  | _ -> failwith ("item " ^ s)
let b x = if x then "1" else "0"
let () =
  try while true do
    let l = String.trim (input_line stdin) in
    if l = "classes" then begin
      List.iter (fun (n, s) ->
        Printf.printf "%s=%s " n (String.concat "," (List.map name_of (escaping gen_cfg s))))
        ["G", SGeneric; "P", SPushPop; "T", STermApp; "I", SInsertFormula; "V", SGetValuePrint];
      print_newline ()
    end else
    match String.split_on_char ' ' l with
    | [m; c; items; t] ->
      let cfg = if c = "fixed" then fixed_cfg else gen_cfg in
      let cs = if items = "-" then [] else List.map item (String.split_on_char ',' items) in
      let sc = { cmds = cs; tl = (if t = "~" then TPending else TNone) } in
      let o = run cfg (if m = "F" then MFile else MPipe) sc in
      Printf.printf "diag=%s problem=%s end=%s\n" (b o.diag) (b o.problem)
        (match o.ending_of with Exit nz -> if nz then "E1" else "E0" | Abort -> "A")
    | _ -> print_endline "bad"
  done with End_of_file -> ()
