(* Driver of the extracted unsat-core models (coq/Core).  One request per line, one answer per line.

   min <bg>|<targets>|<table>
       bg, targets: comma separated non-negative integers (may be empty); table: entries  l:a  separated by ';'
       where l is a comma separated list (the asserted list, in order) and a is 1 (sat) or 0 (unsat).
       Runs the extracted performNaive_log with chk := table lookup.
       Answer:  ok <result>|<log>     log entries  l:a  separated by ';'
                missing <l>           the model asked for a list that is not in the table
   mz <full>|<current>|<bits>|<targets>|<table>
       the extracted UnsatCoreBuilder::minimize: full = 1 (:print-cores-full) or 0; current = the current assertions,
       bits = TermNames::contains of each (0/1, same length); targets = allTerms (full) / namedTerms (named).
       Answer:  ok <result>|   or   missing <l>
   core <undef>|<ders>|<leafmasks>|<parts>|<full>|<minCore>|<namesEmpty>|<contains>|<orig>
       the extracted UnsatCoreBuilder::buildBody up to partitionNamedTerms.  ders: entries c:t:p1,p2,.. separated by ';'
       (t = clause_type as integer 0..5); leafmasks: c:b1,b2,..; parts: t:i1,i2,.. in map order (the indices that count for
       the term: one in the code as it is); contains: t:b; orig: r:o (stored formula -> assertion as given; default identity).
       Answer:  ok <leaves>|<allTerms>|<named>|<hidden>    (named/hidden empty in full mode)   or   none
*)
open Core_model

let rec nat_of_int n = if n <= 0 then O else S (nat_of_int (n - 1))
let rec int_of_nat = function O -> 0 | S n -> 1 + int_of_nat n

let ints s = if String.trim s = "" then [] else List.map (fun x -> int_of_string (String.trim x)) (String.split_on_char ',' s)
let show l = String.concat "," (List.map string_of_int l)

exception Missing of int list

let rec pos_of_int n = if n <= 1 then XH else if n land 1 = 1 then XI (pos_of_int (n lsr 1)) else XO (pos_of_int (n lsr 1))
let n_of_int n = if n = 0 then N0 else Npos (pos_of_int n)
let rec int_of_pos = function XH -> 1 | XO p -> 2 * int_of_pos p | XI p -> 2 * int_of_pos p + 1
let int_of_n = function N0 -> 0 | Npos p -> int_of_pos p

let entries s = if String.trim s = "" then [] else String.split_on_char ';' s
let ctype_of_int = function 0 -> CLA_ORIG | 1 -> CLA_LEARNT | 2 -> CLA_THEORY | 3 -> CLA_DERIVED | 4 -> CLA_ASSUMPTION | 5 -> CLA_SPLIT
  | _ -> failwith "bad clause type"

let handle_core rest =
  match String.split_on_char '|' rest with
  | [undef; ders; lm; parts; full; minc; nempty; cont; orig] ->
      let p = List.map (fun e -> match String.split_on_char ':' e with
          | [c; t; ps] -> (n_of_int (int_of_string c), { d_type = ctype_of_int (int_of_string t); d_chain = List.map n_of_int (ints ps) })
          | _ -> failwith "bad der") (entries ders) in
      let lmt = List.map (fun e -> match String.split_on_char ':' e with
          | [c; bs] -> (int_of_string c, List.map nat_of_int (ints bs)) | _ -> failwith "bad leaf mask") (entries lm) in
      let cmask c = (match List.assoc_opt (int_of_n c) lmt with Some m -> m | None -> []) in
      let pm = List.map (fun e -> match String.split_on_char ':' e with
          | [t; i] -> (n_of_int (int_of_string t), List.map nat_of_int (ints i)) | _ -> failwith "bad part") (entries parts) in
      let om = List.map (fun e -> match String.split_on_char ':' e with
          | [r; o] -> (int_of_string r, int_of_string o) | _ -> failwith "bad orig") (entries orig) in
      let origf t = (match List.assoc_opt (int_of_n t) om with Some o -> n_of_int o | None -> t) in
      let ct = List.map (fun e -> match String.split_on_char ':' e with
          | [t; b] -> (int_of_string t, String.trim b = "1") | _ -> failwith "bad contains") (entries cont) in
      let contains t = (match List.assoc_opt (int_of_n t) ct with Some b -> b | None -> false) in
      let b x = String.trim x = "1" in
      let shown l = show (List.map int_of_n l) in
      let und = n_of_int (int_of_string (String.trim undef)) in
      (match computeClauses und p with
       | None -> print_endline "none"
       | Some leaves ->
           (match buildCore (b full) (b minc) (b nempty) contains cmask pm origf und p with
            | None -> print_endline "none"
            | Some (FullCore all) -> Printf.printf "ok %s|%s||\n" (shown leaves) (shown all)
            | Some (NamedCore (nm, hd)) ->
                Printf.printf "ok %s|%s|%s|%s\n" (shown leaves) (shown (mapClausesToTerms cmask pm origf leaves)) (shown nm) (shown hd)))
  | _ -> print_endline "bad"

let handle_min rest =
  match String.split_on_char '|' rest with
  | [bg; tg; tb] ->
      let bg = ints bg and tg = ints tg in
      let table =
        if String.trim tb = "" then []
        else List.map (fun e -> match String.split_on_char ':' e with
            | [l; a] -> (ints l, String.trim a = "1")
            | _ -> failwith "bad table entry") (String.split_on_char ';' tb) in
      let chk l =
        let k = List.map int_of_nat l in
        match List.assoc_opt k table with Some a -> a | None -> raise (Missing k) in
      (try
         let (r, lg) = performNaive_log chk (List.map nat_of_int bg) (List.map nat_of_int tg) in
         Printf.printf "ok %s|%s\n" (show (List.map int_of_nat r))
           (String.concat ";" (List.map (fun (l, a) -> show (List.map int_of_nat l) ^ ":" ^ (if a then "1" else "0")) lg))
       with Missing k -> Printf.printf "missing %s\n" (show k))
  | _ -> print_endline "bad"

let handle_mz rest =
  match String.split_on_char '|' rest with
  | [full; cur; bits; tg; tb] ->
      let cur = ints cur and bits = ints bits and tg = ints tg in
      if List.length cur <> List.length bits then print_endline "bad lengths" else begin
      let cmap = List.combine cur bits in
      let contains t = (match List.assoc_opt (int_of_nat t) cmap with Some 1 -> true | _ -> false) in
      let table =
        if String.trim tb = "" then []
        else List.map (fun e -> match String.split_on_char ':' e with
            | [l; a] -> (ints l, String.trim a = "1")
            | _ -> failwith "bad table entry") (String.split_on_char ';' tb) in
      let chk l =
        let k = List.map int_of_nat l in
        match List.assoc_opt k table with Some a -> a | None -> raise (Missing k) in
      let tg = List.map nat_of_int tg in
      (try
         let r = minimize chk contains (String.trim full = "1") tg tg (List.map nat_of_int cur) in
         Printf.printf "ok %s|\n" (show (List.map int_of_nat r))
       with Missing k -> Printf.printf "missing %s\n" (show k)) end
  | _ -> print_endline "bad"

let () =
  try while true do
    let l = input_line stdin in
    (try
      match String.index_opt l ' ' with
      | Some i ->
          let cmd = String.sub l 0 i and rest = String.sub l (i + 1) (String.length l - i - 1) in
          (match cmd with
           | "min" -> handle_min rest
           | "mz" -> handle_mz rest
           | "core" -> handle_core rest
           | _ -> print_endline "bad")
      | None -> print_endline "bad"
    with Failure m -> print_endline ("bad " ^ m));
    flush stdout
  done with End_of_file -> ()
