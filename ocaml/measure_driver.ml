(* One segment per line: snapshots separated by ';', each "size:lim1,lim2,..."; prints the index of the first
   snapshot that does not make progress over its predecessor, or "ok <n>". *)
open Measure_model
let rec nat_of_int n = if n <= 0 then O else S (nat_of_int (n - 1))
let () =
  try while true do
    let line = input_line stdin in
    let snaps = List.filter (fun s -> s <> "") (String.split_on_char ';' line) in
    let shapes = List.map (fun s ->
        match String.split_on_char ':' s with
        | [sz; lims] ->
          let ls = List.filter (fun x -> x <> "") (String.split_on_char ',' lims) in
          shape (nat_of_int (int_of_string sz)) (List.map (fun x -> nat_of_int (int_of_string x)) ls)
        | _ -> failwith "bad snapshot") snaps in
    let rec go i prev = function
      | [] -> Printf.printf "ok %d\n" i
      | x :: r -> (match prev with
          | Some p when not (progress p x) -> Printf.printf "stuck %d\n" i
          | _ -> go (i + 1) (Some x) r) in
    go 0 None shapes
  done with End_of_file -> ()
