(* Driver for the verified evaluator (coq/Sem).  One request per line (an s-expression), one answer per line.
   (check (sig (v N S).. (f N (S..) S)..) (model (def N ((N S)..) S T)..) (asserts T..) (values T..))   *)
open Sem_model

type sx = A of string | L of sx list

let parse (s : string) : sx =
  let n = String.length s in
  let pos = ref 0 in
  let rec skip () = while !pos < n && (s.[!pos] = ' ' || s.[!pos] = '\t') do incr pos done in
  let rec one () =
    skip ();
    if !pos >= n then failwith "eof";
    if s.[!pos] = '(' then begin
      incr pos;
      let items = ref [] in
      skip ();
      while !pos < n && s.[!pos] <> ')' do items := one () :: !items; skip () done;
      if !pos >= n then failwith "unclosed";
      incr pos; L (List.rev !items)
    end else begin
      let st = !pos in
      while !pos < n && s.[!pos] <> ' ' && s.[!pos] <> '(' && s.[!pos] <> ')' do incr pos done;
      A (String.sub s st (!pos - st))
    end in
  one ()

let rec pos_of_bits = function
  | [] -> failwith "zero" | [true] -> XH
  | b :: r -> if b then XI (pos_of_bits r) else XO (pos_of_bits r)
let rec bits_of_pos = function XH -> [true] | XO p -> false :: bits_of_pos p | XI p -> true :: bits_of_pos p
let z_of_string s =
  let neg = String.length s > 0 && s.[0] = '-' in
  let body = if neg then String.sub s 1 (String.length s - 1) else s in
  match Bits.bits_of_decimal body with
  | [] -> Z0 | b -> if neg then Zneg (pos_of_bits b) else Zpos (pos_of_bits b)
let n_of_string s = match Bits.bits_of_decimal s with [] -> N0 | b -> Npos (pos_of_bits b)
let pos_of_string s = match Bits.bits_of_decimal s with [] -> failwith "zero denominator" | b -> pos_of_bits b
let string_of_pos p = Bits.decimal_of_bits (bits_of_pos p)
let string_of_z = function Z0 -> "0" | Zpos p -> string_of_pos p | Zneg p -> "-" ^ string_of_pos p
let string_of_n = function N0 -> "0" | Npos p -> string_of_pos p

let sort_of = function
  | A "B" -> SBool | A "I" -> SInt | A "R" -> SReal | L [A "U"; A n] -> SU (n_of_string n)
  | _ -> failwith "sort"

let rec term_of (x : sx) : term =
  match x with
  | L [A "v"; A n] -> TVar (n_of_string n)
  | L [A "b"; A "1"] -> TBool true
  | L [A "b"; A "0"] -> TBool false
  | L [A "i"; A z] -> TInt (z_of_string z)
  | L [A "r"; A n; A d] -> TReal { qnum = z_of_string n; qden = pos_of_string d }
  | L [A "a"; A s; A n] -> TAbs (n_of_string s, n_of_string n)
  | L [A "not"; t] -> TNot (term_of t)
  | L (A "and" :: ts) -> TAnd (List.map term_of ts)
  | L (A "or" :: ts) -> TOr (List.map term_of ts)
  | L [A "xor"; a; b] -> TXor (term_of a, term_of b)
  | L (A "=>" :: ts) -> TImp (List.map term_of ts)
  | L [A "ite"; c; a; b] -> TIte (term_of c, term_of a, term_of b)
  | L (A "=" :: ts) -> TEq (List.map term_of ts)
  | L (A "distinct" :: ts) -> TDistinct (List.map term_of ts)
  | L (A "+" :: ts) -> TAdd (List.map term_of ts)
  | L (A "-" :: ts) -> TSub (List.map term_of ts)
  | L [A "neg"; t] -> TNeg (term_of t)
  | L (A "*" :: ts) -> TMul (List.map term_of ts)
  | L [A "/"; a; b] -> TRDiv (term_of a, term_of b)
  | L [A "div"; a; b] -> TIDiv (term_of a, term_of b)
  | L [A "mod"; a; b] -> TMod (term_of a, term_of b)
  | L (A "<=" :: ts) -> TLe (List.map term_of ts)
  | L (A "<" :: ts) -> TLt (List.map term_of ts)
  | L (A ">=" :: ts) -> TGe (List.map term_of ts)
  | L (A ">" :: ts) -> TGt (List.map term_of ts)
  | L (A "app" :: A f :: ts) -> TApp (n_of_string f, List.map term_of ts)
  | _ -> failwith "term"

let string_of_value = function
  | None -> "none"
  | Some (VB true) -> "B1" | Some (VB false) -> "B0"
  | Some (VZ z) -> "Z" ^ string_of_z z
  | Some (VQ q) -> "Q" ^ string_of_z q.qnum ^ "/" ^ string_of_pos q.qden
  | Some (VU (s, n)) -> "U" ^ string_of_n s ^ "." ^ string_of_n n

let handle (line : string) : string =
  match parse line with
  | L [A "check"; L (A "sig" :: sg); L (A "model" :: md); L (A "asserts" :: asl); L (A "values" :: vals)] ->
    let vars = List.filter_map (function L [A "v"; A n; s] -> Some (n_of_string n, sort_of s) | _ -> None) sg in
    let funs = List.filter_map (function L [A "f"; A n; L ss; s] -> Some (n_of_string n, (List.map sort_of ss, sort_of s)) | _ -> None) sg in
    let sg = { sig_vars = vars; sig_funs = funs } in
    let m = List.map (function
        | L [A "def"; A n; L ps; s; body] ->
          (n_of_string n, { d_params = List.map (function L [A p; ps] -> (n_of_string p, sort_of ps) | _ -> failwith "param") ps;
                            d_res = sort_of s; d_body = term_of body })
        | _ -> failwith "def") md in
    let i = interp_of m in
    let asserts = List.map term_of asl in
    let rs = List.map (fun a -> match sem i [] a with Some (VB true) -> "T" | Some (VB false) -> "F" | Some _ -> "S" | None -> "N") asserts in
    let missing_v = List.filter (fun x -> not (covers_var m x)) vars |> List.map (fun (n, _) -> string_of_n n) in
    let missing_f = List.filter (fun x -> not (covers_fun m x)) funs |> List.map (fun (n, _) -> string_of_n n) in
    let ill = List.filter (fun (_, d) -> d.d_params = [] && not (const_wellsorted d)) m |> List.map (fun (n, _) -> string_of_n n) in
    let vs = List.map (fun t -> string_of_value (sem i [] (term_of t))) vals in
    Printf.sprintf "ok=%s covers=%s missing=%s illsorted=%s asserts=%s values=%s"
      (if model_ok sg m asserts then "1" else "0") (if model_covers sg m then "1" else "0")
      (String.concat "," (missing_v @ missing_f)) (String.concat "," ill) (String.concat "" rs) (String.concat ";" vs)
  | _ -> "error bad-request"

let () =
  try while true do
    let l = input_line stdin in
    (try print_endline (handle l) with Failure m -> print_endline ("error " ^ m) | Not_found -> print_endline "error not-found");
  done with End_of_file -> ()
