(* Driver for the extracted pipe-scanner / lexer model (coq/Extract/Extract_pipe.v).
   One case per input line:   HEXSCRIPT LENS BAD EXITS
     LENS   comma separated lengths of the writer's chunks (sum = length of the script), or -
     BAD    comma separated hex texts the parser rejects (parse_ok oracle), or -
     EXITS  comma separated hex texts whose execution sets f_exit (besides those Pipe_model.is_exit_command accepts), or -
   One result line:
     valid=B noesc=B echo=HEX esc=B lbe=B cmds=HEX,.. reads=N,.. pipe=EV;.. stream=EV;.. file=EV;..
   EV:  L:hex (lexer ECHO)  X:hex (executed)  K:hex (parsed, skipped after exit)  S:hex (syntax error)  U *)
open Pipe_model

let hexval c = match c with
  | '0'..'9' -> Char.code c - 48 | 'a'..'f' -> Char.code c - 87 | 'A'..'F' -> Char.code c - 55
  | _ -> failwith "hex"
let text_of_hex (h : string) : char list =
  let n = String.length h / 2 in
  List.init n (fun i -> Char.chr (hexval h.[2*i] * 16 + hexval h.[2*i+1]))
let hex_of_text (t : char list) : string =
  let b = Buffer.create 64 in
  List.iter (fun c -> Buffer.add_string b (Printf.sprintf "%02x" (Char.code c))) t; Buffer.contents b
let hexlist s = if s = "-" || s = "" then [] else List.map text_of_hex (String.split_on_char ',' s)
let rec take n l = if n <= 0 then [] else match l with [] -> [] | x :: r -> x :: take (n-1) r
let rec drop n l = if n <= 0 then l else match l with [] -> [] | _ :: r -> drop (n-1) r
let rec split_by lens t = match lens with
  | [] -> if t = [] then [] else [t]
  | n :: r -> if t = [] then [] else take n t :: split_by r (drop n t)
let ev = function
  | ELexEcho e -> "L:" ^ hex_of_text e | EExec t -> "X:" ^ hex_of_text t | ESkip t -> "K:" ^ hex_of_text t
  | ESyntax t -> "S:" ^ hex_of_text t | EUnbal -> "U"
let evs l = if l = [] then "-" else String.concat ";" (List.map ev l)
let b x = if x then "1" else "0"

let () =
  try while true do
    let l = input_line stdin in
    match String.split_on_char ' ' (String.trim l) with
    | [hs; lens; bad; exs] ->
      let s = text_of_hex hs in
      let bad = hexlist bad and exl = hexlist exs in
      let parse_ok t = not (List.mem t bad) in
      let exits t = is_exit_command t || List.mem t exl in
      let ws = if lens = "-" then (if s = [] then [] else [s])
               else split_by (List.map int_of_string (String.split_on_char ',' lens)) s in
      let pieces = read_pieces parse_ok exits ws in
      let pe = pipe_events parse_ok exits pieces in
      let fe = file_events exits (fun _ -> true) s in
      let se = stream_events parse_ok exits s in
      Printf.printf "valid=%s noesc=%s echo=%s esc=%s lbe=%s cmds=%s reads=%s pipe=%s stream=%s file=%s\n"
        (b (lex_valid s)) (b (no_escaped_quote s)) (hex_of_text (lex_echo s))
        (b gen_has_string_escape) (b gen_lone_backslash_echo)
        (let c = file_commands s in if c = [] then "-" else String.concat "," (List.map hex_of_text c))
        (if pieces = [] then "-" else String.concat "," (List.map (fun p -> string_of_int (List.length p)) pieces))
        (evs pe) (evs se) (evs fe)
    | _ -> print_endline "bad"
  done with End_of_file -> ()
