open Divmod_model
let rec pos_of_bits = function
  | [] -> failwith "zero" | [true] -> XH
  | b :: r -> if b then XI (pos_of_bits r) else XO (pos_of_bits r)
let rec bits_of_pos = function XH -> [true] | XO p -> false :: bits_of_pos p | XI p -> true :: bits_of_pos p
let z_of_string s =
  let neg = String.length s > 0 && s.[0] = '-' in
  let body = if neg then String.sub s 1 (String.length s - 1) else s in
  match Bits.bits_of_decimal body with
  | [] -> Z0 | b -> if neg then Zneg (pos_of_bits b) else Zpos (pos_of_bits b)
let string_of_z = function
  | Z0 -> "0" | Zpos p -> Bits.decimal_of_bits (bits_of_pos p) | Zneg p -> "-" ^ Bits.decimal_of_bits (bits_of_pos p)
let so = function None -> "exc" | Some z -> string_of_z z
let () =
  try while true do
    let l = input_line stdin in
    match String.split_on_char ' ' l with
    | [n; d] -> let n = z_of_string n and d = z_of_string d in
      Printf.printf "%s %s\n" (so (fold_div n d)) (so (fold_mod n d))
    | _ -> print_endline "bad"
  done with End_of_file -> ()
